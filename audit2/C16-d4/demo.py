"""fileset[t] silently answers None ("no file") for a numpy.datetime64 / datetime.date timestamp although
find_closest(t) finds the file."""
import sys, os
sys.path.insert(0, "/tmp/hunt2/C16")
import warnings; warnings.simplefilter("ignore")
import typhon
assert typhon.__file__.startswith("/tmp/hunt2/C16/")
import tempfile, shutil
from datetime import datetime, date
import numpy as np
from typhon.files import FileSet, FileHandler

base = tempfile.mkdtemp(prefix="c16_d4_")
bad = 0
try:
    handler = FileHandler(reader=lambda file_info, **kw: os.path.basename(file_info.path))
    fs = FileSet(os.path.join(base, "{sat}_{year}{month}{day}.nc"), handler=handler)
    for day in (1, 2, 4):
        open(fs.get_filename(datetime(2018, 1, day), fill={"sat": "noaa18"}), "w").close()
    cases = [
        (np.datetime64("2018-01-04"), "noaa18_20180104.nc"),      # exactly a file
        (np.datetime64("2018-01-03T00:00:00"), "noaa18_20180102.nc"),  # gap (tie 02/04: either)
        (date(2018, 1, 4), "noaa18_20180104.nc"),
        ((np.datetime64("2018-01-04"), {"sat": "noaa18"}), "noaa18_20180104.nc"),
    ]
    for item, want in cases:
        t = item[0] if isinstance(item, tuple) else item
        filters = item[1] if isinstance(item, tuple) else None
        direct = os.path.basename(fs.find_closest(t, filters=filters).path)
        try:
            got = fs[item]
        except Exception as err:
            got = "%s: %s" % (type(err).__name__, err)
        ok = got == direct
        print("fileset[%r]: find_closest gives %s, expected its content, observed %r -> %s" % (
            item, direct, got, "ok" if ok else "WRONG"))
        bad += not ok
    # the reference behaviour with the same timestamp as str / datetime:
    print("fileset['2018-01-04'] ->", fs["2018-01-04"], "; fileset[datetime(2018,1,4)] ->", fs[datetime(2018, 1, 4)])
finally:
    shutil.rmtree(base)
print("violations:", bad)
sys.exit(1 if bad else 0)
