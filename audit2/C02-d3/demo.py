"""C02: a name that fills a repeated placeholder with two different values does
not match the template, but it is accepted and mis-parsed."""
import sys, os; sys.path.insert(0, "/tmp/hunt2/C02")
import warnings; warnings.simplefilter("ignore")
from datetime import datetime
import typhon
assert typhon.__file__.startswith("/tmp/hunt2/C02/"), typhon.__file__
from typhon.files import FileSet

bad = 0

def rejected(fs, name, what):
    global bad
    try:
        info = fs.get_info(name)
    except ValueError as err:
        print(f"  {name}: ValueError - ok")
        return
    print(f"  {name}: expected ValueError ({what}),\n"
          f"      observed times={info.times} attr={info.attr} - WRONG")
    bad += 1

def accepted(fs, times, fill=None):
    global bad
    name = fs.get_filename(times, fill=fill)
    fs.reset_cache()
    try:
        info = fs.get_info(name)
        parsed = fs.parse_filename(name)
        ok = info.times == list(times) and info.attr == (fill or {})
        print(f"  {name}: times={info.times} attr={info.attr} parsed={parsed}"
              f" - {'ok' if ok else 'WRONG'}")
    except Exception as err:
        print(f"  {name}: {type(err).__name__}: {err} - WRONG")
        ok = False
    bad += not ok

print("temporal placeholders repeated in directory and file part")
fs = FileSet("/data/{year}/{month}/{year}{month}{day}_{hour}.nc")
accepted(fs, (datetime(2017, 1, 2, 3), datetime(2017, 1, 2, 3)))
# 2016-03-02 03:00 is what comes out: neither the directory nor the file
rejected(fs, "/data/2016/03/20170102_03.nc",
         "directory says 2016-03, file says 2017-01")

print("user placeholder (default regex) repeated")
fs = FileSet("/data/{sat}/{year}{month}{day}_{sat}.nc")
accepted(fs, (datetime(2017, 1, 2), datetime(2017, 1, 2)), {"sat": "metopa"})
rejected(fs, "/data/noaa18/20170102_metopa.nc", "sat is noaa18 and metopa")

print("user placeholder with a list of values / a regex with braces repeated")
fs = FileSet("/data/{sat}/{orbit}/{year}{doy}_{sat}_{orbit}.nc",
             placeholder={"sat": ["noaa18", "metopa"], "orbit": r"\d{5}"})
accepted(fs, (datetime(2016, 12, 31), datetime(2016, 12, 31)),
         {"sat": "metopa", "orbit": "01234"})
rejected(fs, "/data/noaa18/01234/2016366_metopa_01234.nc",
         "sat is noaa18 and metopa")
rejected(fs, "/data/noaa18/01234/2016366_noaa18_43210.nc",
         "orbit is 01234 and 43210")

print("template given to parse_filename")
fs = FileSet("/data/{sat}/{year}{month}{day}_{sat}.nc")
try:
    r = fs.parse_filename("a_b.txt", template="{sat}_{sat}.txt")
    print(f"  a_b.txt against {{sat}}_{{sat}}.txt: {r} - WRONG"); bad += 1
except ValueError:
    print("  a_b.txt against {sat}_{sat}.txt: ValueError - ok")

print(f"{bad} cases wrong")
sys.exit(1 if bad else 0)
