"""moist_lapse_rate returns NaN on the saturation curve p == e_eq(T).

Property C09: "the moist-adiabatic lapse rate lies between 0 and the
dry-adiabatic g/cp" for all T in 100..400 K and all p in 1..1100 hPa.
For every temperature between about 254 K and 375 K there is a pressure in
1..1100 hPa, namely p = e_eq(T), for which the function returns NaN
(0-division in vmr2mixing_ratio gives w_s = inf, then inf / inf).
The formula itself has no singularity there: multiplied through by (1 - x)
its value at x = e_s / p = 1 is g * Rv * T / (Lv * Rd), inside (0, g/cp).
"""
import sys, os
sys.path.insert(0, "/tmp/hunt2/C09")
import warnings
warnings.simplefilter("ignore")
import numpy as np
import typhon
assert typhon.__file__.startswith("/tmp/hunt2/C09/"), typhon.__file__
from typhon import constants
from typhon.physics import (moist_lapse_rate, e_eq_water_mk, e_eq_ice_mk,
                            e_eq_mixed_mk)

gamma_d = constants.earth_standard_gravity / constants.isobaric_mass_heat_capacity
fail = 0


def check(label, p, T, e_eq=None):
    global fail
    with np.errstate(all="ignore"):
        got = np.asarray(moist_lapse_rate(p, T, e_eq=e_eq), dtype=float)
    # independent oracle: Bohren & Albrecht 6.111 multiplied through by (1-x)
    f = e_eq_water_mk if e_eq is None else e_eq
    x = np.asarray(f(T), dtype=float) / np.asarray(p, dtype=float)
    eps = constants.molar_mass_water / constants.molar_mass_dry_air
    a = constants.heat_of_vaporization / (constants.gas_constant_dry_air * np.asarray(T, dtype=float))
    b = constants.heat_of_vaporization ** 2 / (
        constants.isobaric_mass_heat_capacity
        * constants.gas_constant_water_vapor * np.asarray(T, dtype=float) ** 2)
    want = gamma_d * ((1 - x) + a * eps * x) / ((1 - x) + b * eps * x)
    ok = bool(np.all(np.isfinite(got)) and np.all(got > 0)
              and np.all(got <= gamma_d * (1 + 1e-12))
              and np.allclose(got, want, rtol=1e-9, atol=0))
    print(f"{label}: p={np.round(np.ravel(p)[:3], 3)} Pa T={np.ravel(T)[:3]} K\n"
          f"    observed {np.ravel(got)[:3]}  expected {np.ravel(want)[:3]} "
          f"(in (0, {gamma_d:.6f}])  -> {'ok' if ok else 'VIOLATION'}")
    if not ok:
        fail = 1


# float input: 300 K, p = e_s(300 K) = 35.37 hPa
T = 300.
check("float, default e_eq", float(e_eq_water_mk(T)), T)
# 0-d arrays
check("0-d arrays", np.array(float(e_eq_water_mk(280.))), np.array(280.))
# arrays: the whole saturation curve inside 1..1100 hPa
Ts = np.linspace(255., 375., 25)
ps = e_eq_water_mk(Ts)
assert ps.min() >= 100. and ps.max() <= 110000.
check("array along the saturation curve", ps, Ts)
# other saturation functions
check("e_eq=e_eq_mixed_mk", float(e_eq_mixed_mk(260.)), 260., e_eq_mixed_mk)
check("e_eq=e_eq_ice_mk", float(e_eq_ice_mk(270.)), 270., e_eq_ice_mk)
# sanity: ordinary inputs keep their value
check("ordinary input", 1013.25e2, 288.15)
check("neighbour of the curve", float(e_eq_water_mk(T)) * (1 + 1e-9), T)

sys.exit(fail)
