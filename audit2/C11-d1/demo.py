"""C11 / d1: FileSet.move() onto the files' own names with convert set deletes
every selected file (in-place conversion loses all data)."""
import sys, os; sys.path.insert(0, "/tmp/hunt2/C11")
import shutil, tempfile, warnings
warnings.filterwarnings("ignore")
from datetime import datetime
import typhon
assert typhon.__file__.startswith("/tmp/hunt2/C11/"), typhon.__file__
from typhon.files import FileSet, FileHandler


def reader(file_info, **kwargs):
    with open(file_info.path) as f:
        return f.read()


def writer(data, file_info, **kwargs):
    with open(file_info.path, "w") as f:
        f.write(data)


def listing(root):
    return sorted(
        os.path.relpath(os.path.join(d, f), root)
        for d, _, files in os.walk(root) for f in files)


def main():
    tmp = tempfile.mkdtemp(prefix="c11d1_")
    failed = False
    try:
        handler = FileHandler(reader=reader, writer=writer)
        fs = FileSet(tmp + "/data/{year}/{month}/{day}.txt", handler=handler,
                     worker_type="thread", max_threads=1)
        for day in (1, 2, 3):
            fs[datetime(2018, 1, day)] = f"content of day {day}"
        before = listing(tmp)

        # 1) in-place conversion: the target template is the own template
        dst = fs.move(fs.path, convert=str.upper)
        after = listing(tmp)
        print("files before:", before)
        print("files after move(own template, convert=str.upper):", after)
        if after != before:
            failed = True
            print("  -> OBSERVED: the selected files are gone; EXPECTED: "
                  "every file keeps the name the target template generates "
                  "(= its own name) and holds the converted content")
        else:
            contents = [dst[datetime(2018, 1, day)] for day in (1, 2, 3)]
            expected = [f"CONTENT OF DAY {day}" for day in (1, 2, 3)]
            print("contents:", contents)
            if contents != expected:
                failed = True
                print("  -> contents differ from", expected)

        # 2) same thing with a destination FileSet object and a period
        fs2 = FileSet(tmp + "/data2/{year}{month}{day}.txt", handler=handler,
                      worker_type="thread", max_threads=1)
        for day in (1, 2, 3):
            fs2[datetime(2018, 1, day)] = f"day {day}"
        target = FileSet(tmp + "/data2/{year}{month}{day}.txt",
                         handler=handler)
        fs2.move(target, convert=True, start="2018-01-02", end="2018-01-03")
        after2 = listing(tmp + "/data2")
        print("data2 after move(convert=True, 2018-01-02..03):", after2)
        if after2 != ["20180101.txt", "20180102.txt", "20180103.txt"]:
            failed = True
            print("  -> OBSERVED: 20180102.txt was removed; EXPECTED: all "
                  "three files exist")
    finally:
        shutil.rmtree(tmp, ignore_errors=True)

    if failed:
        print("DEFECT: move() removed files whose target name equals their "
              "own name")
        return 1
    print("OK")
    return 0


if __name__ == "__main__":
    sys.exit(main())
