"""concat_collocations: datasets whose groups have swapped roles

a = collocate(("A", ..), ("B", ..))  ->  Collocations/group = [A, B]
b = collocate(("B", ..), ("A", ..))  ->  Collocations/group = [B, A]

expand(a) and expand(b) both have the variables A/*, B/* with one row per pair,
so "the concatenation of expand(a), expand(b)" is well defined.
concat_collocations([a, b]) must expand to exactly that.
"""
import sys, os
sys.path.insert(0, "/tmp/hunt2/C13")
import warnings
warnings.simplefilter("ignore")
import numpy as np
import xarray as xr
import typhon
assert typhon.__file__.startswith("/tmp/hunt2/C13/")
from typhon.collocations import Collocator, expand
from typhon.collocations.collocator import concat_collocations


def points(lats, offset):
    n = len(lats)
    return xr.Dataset({
        "time": ("x", np.datetime64("2020-01-01") + np.arange(n).astype("m8[s]")),
        "lat": ("x", np.asarray(lats, float)),
        "lon": ("x", np.zeros(n)),
        "v": ("x", offset + np.arange(n, dtype=float)),
    })


# A has 3 points, B has 5 points (B: two points near each of A's first two)
A1 = points([0, 10, 20], 100)
B1 = points([0, 0.01, 10, 10.01, 20], 200)
A2 = points([30, 40], 300)
B2 = points([30, 30.01, 30.02, 40], 400)

a = Collocator().collocate(("A", A1), ("B", B1), max_distance=5)
b = Collocator().collocate(("B", B2), ("A", A2), max_distance=5)
print("a groups", a["Collocations/group"].values.tolist(),
      "pairs", a["Collocations/pairs"].values.tolist())
print("b groups", b["Collocations/group"].values.tolist(),
      "pairs", b["Collocations/pairs"].values.tolist())


def rows(expanded):
    return sorted(zip(expanded["A/v"].values.tolist(),
                      expanded["B/v"].values.tolist()))


expected = sorted(rows(expand(a)) + rows(expand(b)))
print("expected (A/v, B/v) rows:", expected)

failed = False
try:
    c = concat_collocations([a, b])
    pairs = c["Collocations/pairs"].values
    groups = c["Collocations/group"].values.tolist()
    sizes = [c.sizes[g + "/collocation"] for g in groups]
    print("concat groups", groups, "stored points", sizes,
          "pairs", pairs.tolist())
    for i in range(2):
        if pairs[i].max() >= sizes[i]:
            print(f"OBSERVED: pairs[{i}] contains index {pairs[i].max()} but "
                  f"only {sizes[i]} points of {groups[i]} are stored")
            failed = True
    observed = rows(expand(c))
    print("observed (A/v, B/v) rows:", observed)
    if observed != expected:
        failed = True
except Exception as exc:
    print("OBSERVED exception:", repr(exc))
    failed = True

if failed:
    print("FAIL: concat_collocations([a, b]) does not expand to "
          "expand(a) ++ expand(b)")
    sys.exit(1)
print("OK")
