"""C20 / d1: SRTM30.get_tiles names no tile for a rectangle of zero width or height
(a point, or a segment of a parallel / meridian) although it lies inside tiles.
Consequence: SRTM30.interpolate of a single location (or of locations that share one
latitude or one longitude) returns 0 without looking at any tile."""
import sys, os
sys.path.insert(0, "/tmp/hunt2/C20")
import tempfile, shutil, warnings
warnings.simplefilter("ignore")
tmp = tempfile.mkdtemp(prefix="c20d1_")
os.environ["TYPHON_DATA_PATH"] = tmp
import numpy as np
import typhon
assert typhon.__file__.startswith("/tmp/hunt2/C20/")
from typhon.topography import SRTM30

fails = 0
def expect(label, got, want):
    global fails
    ok = got == want
    if not ok:
        fails += 1
    print("%-58s observed %-32s expected %-32s %s" % (label, got, want, "ok" if ok else "WRONG"))

try:
    # non-degenerate neighbours of the same places work:
    expect("get_tiles(10.5, 10.5, 10.6, 10.6)", SRTM30.get_tiles(10.5, 10.5, 10.6, 10.6), ["w020n40"])
    # a point strictly inside tile w020n40
    expect("get_tiles(10.5, 10.5, 10.5, 10.5)   [point]", SRTM30.get_tiles(10.5, 10.5, 10.5, 10.5), ["w020n40"])
    # a segment of the parallel 10.5 N that crosses the border at 20 E
    expect("get_tiles(10.5, 10, 10.5, 30)       [parallel segment]", SRTM30.get_tiles(10.5, 10, 10.5, 30),
           ["w020n40", "e020n40"])
    # a segment of the meridian 15.5 E that crosses the border at 40 N
    expect("get_tiles(0, 15.5, 50, 15.5)        [meridian segment]", SRTM30.get_tiles(0, 15.5, 50, 15.5),
           ["w020n90", "w020n40"])
    # zero-height rectangle at the date line
    expect("get_tiles(-20.5, 170, -20.5, 180)   [segment up to 180 E]", SRTM30.get_tiles(-20.5, 170, -20.5, 180),
           ["e140s10"])

    # consequence: interpolate of one location never opens a tile and returns 0
    touched = []
    def fake_get_tile(name):
        touched.append(name)
        return np.full((SRTM30._tile_height, SRTM30._tile_width), 1234, dtype=">i2")
    class FakeTree:
        def query(self, X, k):
            return None, np.zeros(len(X), dtype=int)
    SRTM30.get_tile = staticmethod(fake_get_tile)
    SRTM30.get_tree = staticmethod(lambda name: FakeTree())
    z = SRTM30.interpolate(np.array([10.5]), np.array([10.5]))
    expect("interpolate([10.5], [10.5]) tiles opened", touched, ["w020n40"])
    expect("interpolate([10.5], [10.5]) value (every pixel is 1234)", z.tolist(), [1234.0])
finally:
    shutil.rmtree(tmp, ignore_errors=True)

print("FAIL (%d wrong)" % fails if fails else "PASS")
sys.exit(1 if fails else 0)
