"""C11 / d4: the temporal placeholders {decisecond}, {centisecond} and
{microsecond} (and their end_ versions) are understood when files are found,
but no file name can be generated from them: fileset[s:e] = data and
move(target) raise UnknownPlaceholderError for such templates."""
import sys, os; sys.path.insert(0, "/tmp/hunt2/C11")
import shutil, tempfile, warnings
warnings.filterwarnings("ignore")
from datetime import datetime
import typhon
assert typhon.__file__.startswith("/tmp/hunt2/C11/"), typhon.__file__
from typhon.files import FileSet, FileHandler


def reader(file_info, **kwargs):
    with open(file_info.path) as f:
        return f.read()


def writer(data, file_info, **kwargs):
    with open(file_info.path, "w") as f:
        f.write(data)


def main():
    tmp = tempfile.mkdtemp(prefix="c11d4_")
    failed = False
    handler = FileHandler(reader=reader, writer=writer)
    start = datetime(2018, 1, 1, 12, 30, 15, 123456)
    end = datetime(2018, 1, 1, 12, 30, 16, 987654)
    # placeholder -> microseconds that one unit stands for
    units = {"decisecond": 100000, "centisecond": 10000, "millisecond": 1000,
             "microsecond": 1}
    try:
        for name, unit in units.items():
            template = (
                tmp + "/" + name + "/{year}{month}{day}T{hour}{minute}{second}"
                "_{" + name + "}-{end_hour}{end_minute}{end_second}"
                "_{end_" + name + "}.txt")
            expected = [
                t.replace(microsecond=t.microsecond // unit * unit)
                for t in (start, end)]
            fs = FileSet(template, handler=handler, worker_type="thread",
                         max_threads=1)
            print(f"template ..._{{{name}}}-..._{{end_{name}}}.txt")

            # The placeholder is known to the fileset: a file that is already
            # there is found with the right times.
            digits = len(str(999999 // unit))
            existing = (
                f"{tmp}/{name}/20180101T123014_{'0' * digits}"
                f"-123015_{'0' * digits}.txt")
            os.makedirs(os.path.dirname(existing), exist_ok=True)
            with open(existing, "w") as f:
                f.write("old")
            print("   existing file found with times",
                  [str(t) for t in next(iter(fs.find())).times])

            try:
                fs[start:end] = "payload"
                found = list(fs.find(start, end))
                times = [f.times for f in found]
                content = fs[start]
                print(f"   fileset[s:e] = data -> {os.listdir(tmp + '/' + name)}")
                if times != [expected] or content != "payload":
                    failed = True
                    print(f"   -> found {times}, expected [{expected}]; "
                          f"content {content!r}")
            except Exception as err:
                failed = True
                print(f"   fileset[s:e] = data -> OBSERVED "
                      f"{type(err).__name__}: {err}")
                print(f"   EXPECTED: a file that is found again under "
                      f"{[str(t) for t in expected]}")

        # move from a millisecond template to a microsecond template
        src = FileSet(
            tmp + "/src/{year}{month}{day}{hour}{minute}{second}"
            "{millisecond}.txt", handler=handler, worker_type="thread",
            max_threads=1)
        src[start] = "to be moved"
        try:
            dst = src.move(
                tmp + "/dst/{year}/{doy}/{hour}{minute}{second}_"
                "{microsecond}.txt")
            names = os.listdir(tmp + "/dst/2018/001")
            print("move(millisecond -> microsecond template) ->", names)
            if names != ["123015_123000.txt"]:
                failed = True
                print("   -> expected ['123015_123000.txt']")
        except Exception as err:
            failed = True
            print(f"move(millisecond -> microsecond template) -> OBSERVED "
                  f"{type(err).__name__}: {err}")
            print("   EXPECTED: dst/2018/001/123015_123000.txt")
    finally:
        shutil.rmtree(tmp, ignore_errors=True)

    if failed:
        print("DEFECT: no file names for sub-second placeholders other than "
              "{millisecond}")
        return 1
    print("OK")
    return 0


if __name__ == "__main__":
    sys.exit(main())
