"""C18 / d1: with x2_max = 0 (or any x2_max whose window half-width is below the
round-off of the projection) BMCI still drops database entries that are IDENTICAL to
the observation (chi-square 0 <= x2_max) when the covariance is correlated, and whether
it does depends on the row order of the database.

Run: cd /tmp/hunt2/C18 && /venv/bin/python out/d1/demo.py
"""
import sys, os; sys.path.insert(0, "/tmp/hunt2/C18")
import warnings; warnings.simplefilter("ignore")
import numpy as np
import typhon
assert typhon.__file__.startswith("/tmp/hunt2/C18/"), typhon.__file__
from typhon.retrieval.bmci import BMCI

rng = np.random.default_rng(18)
failures = []

def check(name, y, x, s_o):
    """Every database entry used as observation with x2_max = 0: the exact match has
    chi-square 0 and must be kept -> estimate == its x (entries are distinct, all other
    entries have chi-square > 0 and may or may not be kept; they carry far less weight)."""
    b = BMCI(y, x, s_o)
    xs, sig = b.predict(y, x2_max=0.0)
    qs = b.predict_quantiles(y, [0.5], x2_max=0.0)[:, 0]
    n_nan = int(np.isnan(xs).sum())
    n_nan_q = int(np.isnan(qs).sum())
    # independent oracle: leaving out entries may change the estimate by no more than
    # their share of the total weight; the exact match (weight 1) is never left out.
    si = np.linalg.inv(s_o)
    outside = 0
    for i in range(y.shape[0]):
        dy = y - y[i]
        w = np.exp(-0.5 * np.einsum("ij,jk,ik->i", dy, si, dy))
        ref = (w * x).sum() / w.sum()
        share = 1.0 - 1.0 / w.sum()
        if not np.isnan(xs[i]) and abs(xs[i] - ref) > share * (x.max() - x.min()) + 1e-9:
            outside += 1
    # order independence
    p = rng.permutation(y.shape[0])
    b2 = BMCI(y[p], x[p], s_o)
    xs2, _ = b2.predict(y, x2_max=0.0)
    n_perm = int((np.isnan(xs) != np.isnan(xs2)).sum())
    print("%-34s n=%3d: NaN mean for %3d exact matches, NaN median for %3d, "
          "out of bounds %d, NaN-ness changes with row order for %3d"
          % (name, y.shape[0], n_nan, n_nan_q, outside, n_perm))
    if n_nan or n_nan_q or outside or n_perm:
        failures.append(name)

# 1. the simplest correlated case: two channels
s2 = np.array([[2.0, 0.5], [0.5, 1.0]])
y = np.round(250.0 + 10.0 * rng.normal(size=(40, 2)), 1)
x = np.arange(40.0)
check("2 channels, S=[[2,.5],[.5,1]]", y, x, s2)

# 2. 3, 5, 10 correlated channels
for m in (3, 5, 10):
    a = rng.normal(size=(m, m))
    s = a @ a.T + np.eye(m)
    s = 0.5 * (s + s.T)
    y = 250.0 + 10.0 * rng.normal(size=(60, m))
    x = rng.normal(size=60)
    check("%d correlated channels" % m, y, x, s)

# 3. control: diagonal covariance (works since fix c2a53a7)
y = 250.0 + 10.0 * rng.normal(size=(60, 3))
check("control: diagonal covariance", y, rng.normal(size=60), np.diag([1.0, 4.0, 0.25]))

print()
print("expected: an entry identical to the observation has chi-square 0 <= x2_max = 0, so it "
      "is never left out: finite estimates, for every row order")
if failures:
    print("observed: FAILED for", failures)
    sys.exit(1)
print("observed: as expected")
sys.exit(0)
