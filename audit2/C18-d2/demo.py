"""C18 / d2: for observations far outside the database, where the Gaussian weights are
tiny (sub-normal doubles, chi-square ~ 1400..1490) but NOT all zero, predict / cdf /
predict_quantiles return neither the importance-weighted statistics nor NaN but
arbitrary numbers: the un-normalised weights exp(-chi2/2) are quantised to a few
multiples of 4.9e-324 (and x * w under-flows before the division by sum(w)).

Run: cd /tmp/hunt2/C18 && /venv/bin/python out/d2/demo.py
"""
import sys, os; sys.path.insert(0, "/tmp/hunt2/C18")
import warnings; warnings.simplefilter("ignore")
import numpy as np
import typhon
assert typhon.__file__.startswith("/tmp/hunt2/C18/"), typhon.__file__
from typhon.retrieval.bmci import BMCI

L = np.longdouble
bad = []

def oracle(y, x, s_o, obs, taus):
    """direct evaluation of the weighted sums over the whole database in float128"""
    ev, q = np.linalg.eigh(s_o)
    pr = (y.astype(L) - obs.astype(L)[None, :]) @ q.astype(L)
    chi = (pr ** 2 / ev.astype(L)).sum(axis=1)
    w = np.exp(-chi / 2)
    mean = (w * x).sum() / w.sum()
    std = np.sqrt((w * (x - mean) ** 2).sum() / w.sum())
    o = np.argsort(x)
    cw = np.cumsum(w[o]); cw = (cw / cw[-1]).astype(float)
    return float(chi.min()), float(mean), float(std), np.interp(taus, cw, x[o])

def check(name, y, x, s_o, obs, x2_max=-1.0):
    taus = np.array([0.1, 0.5, 0.9])
    chi_min, mean, std, qo = oracle(y, x, s_o, obs, taus)
    b = BMCI(y, x, s_o)
    xs, sg = b.predict(obs[None, :], x2_max=x2_max)
    qs = b.predict_quantiles(obs[None, :], taus, x2_max=x2_max)[0]
    scale = x.max() - x.min()
    tol = 1e-6 * scale
    some_weight = np.exp(-0.5 * chi_min) > 0.0      # in double precision
    if np.isnan(xs[0]) and np.isnan(sg[0]) and np.isnan(qs).all():
        ok = not some_weight                        # NaN only if no entry has weight
    else:
        ok = (abs(xs[0] - mean) <= tol and abs(sg[0] - std) <= tol
              and np.all(np.abs(qs - qo) <= 1e-4 * scale))
    print("%s (smallest chi-square %.1f, largest weight %.3g)" % (name, chi_min, np.exp(-0.5 * chi_min)))
    print("    mean      observed %-22.10g expected %.10g" % (xs[0], mean))
    print("    std       observed %-22.10g expected %.10g" % (sg[0], std))
    print("    quantiles observed %s expected %s" % (qs, qo))
    print("    ->", "ok" if ok else "WRONG")
    if not ok:
        bad.append(name)

# 1. one channel, unit variance, three entries; observation 38.7 sigma away
y = np.array([[0.0], [0.05], [0.1]])
x = np.array([0.0, 1.0, 2.0])
s1 = np.array([[1.0]])
check("1 channel, obs 38.6 sigma away", y, x, s1, np.array([38.6]))
check("1 channel, obs 38.7 sigma away", y, x, s1, np.array([38.7]))
check("1 channel, obs 38.7 sigma away, x2_max=2000", y, x, s1, np.array([38.7]), x2_max=2000.0)

# 2. the weights are still accurate (1e-312) but x is small: x * w under-flows
check("1 channel, obs 38 sigma away, x ~ 1e-6", y, 1e-6 * x, s1, np.array([38.0]))

# 3. ten correlated channels, observation ~12 sigma away in every channel
rng = np.random.default_rng(5)
m = 10
a = rng.normal(size=(m, m)); s = a @ a.T + np.eye(m); s = 0.5 * (s + s.T)
ev, q = np.linalg.eigh(s)
y = (rng.normal(size=(200, m)) * np.sqrt(ev)) @ q.T
x = rng.normal(size=200)
d = (np.sqrt(ev) * np.ones(m)) @ q.T          # one sigma along every principal axis
lo, hi = 5.0, 20.0
for _ in range(60):                            # bisect for smallest chi-square ~ 1487
    mid = 0.5 * (lo + hi)
    c = oracle(y, x, s, mid * d, np.array([0.5]))[0]
    lo, hi = (mid, hi) if c < 1487.0 else (lo, mid)
check("10 correlated channels, obs %.1f sigma away on every axis" % lo, y, x, s, lo * d)

# control: ordinary distance
check("control: 1 channel, obs 5 sigma away", np.array([[0.0], [0.05], [0.1]]), np.array([0.0, 1.0, 2.0]), s1, np.array([5.0]))

print()
print("expected: sum(w x)/sum(w), sqrt(sum(w (x-mean)^2)/sum(w)) whenever an entry has non-zero "
      "weight, NaN otherwise - never an arbitrary number")
if bad:
    print("observed: WRONG for", bad)
    sys.exit(1)
print("observed: as expected")
sys.exit(0)
