"""C07 / d2: cartposlos2geocentric (no optional arguments) fails for arguments
with more than one dimension: the azimuth sign/NaN repair combines the full-shape
mask `fix` with dlat/dlon, which were flattened by boolean indexing."""
import sys, os; sys.path.insert(0, "/tmp/hunt2/C07")
import warnings; warnings.simplefilter("ignore")
import numpy as np
import typhon
assert typhon.__file__.startswith("/tmp/hunt2/C07/"), typhon.__file__
from typhon.geodesy import cartposlos2geocentric


def poslos(r, lat, lon, za, aa):
    """Independent east-north-up construction of position and line of sight."""
    r, lat, lon, za, aa = np.broadcast_arrays(*[np.asarray(v, dtype=float) for v in (r, lat, lon, za, aa)])
    la, lo, z, a = [np.deg2rad(v) for v in (lat, lon, za, aa)]
    up = np.array([np.cos(la) * np.cos(lo), np.cos(la) * np.sin(lo), np.sin(la)])
    north = np.array([-np.sin(la) * np.cos(lo), -np.sin(la) * np.sin(lo), np.cos(la)])
    east = np.array([-np.sin(lo), np.cos(lo), np.zeros_like(lo)])
    los = np.cos(z) * up + np.sin(z) * (np.cos(a) * north + np.sin(a) * east)
    return tuple(r * up) + tuple(los)


r = np.full(6, 7.0e6)
lat = np.array([-60., -10., 0., 25., 50., 88.])
lon = np.array([-180., -75., 0., 33., 120., 180.])
za = np.array([10., 45., 90., 100., 135., 170.])
aa = np.array([-120., -45., 30., 60., 100., 150.])
truth = (r, lat, lon, za, aa)
cart = poslos(*truth)

# reference: the very same numbers as 1-d arrays are converted correctly
ref = cartposlos2geocentric(*cart)
assert max(abs(ref[3] - za).max(), abs(ref[4] - aa).max()) < 1e-7, "1-d reference broken"
print("1-d input (6,): za, aa recovered to %.1e deg" % max(abs(ref[3] - za).max(), abs(ref[4] - aa).max()))

bad = 0
for shape in [(2, 3), (3, 2), (6, 1), (1, 2, 3)]:
    args = [c.reshape(shape) for c in cart]
    try:
        got = cartposlos2geocentric(*args)
    except Exception as exc:
        print("FAIL  shape %-9s raised %s: %s" % (shape, type(exc).__name__, exc))
        bad += 1
        continue
    errs = [float(abs(g - t.reshape(shape)).max()) if np.shape(g) == shape else np.inf
            for g, t in zip(got, truth)]
    if errs[0] < 1e-2 and max(errs[1:]) < 1e-7:
        print("ok    shape %-9s r, lat, lon, za, aa recovered (max angle error %.1e deg)" % (shape, max(errs[1:])))
    else:
        print("FAIL  shape %-9s errors r/lat/lon/za/aa = %s, shapes %s" % (shape, errs, [np.shape(g) for g in got]))
        bad += 1

# broadcasting: one position (scalars), a (2, 2) set of lines of sight
p = poslos(7.0e6, 20., 30., np.array([[30., 60.], [120., 150.]]), np.array([[40., -40.], [110., -110.]]))
try:
    got = cartposlos2geocentric(p[0][0, 0], p[1][0, 0], p[2][0, 0], p[3], p[4], p[5])
    e = max(abs(got[3] - [[30., 60.], [120., 150.]]).max(), abs(got[4] - [[40., -40.], [110., -110.]]).max())
    print(("ok   " if e < 1e-7 else "FAIL ") + " scalar position with (2, 2) lines of sight: error %.1e deg" % e)
    bad += e >= 1e-7
except Exception as exc:
    print("FAIL  scalar position with (2, 2) lines of sight raised %s: %s" % (type(exc).__name__, exc))
    bad += 1

print("expected: the original r, lat, lon, za, aa in the shape of the input")
sys.exit(1 if bad else 0)
