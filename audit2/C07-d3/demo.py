"""C07 / d3: cartposlos2geocentric called WITH the optional arguments
(ppc, lat0, lon0, za0, aa0) never computes the azimuth angle: every line of
sight that is not exactly north/south comes back with aa = 0."""
import sys, os; sys.path.insert(0, "/tmp/hunt2/C07")
import warnings; warnings.simplefilter("ignore")
import numpy as np
import typhon
assert typhon.__file__.startswith("/tmp/hunt2/C07/"), typhon.__file__
from typhon.geodesy import cartposlos2geocentric, geocentricposlos2cart


def enu(lat, lon):
    la, lo = np.deg2rad(lat), np.deg2rad(lon)
    up = np.array([np.cos(la) * np.cos(lo), np.cos(la) * np.sin(lo), np.sin(la)])
    north = np.array([-np.sin(la) * np.cos(lo), -np.sin(la) * np.sin(lo), np.cos(la)])
    east = np.array([-np.sin(lo), np.cos(lo), np.zeros_like(lo)])
    return up, north, east


def oracle_angles(x, y, z, dx, dy, dz):
    """za, aa of the line of sight at the position, text-book ENU projection."""
    p = np.array([x, y, z]); r = np.sqrt((p ** 2).sum(0))
    lat = np.rad2deg(np.arcsin(z / r)); lon = np.rad2deg(np.arctan2(y, x))
    up, north, east = enu(lat, lon)
    d = np.array([dx, dy, dz]); d = d / np.sqrt((d ** 2).sum(0))
    za = np.rad2deg(np.arccos((d * up).sum(0)))
    aa = np.rad2deg(np.arctan2((d * east).sum(0), (d * north).sum(0)))
    return za, aa


def wrap(d):
    return (d + 180.) % 360. - 180.


r0 = np.array([6.9e6, 7.0e6, 7.1e6, 6.5e6, 6.6e6, 7.2e6])
lat0 = np.array([-60., -10., 0., 25., 50., 80.])
lon0 = np.array([-180., -75., 0., 33., 120., 180.])
za0 = np.array([10., 30., 45., 60., 75., 85.])      # upward looking (keeps d4 out of this demo)
aa0 = np.array([-120., -45., 30., 60., 100., 150.])  # none of them north/south
ppc = r0 * np.sin(np.deg2rad(za0))                   # propagation path constant, as documented

bad = 0
for step in [0.0, 50e3, 400e3]:
    x, y, z, dx, dy, dz = geocentricposlos2cart(r0, lat0, lon0, za0, aa0)
    x, y, z = x + step * dx, y + step * dy, z + step * dz      # move along the line of sight
    za_want, aa_want = oracle_angles(x, y, z, dx, dy, dz)
    if step == 0.0:
        assert abs(za_want - za0).max() < 1e-9 and abs(wrap(aa_want - aa0)).max() < 1e-9
    plain = cartposlos2geocentric(x, y, z, dx, dy, dz)
    withopt = cartposlos2geocentric(x, y, z, dx, dy, dz, ppc=ppc,
                                    lat0=lat0, lon0=lon0, za0=za0, aa0=aa0)
    e_plain = abs(wrap(plain[4] - aa_want)).max()
    e_opt = abs(wrap(withopt[4] - aa_want)).max()
    e_za = abs(withopt[3] - za_want).max()
    print("moved %6.0f m along the line of sight" % step)
    print("   expected aa                :", np.round(aa_want, 6))
    print("   without optional arguments :", np.round(plain[4], 6), " max error %.1e deg" % e_plain)
    print("   with    optional arguments :", np.round(withopt[4], 6), " max error %.1e deg" % e_opt)
    print("   (za with optional arguments: max error %.1e deg)" % e_za)
    if not e_opt < 1e-7:
        bad += 1

print("expected: the optional arguments only pin down the zenith/nadir and north/south cases; "
      "for any other direction the azimuth must be the one of the line of sight "
      "(the original aa0 for step 0)")
sys.exit(1 if bad else 0)
