"""C02: an end written with {end_doy} (no end year) is not carried into the
next year when it would otherwise precede the start."""
import sys, os; sys.path.insert(0, "/tmp/hunt2/C02")
import warnings; warnings.simplefilter("ignore")
from datetime import datetime
import typhon
assert typhon.__file__.startswith("/tmp/hunt2/C02/"), typhon.__file__
from typhon.files import FileSet

cases = [
    # (template, start, end)
    ("/data/{year}{doy}_{hour}{minute}-{end_doy}_{end_hour}{end_minute}.nc",
     datetime(2016, 12, 31, 23, 10), datetime(2017, 1, 1, 1, 5)),
    ("/data/{year}{doy}-{end_doy}.nc",
     datetime(2016, 12, 30), datetime(2017, 1, 2)),
    # day 183 is another calendar day in the (leap) year after 2019
    ("/data/{year2}{doy}_{hour}-{end_doy}_{end_hour}.nc",
     datetime(2019, 12, 31, 22), datetime(2020, 7, 1, 3)),
    # day 366 only exists in the year after the start
    ("/data/{year}{month}{day}_{hour}-{end_doy}_{end_hour}.nc",
     datetime(2015, 12, 31, 22), datetime(2016, 12, 31, 1)),
    # controls (no roll-over): have to keep working
    ("/data/{year}{doy}_{hour}{minute}-{end_doy}_{end_hour}{end_minute}.nc",
     datetime(2016, 12, 30, 23, 10), datetime(2016, 12, 31, 1, 5)),
    ("/data/{year}{doy}-{end_doy}.nc",
     datetime(2016, 2, 28), datetime(2016, 2, 29)),
]

bad = 0
for template, start, end in cases:
    fs = FileSet(template)
    name = fs.get_filename((start, end))
    try:
        times = fs.get_info(name).times
        observed = f"{times[0]} .. {times[1]}"
        ok = times == [start, end]
    except Exception as err:
        observed = f"{type(err).__name__}: {err}"
        ok = False
    print(f"{template}\n  name     {name}\n  expected {start} .. {end}\n"
          f"  observed {observed}\n  {'ok' if ok else 'WRONG'}")
    bad += not ok

print(f"{bad} of {len(cases)} cases wrong")
sys.exit(1 if bad else 0)
