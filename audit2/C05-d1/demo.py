"""C05 / d1: a file without data points kills the worker that meets it.

Fileset A: hourly files 00h, 01h (EMPTY: zero points), 02h, 03h.
Fileset B: the same positions two minutes later, hourly files as well.
Expected: every point of A collocates with its partner in B (6 pairs), for
any number of processes.  Observed: the worker that loads the empty file
raises "zero-size array to reduction operation minimum" in
Collocator._get_common_time_period, terminates, and all collocations of the
file pairs it had not processed yet are silently missing (the generator even
yields the class ProcessCrashed as if it were a result).  The total depends
on the number of processes.
"""
import sys, os
sys.path.insert(0, "/tmp/hunt2/C05")
import logging, pickle, shutil, tempfile, warnings
from datetime import datetime, timedelta

import numpy as np
import xarray as xr

import typhon
assert typhon.__file__.startswith("/tmp/hunt2/C05/"), typhon.__file__
from typhon.collocations import Collocator
from typhon.files import FileSet
from typhon.files.handlers.common import FileHandler, expects_file_info

logging.getLogger("typhon").setLevel(logging.CRITICAL)


class PickleHandler(FileHandler):
    @expects_file_info()
    def read(self, file_info, **kwargs):
        with open(file_info.path, "rb") as f:
            return pickle.load(f)


TEMPLATE = "{year}{month}{day}_{hour}{minute}{second}-" \
           "{end_year}{end_month}{end_day}_{end_hour}{end_minute}{end_second}.pkl"
T0 = datetime(2020, 1, 1)


def write(fileset, hour, minutes, ids, lat):
    t = np.array(
        [np.datetime64(T0 + timedelta(hours=hour, minutes=m)) for m in minutes],
        dtype="M8[ns]")
    ds = xr.Dataset(
        {"lat": ("time", np.full(len(ids), lat, dtype=float)),
         "lon": ("time", 20. + 0.001 * np.asarray(ids, dtype=float)),
         "pid": ("time", np.asarray(ids, dtype=int))},
        coords={"time": t},
    )
    name = fileset.get_filename(
        (T0 + timedelta(hours=hour),
         T0 + timedelta(hours=hour, minutes=59, seconds=59)))
    os.makedirs(os.path.dirname(name), exist_ok=True)
    with open(name, "wb") as f:
        pickle.dump(ds, f)


def main():
    root = tempfile.mkdtemp(prefix="c05_d1_")
    try:
        a = FileSet(path=os.path.join(root, "A", TEMPLATE), name="A",
                    handler=PickleHandler())
        b = FileSet(path=os.path.join(root, "B", TEMPLATE), name="B",
                    handler=PickleHandler())
        # hour -> ids of the points in that file (two points per file)
        layout = {0: [0, 1], 1: [], 2: [2, 3], 3: [4, 5]}
        for hour, ids in layout.items():
            write(a, hour, [20, 40][:len(ids)], ids, 10.)        # A
        for hour, ids in {0: [0, 1], 1: [10, 11], 2: [2, 3], 3: [4, 5]}.items():
            write(b, hour, [22, 42], ids, 10.)                    # B, 2 min later
        expected = sorted((i, i) for i in [0, 1, 2, 3, 4, 5])

        failed = False
        for processes in (1, 2, 4):
            got, junk = [], []
            with warnings.catch_warnings():
                warnings.simplefilter("ignore")
                try:
                    results = list(Collocator().collocate_filesets(
                        [a, b], max_interval=300, max_distance=1,
                        processes=processes,
                    ))
                except Exception as error:
                    results = []
                    junk.append(repr(error))
            for result in results:
                if not isinstance(result, tuple):
                    junk.append(result)
                    continue
                ds = result[0]
                pairs = ds["Collocations/pairs"].values
                got += list(zip(ds["A/pid"].values[pairs[0]].tolist(),
                                ds["B/pid"].values[pairs[1]].tolist()))
            ok = sorted(got) == expected and not junk
            failed |= not ok
            print(f"processes={processes}: expected {len(expected)} pairs "
                  f"{expected}\n             observed {len(got)} pairs "
                  f"{sorted(got)}; non-results yielded: {junk}"
                  f" -> {'ok' if ok else 'WRONG'}")
        return 1 if failed else 0
    finally:
        shutil.rmtree(root, ignore_errors=True)


if __name__ == "__main__":
    sys.exit(main())
