"""find_closest(pandas.Timestamp) raises TypeError when t lies in a gap / outside all files."""
import sys, os
sys.path.insert(0, "/tmp/hunt2/C16")
import warnings; warnings.simplefilter("ignore")
import typhon
assert typhon.__file__.startswith("/tmp/hunt2/C16/")
import tempfile, shutil
from datetime import datetime
import pandas as pd
from typhon.files import FileSet

base = tempfile.mkdtemp(prefix="c16_d1_")
bad = 0
try:
    for tmpl in ["flat/{year}{month}{day}.nc", "dirs/{year}/{month}/{day}.nc"]:
        fs = FileSet(os.path.join(base, tmpl))
        for day in (1, 2, 3, 10):
            name = fs.get_filename(datetime(2018, 1, day))
            os.makedirs(os.path.dirname(name), exist_ok=True)
            open(name, "w").close()
        # (timestamp, day of the expected file): in a gap, after the last
        # file, before the first file; 2018-01-02 hits a file name exactly.
        for text, want in [("2018-01-02", 2), ("2018-01-05", 3),
                           ("2018-01-20", 10), ("2017-12-25", 1)]:
            expected = fs.get_filename(datetime(2018, 1, want))
            ref = fs.find_closest(datetime.strptime(text, "%Y-%m-%d")).path
            try:
                got = fs.find_closest(pd.Timestamp(text)).path
            except Exception as err:
                got = "%s: %s" % (type(err).__name__, err)
            ok = got == expected
            print("%-28s t=pd.Timestamp(%s): expected %s (datetime gives %s), observed %s -> %s" % (
                tmpl, text, os.path.relpath(expected, base),
                os.path.relpath(ref, base),
                os.path.relpath(got, base) if got.startswith(base) else got,
                "ok" if ok else "WRONG"))
            bad += not ok
finally:
    shutil.rmtree(base)
print("violations:", bad)
sys.exit(1 if bad else 0)
