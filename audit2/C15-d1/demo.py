"""C15: FileInfo objects restored from the cache file lose the file system of
their FileSet, so find() answers differently with the cache than without it
(and the found files cannot be read any more)."""
import sys, os; sys.path.insert(0, "/tmp/hunt2/C15")
import atexit
import shutil
import tempfile
import warnings

warnings.simplefilter("ignore")
import typhon
assert typhon.__file__.startswith("/tmp/hunt2/C15/"), typhon.__file__
from fsspec.implementations.zip import ZipFileSystem
from typhon.files import FileSet
from typhon.files.handlers.common import FileHandler


def reader(file_info, **kwargs):
    # like every typhon handler: open via the file system of the FileInfo
    with file_info.file_system.open(file_info.path, "rt") as file:
        return file.read()


def answers(fileset):
    result = []
    for info in fileset.find():
        try:
            content = fileset.read(info)
        except Exception as err:
            content = f"{type(err).__name__}: {err}"
        result.append((
            info.path, tuple(info.times), dict(info.attr),
            type(info.file_system).__name__, content,
        ))
    return result


tmp = tempfile.mkdtemp()
failed = False
try:
    src = os.path.join(tmp, "src")
    os.makedirs(os.path.join(src, "data"))
    for day in (1, 2, 3):
        with open(os.path.join(src, "data", f"A_2018-01-0{day}.txt"), "w") as f:
            f.write(f"content of day {day}")
    shutil.make_archive(os.path.join(tmp, "archive"), "zip", src)

    template = "data/{sat}_{year}-{month}-{day}.txt"
    cache = os.path.join(tmp, "cache.json")

    def make(**kwargs):
        return FileSet(
            template, fs=ZipFileSystem(os.path.join(tmp, "archive.zip")),
            handler=FileHandler(reader=reader), **kwargs)

    # Without the persistent cache:
    expected = answers(make())

    # First "run": fill and save the cache
    first = make(info_cache=cache)
    assert answers(first) == expected
    first.save_cache(cache)

    # Second "run" (restart): the cache file is loaded by the constructor
    second = make(info_cache=cache)
    assert len(second.info_cache) == 3, "cache was not loaded"
    observed = answers(second)

    for exp, obs in zip(expected, observed):
        if exp != obs:
            failed = True
            print("without cache:", exp)
            print("with cache   :", obs)
    if len(expected) != len(observed):
        failed = True
        print("different number of files", len(expected), len(observed))
finally:
    # the filesets registered a save at exit for a directory that is gone then
    atexit._clear()
    shutil.rmtree(tmp)

if failed:
    print("DEFECT: find() answers differently with the loaded cache "
          "(file system lost, files unreadable)")
    sys.exit(1)
print("OK: same answers with and without the cache")
