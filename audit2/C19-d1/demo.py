"""mape() rejects a truth (or prediction) vector given as a plain sequence.

Regression of commit 03436d2 ("flatten the truth in mape like the prediction"):
the fix calls the *method* y_test.ravel(), so a truth vector passed as a list /
tuple (accepted before that commit, and accepted by the sibling bias(), which
uses np.ravel) now raises AttributeError instead of returning the MAPE.
"""
import sys, os; sys.path.insert(0, "/tmp/hunt2/C19")
import warnings
warnings.filterwarnings("ignore")
import numpy as np
import typhon
assert typhon.__file__.startswith("/tmp/hunt2/C19/"), typhon.__file__
from typhon.retrieval.scores import mape, bias

truth = [1.0, 2.0, -4.0, 8.0]            # non-zero truth vector
p = 5.0
pred = np.array(truth) * (1 + p / 100)   # uniformly 5 percent too high

failures = 0
cases = [
    ("y_pred ndarray, y_test list", pred, truth),
    ("y_pred ndarray, y_test tuple", pred, tuple(truth)),
    ("y_pred list,    y_test ndarray", list(pred), np.array(truth)),
    ("y_pred list,    y_test list", list(pred), truth),
    ("y_pred ndarray, y_test nested list (n,1)", pred, [[t] for t in truth]),
]
for label, a, b in cases:
    ref = bias(a, b)   # the sibling accepts the very same arguments
    try:
        got = mape(a, b)
        ok = np.isclose(got, p, rtol=1e-9)
        print(f"{label}: mape = {got!r} (expected {p}), bias = {ref!r} -> {'ok' if ok else 'WRONG'}")
        failures += not ok
    except Exception as e:
        print(f"{label}: mape raised {type(e).__name__}: {e} "
              f"(expected {p}; bias returns {ref!r})")
        failures += 1

print("FAIL" if failures else "PASS")
sys.exit(1 if failures else 0)
