"""quantile_score() rejects observations of a consistent shape with
ValueError("Shape of y_test is incompatible ...") when they are given as a
sequence rather than an ndarray, because a bare `except:` around
y_test.reshape(n, 1) turns the AttributeError into a shape complaint; the
estimates given as a nested list fail with AttributeError ('list' has no ndim).
taus, in contrast, may be a list (np.ravel)."""
import sys, os; sys.path.insert(0, "/tmp/hunt2/C19")
import warnings
warnings.filterwarnings("ignore")
import numpy as np
import typhon
assert typhon.__file__.startswith("/tmp/hunt2/C19/"), typhon.__file__
from typhon.retrieval.scores import quantile_score, mean_quantile_score

taus = [0.1, 0.5, 0.9]
y_tau = np.array([[1.0, 2.0, 3.0], [0.0, 5.0, 9.0]])   # (n=2, k=3)
y_obs = [2.0, 7.0]                                      # n = 2 observations

def pinball(e, o, t):
    d = abs(e - o)
    return t * d if e < o else (1 - t) * d
expected = np.array([[pinball(y_tau[i, j], y_obs[i], taus[j]) for j in range(3)]
                     for i in range(2)])

failures = 0
cases = [
    ("y_test list (n,)", y_tau, y_obs),
    ("y_test tuple (n,)", y_tau, tuple(y_obs)),
    ("y_test nested list (n,1)", y_tau, [[o] for o in y_obs]),
    ("y_tau nested list (n,k), y_test ndarray", y_tau.tolist(), np.array(y_obs)),
]
for label, a, b in cases:
    try:
        got = quantile_score(a, b, taus)
        ok = got.shape == expected.shape and np.allclose(got, expected, rtol=1e-12)
        print(f"{label}: {'ok' if ok else 'WRONG ' + repr(got)}")
        failures += not ok
    except Exception as e:
        print(f"{label}: raised {type(e).__name__}: {e}\n    expected scores\n{expected}")
        failures += 1

# the inconsistent ones must still be rejected with ValueError
for label, a, b in [("y_test list of wrong length", y_tau, [2.0, 7.0, 1.0]),
                    ("y_tau list with wrong row length", [[1.0, 2.0], [3.0, 4.0]], np.array(y_obs))]:
    try:
        got = quantile_score(a, b, taus)
        print(f"{label}: accepted -> WRONG"); failures += 1
    except ValueError as e:
        print(f"{label}: ValueError (ok)")
    except Exception as e:
        print(f"{label}: raised {type(e).__name__} instead of ValueError: {e}"); failures += 1

print("FAIL" if failures else "PASS")
sys.exit(1 if failures else 0)
