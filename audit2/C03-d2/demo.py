"""FileSet.match loses the partner that covers the whole period when the files
of the other fileset are longer than one of its sub directories.

The secondary fileset holds 8-day composites in {year}/{doy}/ directories and
declares time_coverage="8 days", so every file's coverage is known to be
[start, start + 8 days].  With a period inside such a file, find() only looks
into the directories of the period and of the one day before it, never
reaches the directory of the composite and match() either raises NoFilesError
or silently omits the composite from the partners.
"""
import sys, os; sys.path.insert(0, "/tmp/hunt2/C03")
import warnings; warnings.simplefilter("ignore")
import shutil, tempfile
from datetime import datetime as D, timedelta
import typhon
assert typhon.__file__.startswith("/tmp/hunt2/C03/"), typhon.__file__
from typhon.files import FileSet


def make(root, name, template, starts, coverage):
    fs = FileSet(os.path.join(root, name, template), name=name,
                 time_coverage=coverage)
    for start in starts:
        filename = fs.get_filename(start)
        os.makedirs(os.path.dirname(filename), exist_ok=True)
        open(filename, "w").close()
    return fs


def oracle(A, B, start, end, mi):
    """Brute force: closed intervals, period [start - mi, end + mi)"""
    end = end + mi - timedelta(microseconds=1)
    start = start - mi
    inside = lambda iv: iv[0] <= end and iv[1] >= start
    A = sorted(a for a in A if inside(a))
    B = sorted(b for b in B if inside(b))
    result = []
    for a in A:
        partners = [b for b in B if b[0] - mi <= a[1] and b[1] + mi >= a[0]]
        if partners:
            result.append((a, partners))
    return result


def run(fa, fb, start, end, mi):
    try:
        return [
            (tuple(p.times), [tuple(s.times) for s in m])
            for p, m in fa.match(fb, start, end, max_interval=mi)]
    except Exception as error:
        return f"{type(error).__name__}: {str(error).splitlines()[0]}"


def short(result):
    if isinstance(result, str):
        return result
    return [(f"{a[0]:%d %H:%M}", [f"{b[0]:%d}.-{b[1]:%d}." for b in m])
            for a, m in result]


root = tempfile.mkdtemp()
failures = 0
try:
    # Primary: one-hour files every 12 hours (flat directory)
    p_starts = [D(2020, 1, d, h) for d in range(1, 25) for h in (0, 12)]
    primary = make(root, "hourly", "h_{year}{month}{day}{hour}.dat",
                   p_starts, "1 hour")
    A = [(s, s + timedelta(hours=1)) for s in p_starts]

    # Secondary 1: 8-day composites, one directory per day of year
    c_starts = [D(2020, 1, 1) + timedelta(days=8 * i) for i in range(3)]
    composites = make(root, "comp", "{year}/{doy}/comp_{year}{doy}.dat",
                      c_starts, "8 days")
    B = [(s, s + timedelta(days=8)) for s in c_starts]

    # Secondary 2: 3-day files in year/month/day directories
    t_starts = [D(2020, 1, 1) + timedelta(days=3 * i) for i in range(8)]
    three = make(root, "three", "{year}/{month}/{day}/t_{hour}{minute}.dat",
                 t_starts, "3 days")
    C = [(s, s + timedelta(days=3)) for s in t_starts]

    cases = [
        ("composites", composites, B, D(2020, 1, 5), D(2020, 1, 6), None),
        ("composites", composites, B, D(2020, 1, 12), D(2020, 1, 14), None),
        ("composites", composites, B, D(2020, 1, 13), D(2020, 1, 18),
         timedelta(hours=6)),
        ("3-day files", three, C, D(2020, 1, 9), D(2020, 1, 10), None),
        ("3-day files", three, C, D(2020, 1, 6), D(2020, 1, 7),
         timedelta(hours=1)),
    ]
    for label, secondary, S, start, end, mi in cases:
        expected = oracle(A, S, start, end, mi or timedelta(0))
        got = run(primary, secondary, start, end, mi)
        ok = got == expected
        failures += not ok
        print(f"{label}: match({start:%Y-%m-%d}, {end:%Y-%m-%d}, "
              f"max_interval={mi}) -> {'ok' if ok else 'WRONG'}")
        if not ok:
            print("   observed:", short(got))
            print("   expected:", short(expected))

    # Without a period the very same files are matched correctly:
    got = run(primary, composites, None, None, None)
    expected = oracle(A, B, D(2019, 1, 1), D(2021, 1, 1), timedelta(0))
    print("composites: match() without period ->",
          "ok" if got == expected else "WRONG")
    failures += got != expected
finally:
    shutil.rmtree(root)

if failures:
    print(f"DEFECT: {failures} periods lose the long file of the other "
          f"fileset")
    sys.exit(1)
print("all fine")
