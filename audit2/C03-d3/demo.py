"""`interval in tree` fails for an interval that is a numpy array.

IntervalTree takes its intervals as "a list or numpy.array" and query()
accepts the rows of an array as query intervals, but the membership test only
recognises tuples and lists as intervals: a row of the very same array is
taken for a point and the test raises ValueError instead of answering.
"""
import sys, os; sys.path.insert(0, "/tmp/hunt2/C03")
import warnings; warnings.simplefilter("ignore")
import numpy as np
import typhon
assert typhon.__file__.startswith("/tmp/hunt2/C03/"), typhon.__file__
from typhon.trees import IntervalTree

stored = np.array([[5, 9], [1, 3], [2, 20], [-4, -4], [0, 0]])
tree = IntervalTree(stored)
queries = np.array([[0, 1], [4, 4], [-3, -1], [21, 30], [-10, 40], [3.5, 4.5],
                    [-4, -4], [10, 10]])

failures = 0
by_query = tree.query(queries)
for row, found in zip(queries, by_query):
    expected = any(a <= row[1] and b >= row[0] for a, b in stored)
    assert bool(found) == expected  # query() itself is right
    results = {}
    for label, item in (("tuple", tuple(row)), ("list", list(row)),
                        ("ndarray", row)):
        try:
            results[label] = item in tree
        except Exception as error:
            results[label] = f"{type(error).__name__}"
    ok = all(r is expected for r in results.values())
    failures += not ok
    print(f"np.array({row.tolist()}) in tree: expected {expected}, observed {results}"
          f"  {'ok' if ok else 'WRONG'}")

# 0-d arrays and numpy scalars are points and must stay points:
for point in (np.array(4), np.float64(4.5), np.array(-5), np.int64(0)):
    expected = any(a <= point <= b for a, b in stored)
    got = point in tree
    failures += got is not expected
    print(f"{point!r} in tree: expected {expected}, observed {got}")

if failures:
    print(f"DEFECT: {failures} membership tests with a numpy interval failed")
    sys.exit(1)
print("all fine")
