"""fresnel(): sequence-typed n1 / n2 with array theta1 worked before the
total-reflection fix (16794f7) and now raise TypeError / ValueError."""
import sys, os; sys.path.insert(0, "/tmp/hunt2/C08")
import warnings
import numpy as np
import typhon
assert typhon.__file__.startswith("/tmp/hunt2/C08/"), typhon.__file__
from typhon.physics import em

warnings.simplefilter("ignore")
theta = np.array([30., 40., 60.])
cases = [
    ("n1 list, n2 float", [1.0, 1.5, 1.5], 1.3, theta),
    ("n1 tuple, n2 float", (1.0, 1.5, 1.5), 1.3, theta),
    ("n1 list, n2 int", [1.0, 1.5, 3.0], 2, theta),
    ("n1 list, n2 ndarray", [1.0, 1.5, 1.5], np.array([1.3, 1.2, 1.0]), theta),
]
bad = 0
for name, n1, n2, th in cases:
    a1, a2 = np.asarray(n1, dtype=float), n2
    exp_theta2 = em.snell(a1, a2, th)
    exp = em.fresnel(a1, a2, th)           # ndarray inputs: the reference
    got_theta2 = em.snell(n1, n2, th)      # snell accepts the same call
    assert np.allclose(got_theta2, exp_theta2, equal_nan=True)
    try:
        got = em.fresnel(n1, n2, th)
    except Exception as e:
        print("%-22s observed: %s: %s" % (name, type(e).__name__, e))
        print("%-22s expected: Rv=%s Rh=%s" % ("", exp[0], exp[1]))
        bad += 1
        continue
    ok = (np.allclose(got[0], exp[0], equal_nan=True)
          and np.allclose(got[1], exp[1], equal_nan=True))
    print("%-22s %s Rv=%s Rh=%s" % (name, "ok" if ok else "WRONG", got[0], got[1]))
    bad += not ok
print("FAIL" if bad else "PASS", "(%d of %d calls)" % (bad, len(cases)))
sys.exit(1 if bad else 0)
