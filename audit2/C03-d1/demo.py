"""FileSet.match(max_interval=<float seconds>) drops the fraction of the float.

The doc string of match() says: "max_interval: ... If it is an integer or
float, it will be interpreted as seconds."  0.8 is read as 0 s and 1.5 as 1 s,
so partners that lie within max_interval are lost, while the same value given
as timedelta works.
"""
import sys, os; sys.path.insert(0, "/tmp/hunt2/C03")
import warnings; warnings.simplefilter("ignore")
import shutil, tempfile
from datetime import datetime as D, timedelta
import typhon
assert typhon.__file__.startswith("/tmp/hunt2/C03/"), typhon.__file__
from typhon.files import FileSet
from typhon.utils.timeutils import to_timedelta

TPL = ("{year}{month}{day}{hour}{minute}{second}{millisecond}-"
       "{end_year}{end_month}{end_day}{end_hour}{end_minute}{end_second}"
       "{end_millisecond}.dat")


def make(root, name, intervals):
    os.makedirs(os.path.join(root, name))
    fs = FileSet(os.path.join(root, name, TPL), name=name)
    for times in intervals:
        open(fs.get_filename(times), "w").close()
    return fs


def oracle(A, B, mi):
    return [
        (a, [b for b in sorted(B) if b[0] - mi <= a[1] and b[1] + mi >= a[0]])
        for a in sorted(A)
        if any(b[0] - mi <= a[1] and b[1] + mi >= a[0] for b in B)
    ]


root = tempfile.mkdtemp()
failures = 0
try:
    A = [(D(2020, 1, 1, 0, 0, 0), D(2020, 1, 1, 0, 0, 10))]
    B = [
        # starts 0.7 s after the primary ends
        (D(2020, 1, 1, 0, 0, 10, 700000), D(2020, 1, 1, 0, 0, 20)),
        # starts 1.2 s after the primary ends
        (D(2020, 1, 1, 0, 0, 11, 200000), D(2020, 1, 1, 0, 0, 21)),
    ]
    fa, fb = make(root, "a", A), make(root, "b", B)

    for seconds in (0.5, 0.8, 1.0, 1.5, 2.25):
        expected = oracle(A, B, timedelta(seconds=seconds))
        as_float = [
            (tuple(p.times), [tuple(s.times) for s in m])
            for p, m in fa.match(fb, max_interval=seconds)]
        as_delta = [
            (tuple(p.times), [tuple(s.times) for s in m])
            for p, m in fa.match(fb, max_interval=timedelta(seconds=seconds))]
        n = lambda r: [len(m) for _, m in r]
        ok = as_float == expected
        print(f"max_interval={seconds!r:5}: partners per primary: float -> "
              f"{n(as_float)}, timedelta -> {n(as_delta)}, "
              f"expected {n(expected)}  {'ok' if ok else 'WRONG'}")
        failures += not ok

    got = to_timedelta(0.8, numbers_as="seconds")
    print("to_timedelta(0.8, numbers_as='seconds') =", repr(got),
          "expected", repr(timedelta(seconds=0.8)))
    failures += got != timedelta(seconds=0.8)
finally:
    shutil.rmtree(root)

if failures:
    print(f"DEFECT: {failures} checks failed - a float max_interval loses its "
          f"fraction")
    sys.exit(1)
print("all fine")
