"""C01 / d2: a single-file fileset ignores its exclude list (file names and
time periods): find(), `t in fileset` and len() still report the file.

Run: cd /tmp/hunt2/C01 && /venv/bin/python out/d2/demo.py
"""
import sys, os; sys.path.insert(0, "/tmp/hunt2/C01")
import shutil
import tempfile
import warnings
from datetime import datetime

warnings.simplefilter("ignore")
import typhon
assert typhon.__file__.startswith("/tmp/hunt2/C01/"), typhon.__file__
from typhon.files import FileSet

failures = []


def check(label, func, expected):
    try:
        observed = func()
    except Exception as err:
        observed = f"{type(err).__name__}: {err}".splitlines()[0]
    ok = observed == expected
    print(f"[{'ok' if ok else 'FAIL'}] {label}\n       observed: {observed}\n"
          f"       expected: {expected}")
    if not ok:
        failures.append(label)


root = tempfile.mkdtemp(prefix="c01_d2_")
try:
    path = os.path.join(root, "campaign.nc")
    open(path, "w").close()
    coverage = ("2018-01-01", "2018-01-14")
    names = lambda files: [os.path.basename(f.path) for f in files]

    # Reference: the same file, the same exclusions, but the template has a
    # placeholder (multi-file fileset). Here the exclusions work.
    multi = FileSet(
        os.path.join(root, "{name}.nc"),
        exclude=[(datetime(2018, 1, 2), datetime(2018, 1, 3))])
    check("multi-file fileset, excluded period (reference)",
          lambda: names(multi.find(no_files_error=False)), [])

    # (1) excluded period that overlaps the coverage of the single file
    fs = FileSet(path, time_coverage=coverage,
                 exclude=[(datetime(2018, 1, 2), datetime(2018, 1, 3))])
    check("is_excluded() of the file (period)",
          lambda: fs.is_excluded(fs.get_info(path)), True)
    check("single file, excluded period: find()",
          lambda: names(fs.find(no_files_error=False)), [])
    check("single file, excluded period: find('2018-01-05', '2018-01-06')",
          lambda: names(fs.find("2018-01-05", "2018-01-06",
                                no_files_error=False)), [])
    check("single file, excluded period: '2018-01-05' in fileset",
          lambda: "2018-01-05" in fs, False)

    # an excluded period that does not touch the coverage changes nothing
    fs = FileSet(path, time_coverage=coverage,
                 exclude=[(datetime(2019, 1, 2), datetime(2019, 1, 3))])
    check("single file, unrelated excluded period: find()",
          lambda: names(fs.find(no_files_error=False)), ["campaign.nc"])

    # (2) excluded by name
    fs = FileSet(path, time_coverage=coverage, exclude=[path])
    check("is_excluded() of the file (name)",
          lambda: fs.is_excluded(fs.get_info(path)), True)
    check("single file, excluded by name: find()",
          lambda: names(fs.find(no_files_error=False)), [])
    check("single file, excluded by name: '2018-01-05' in fileset",
          lambda: "2018-01-05" in fs, False)
finally:
    shutil.rmtree(root, ignore_errors=True)

if failures:
    print(f"\nDEFECT: {len(failures)} check(s) failed")
    sys.exit(1)
print("\nall checks passed")
