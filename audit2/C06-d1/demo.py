import sys, os; sys.path.insert(0, "/tmp/hunt2/C06")
import warnings; warnings.simplefilter("ignore")
import numpy as np
import typhon
assert typhon.__file__.startswith("/tmp/hunt2/C06/"), typhon.__file__
from typhon.geographical import GeoIndex

# GeoIndex.query documents its query points as
#   "1-dimensional numpy array, list or single number".
R = 6378.1  # km
lat = np.array([10., 20., 30., 10., -45.])
lon = np.array([0., 5., 179., 0.01, 100.])
qlat, qlon = [10., 30.2, -80.], [0., -179.5, 0.]


def oracle(latq, lonq, r, metric):
    la, lo = np.radians(lat)[:, None], np.radians(lon)[:, None]
    lb, lq = np.radians(np.atleast_1d(latq))[None], np.radians(np.atleast_1d(lonq))[None]
    a = np.stack([np.cos(la) * np.cos(lo), np.cos(la) * np.sin(lo), np.sin(la) + 0 * lo], -1)
    b = np.stack([np.cos(lb) * np.cos(lq), np.cos(lb) * np.sin(lq), np.sin(lb) + 0 * lq], -1)
    chord = np.sqrt(((a - b) ** 2).sum(-1))
    D = chord * R if metric is None else 2 * np.arcsin(chord / 2) * R
    return {(int(i), int(j)): D[i, j] for i, j in zip(*np.nonzero(D <= r))}


failures = 0
for metric in (None, "haversine"):
    for tree in ("Ball", "KD"):
        if metric == "haversine" and tree == "KD":
            continue
        for shuffle in (True, False):
            np.random.seed(3)
            index = GeoIndex(lat, lon, metric=metric, tree_class=tree, shuffle=shuffle)
            cases = {
                "lists": (qlat, qlon),
                "single numbers": (10., 0.),
                "numpy scalars": (np.float64(10.), np.float64(0.)),
            }
            for name, (a, b) in cases.items():
                expected = oracle(a, b, 150., metric)
                try:
                    pairs, dist = index.query(a, b, "150 km")
                except Exception as exc:
                    print(f"metric={metric} tree={tree} shuffle={shuffle} query points as {name}: "
                          f"observed {type(exc).__name__}: {exc}; expected pairs {sorted(expected)}")
                    failures += 1
                    continue
                got = {(int(i), int(j)): d for i, j, d in zip(pairs[0], pairs[1], dist)}
                if set(got) != set(expected) or any(abs(got[k] - expected[k]) > 1e-6 for k in got):
                    print(f"metric={metric} tree={tree} shuffle={shuffle} query points as {name}: "
                          f"observed {got}; expected {expected}")
                    failures += 1

if failures:
    print(f"{failures} documented query-point forms (list / single number) were rejected or wrong")
    sys.exit(1)
print("OK: lists and single numbers are accepted as query points and give the exact pairs")
