"""C10 / d2: align(other, start, end, max_interval=...) reads and hands out
primaries that lie completely outside the requested period [start, end).

max_interval "expands the search time period for secondaries" (docstring of
align), but match() widens the period of BOTH filesets, so files of the
primary fileset up to max_interval before `start` / after `end` are treated as
primaries, are read and are yielded with their secondaries.

Run: cd /tmp/hunt2/C10 && /venv/bin/python out/d2/demo.py
"""
import sys, os; sys.path.insert(0, "/tmp/hunt2/C10")
import shutil
import tempfile
import warnings
from datetime import datetime, timedelta

warnings.simplefilter("ignore")
import typhon
assert typhon.__file__.startswith("/tmp/hunt2/C10/"), typhon.__file__
from typhon.files import FileSet, FileHandler

READ = []


def reader(file_info):
    READ.append(short(file_info))
    with open(file_info.path) as file:
        return file.read()


def short(file_info):
    return "/".join(file_info.path.split("/")[-2:])


def make(tmp, name, hours):
    os.makedirs(os.path.join(tmp, name))
    for hour in hours:
        with open(os.path.join(tmp, name, f"20200101_{hour:02d}00.txt"), "w") as f:
            f.write(f"{name}:{hour}")
    return FileSet(
        os.path.join(tmp, name, "{year}{month}{day}_{hour}{minute}.txt"),
        handler=FileHandler(reader=reader), name=name,
    )


def main():
    tmp = tempfile.mkdtemp()
    try:
        # Files that are discrete in time (start == end):
        a = make(tmp, "a", [0, 2, 4, 6, 8, 10])
        b = make(tmp, "b", [1, 2, 5, 9, 13])
        bad = False
        for start, end, hours in [
            ("2020-01-01 03:00", "2020-01-01 07:00", 1),
            ("2020-01-01 03:00", "2020-01-01 07:00", 2),
            ("2020-01-01 02:00", "2020-01-01 08:00", 2),
        ]:
            interval = timedelta(hours=hours)
            # Brute-force oracle: the primaries are the files of `a` in
            # [start, end) (= a.find(start, end)), each one gets all files of
            # `b` that are at most max_interval away.
            expected = [
                (short(p), short(s))
                for p in a.find(start, end)
                for s in b.find()
                if p.times[0] - interval <= s.times[1]
                and s.times[0] <= p.times[1] + interval
            ]
            del READ[:]
            got = [
                (short(p[0]), short(s[0]))
                for p, s in a.align(b, start, end, max_interval=interval)
            ]
            primaries_read = sorted(r for r in READ if r.startswith("a/"))
            inside = sorted(short(p) for p in a.find(start, end))
            print(f"a.align(b, {start!r}, {end!r}, max_interval={hours} h)")
            print("  expected pairs:", expected)
            print("  observed pairs:", got)
            print("  primaries in [start, end):", inside)
            print("  primaries read:           ", primaries_read)
            if got != expected or primaries_read != inside:
                bad = True
                print("  -> MISMATCH: primaries outside the period were "
                      "read and handed out")
        return 1 if bad else 0
    finally:
        shutil.rmtree(tmp, ignore_errors=True)


if __name__ == "__main__":
    sys.exit(main())
