"""C12: zip is the only advertised format that cannot store a file whose
modification time lies outside 1980..2107 (e.g. mtime 0 as left by copy2 /
rsync -t / reproducible-build stores): compress()/compress_as() raise instead
of producing the archive, although content and name are perfectly ordinary."""
import sys, os; sys.path.insert(0, "/tmp/hunt2/C12")
import typhon
assert typhon.__file__.startswith("/tmp/hunt2/C12/"), typhon.__file__
import gzip, bz2, lzma, zipfile, shutil, tempfile
from typhon.files import compress, decompress, compress_as


def std_read(path, fmt):
    if fmt == 'gz':
        return gzip.open(path).read()
    if fmt == 'bz2':
        return bz2.open(path).read()
    if fmt == 'xz':
        return lzma.open(path).read()
    with zipfile.ZipFile(path) as z:
        names = z.namelist()
        assert len(names) == 1, names
        return z.read(names[0])


content = bytes(range(256)) * 40
failures = []
# epoch, one second later, and a time beyond the zip range (year 2108+)
for mtime in (0, 1, 4386441600):
    for fmt in ('gz', 'bz2', 'xz', 'zip'):
        with tempfile.TemporaryDirectory() as root:
            odir = os.path.join(root, 'o'); os.mkdir(odir)
            tdir = os.path.join(root, 't'); os.mkdir(tdir)
            src = os.path.join(root, 'source.dat')
            with open(src, 'wb') as f:
                f.write(content)
            os.utime(src, (mtime, mtime))

            # (a) with compress(name): the body copies an existing file
            #     keeping its metadata (shutil.copy2)
            name = os.path.join(odir, 'data.v1.' + fmt)
            try:
                with compress(name, tmpdir=tdir) as tmp:
                    shutil.copy2(src, tmp)
                assert std_read(name, fmt) == content, "stdlib mismatch"
                with decompress(name, tmpdir=tdir) as d:
                    with open(d, 'rb') as f:
                        assert f.read() == content, "round trip mismatch"
                assert os.listdir(tdir) == [], os.listdir(tdir)
            except Exception as e:
                failures.append(
                    "compress(%r) body=copy2(file with mtime %d): %s: %s"
                    % ('data.v1.' + fmt, mtime, type(e).__name__, e))

            # (b) compress_as on the existing file
            try:
                out = compress_as(src, fmt)
                assert std_read(out, fmt) == content, "stdlib mismatch"
            except Exception as e:
                failures.append(
                    "compress_as(file with mtime %d, %r): %s: %s"
                    % (mtime, fmt, type(e).__name__, e))

if failures:
    print("OBSERVED (expected: every format stores the bytes and round-trips):")
    for f in failures:
        print("  ", f)
    sys.exit(1)
print("OK: all four formats round-trip files with any modification time")
sys.exit(0)
