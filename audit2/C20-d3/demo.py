"""C20 / d3: SRTM30.get_tiles accepts longitudes counted 0..360 (it reduces them to
-180..180 and names the right tile), but SRTM30.elevation does not: for the rectangle
190 E..191 E (= 170 W..169 W) it is given tile w180n40 by get_tiles, finds none of its
destination cells in it (190 is not in [-180, -140)) and silently returns an all-zero
"elevation" block without reading any tile."""
import sys, os
sys.path.insert(0, "/tmp/hunt2/C20")
import tempfile, shutil, warnings
warnings.simplefilter("ignore")
tmp = tempfile.mkdtemp(prefix="c20d3_")
os.environ["TYPHON_DATA_PATH"] = tmp
import numpy as np
import typhon
assert typhon.__file__.startswith("/tmp/hunt2/C20/")
from typhon.topography import SRTM30

fetched = []
def fake_get_tile(name):
    """Tile synthesised from the global row / column index of every pixel (never 0)."""
    fetched.append(name)
    lat_min, lon_min, lat_max, lon_max = SRTM30.get_bounds(name)
    rows = np.arange((90 - lat_max) * 120, (90 - lat_max) * 120 + 6000, dtype=np.int32)
    cols = np.arange((lon_min + 180) * 120, (lon_min + 180) * 120 + 4800, dtype=np.int32)
    return 1 + rows[:, None] * 100000 + cols[None, :]
SRTM30.get_tile = staticmethod(fake_get_tile)

fails = 0
def probe(lat_min, lon_min, lat_max, lon_max):
    global fails
    del fetched[:]
    label = "elevation(%r, %r, %r, %r)" % (lat_min, lon_min, lat_max, lon_max)
    print("%s: get_tiles of the rectangle = %s" % (label, SRTM30.get_tiles(lat_min, lon_min, lat_max, lon_max)))
    try:
        lats, lons, z = SRTM30.elevation(lat_min, lon_min, lat_max, lon_max)
    except ValueError as e:
        # refusing the longitude convention loudly would be acceptable, too
        print("   observed ValueError (%s)  ok" % e)
        return
    rows = np.rint((90 - lats) * 120 - 0.5).astype(np.int64)
    wrapped = (lons + 180) % 360           # the pixel centred at (lat[i], lon[j]) on the globe
    cols = np.rint(wrapped * 120 - 0.5).astype(np.int64)
    want = 1 + rows[:, None] * 100000 + cols[None, :]
    off = (lons - lon_min + 1) % 360 - 1     # position inside the rectangle, whatever the convention
    same_place = np.all((off > -1 / 120) & (off < (lon_max - lon_min) + 1 / 120))
    ok = z.shape == want.shape and np.array_equal(z, want) and same_place
    if not ok:
        fails += 1
    print("   observed block %s, lon %.4f..%.4f, tiles fetched %s, %d of %d cells equal the tile pixel, %d cells are 0"
          % (z.shape, lons[0], lons[-1], fetched, int((z == want).sum()) if z.shape == want.shape else -1, z.size, int((z == 0).sum())))
    print("   expected every cell to hold the pixel of tile %s centred there  %s"
          % (SRTM30.get_tiles(lat_min, lon_min, lat_max, lon_max), "ok" if ok else "WRONG"))

try:
    probe(10, -170, 11, -169)      # reference, -180..180 convention: works
    probe(10, 190, 11, 191)        # the same area, 0..360 convention
    probe(39.5, 219.5, 40.5, 220.5)  # = 140.5 W..139.5 W across the corner of 4 tiles
    probe(10, 359, 11, 360)        # = 1 W..0
finally:
    shutil.rmtree(tmp, ignore_errors=True)

print("FAIL (%d wrong)" % fails if fails else "PASS")
sys.exit(1 if fails else 0)
