"""integrate_water_vapor: the hydrostatic form (vmr, p) rejects a float vmr (documented as
"float or ndarray"), the general form (vmr, p, T, z) accepts it."""
import sys, os
sys.path.insert(0, "/tmp/hunt2/C14")
import warnings
warnings.simplefilter("ignore")
import numpy as np
import typhon
assert typhon.__file__.startswith("/tmp/hunt2/C14/"), typhon.__file__
from typhon.physics import integrate_water_vapor, pressure2height
from typhon import constants

fail = 0
p = np.geomspace(1000e2, 100e2, 40)           # decreasing pressure, 40 levels
T = np.linspace(295.0, 215.0, p.size)
z = pressure2height(p, T)
vmr = 0.004                                   # well-mixed column, non-negative vmr

# harness-side oracle: q is constant, so -1/g * int q dp = q * (p0 - p_top) / g  (exact)
Md, Mw = constants.molar_mass_dry_air, constants.molar_mass_water
q = vmr / ((1 - vmr) * Md / Mw + vmr)
expected = q * (p[0] - p[-1]) / constants.earth_standard_gravity

# reference: the same column given as an array works
ref = integrate_water_vapor(np.full(p.size, vmr), p)
print("array vmr, hydrostatic form :", ref, "(oracle %.12g)" % expected)
assert np.isclose(ref, expected, rtol=1e-12)

# the general form accepts the float
gen = integrate_water_vapor(vmr, p, T, z)
print("float vmr, general form     :", gen)

for label, v in (("float", vmr), ("0-d array", np.array(vmr))):
    try:
        got = integrate_water_vapor(v, p)
    except Exception as exc:
        print("%-9s vmr, hydrostatic form: raised %r   expected %.12g" % (label, exc, expected))
        fail = 1
        continue
    ok = np.ndim(got) == 0 and np.isclose(got, expected, rtol=1e-12) and got >= 0
    print("%-9s vmr, hydrostatic form: %r  expected %.12g  %s" % (label, got, expected, "ok" if ok else "WRONG"))
    if not ok:
        fail = 1

# 2-d pressure field (levels first), float vmr
P = np.stack([p, 0.9 * p, 0.8 * p], axis=1)
exp2 = q * (P[0] - P[-1]) / constants.earth_standard_gravity
try:
    got = integrate_water_vapor(vmr, P, axis=0)
    ok = np.shape(got) == (3,) and np.allclose(got, exp2, rtol=1e-12)
    print("float vmr, p of shape (40, 3):", got, "expected", exp2, "ok" if ok else "WRONG")
    if not ok:
        fail = 1
except Exception as exc:
    print("float vmr, p of shape (40, 3): raised %r   expected %s" % (exc, exp2))
    fail = 1

print("DEFECT" if fail else "OK")
sys.exit(fail)
