"""C01 / d1: a file whose name gives its end as a day of year without a year
({end_doy}) and that crosses the end of the year cannot be found.

Run: cd /tmp/hunt2/C01 && /venv/bin/python out/d1/demo.py
"""
import sys, os; sys.path.insert(0, "/tmp/hunt2/C01")
import shutil
import tempfile
import warnings
from datetime import datetime

warnings.simplefilter("ignore")
import typhon
assert typhon.__file__.startswith("/tmp/hunt2/C01/"), typhon.__file__
from typhon.files import FileSet

failures = []


def check(label, func, expected):
    try:
        observed = func()
    except Exception as err:  # a result is promised
        observed = f"{type(err).__name__}: {err}".splitlines()[0]
    ok = observed == expected
    print(f"[{'ok' if ok else 'FAIL'}] {label}\n       observed: {observed}\n"
          f"       expected: {expected}")
    if not ok:
        failures.append(label)


def touch(root, *names):
    for name in names:
        path = os.path.join(root, name)
        os.makedirs(os.path.dirname(path), exist_ok=True)
        open(path, "w").close()


root = tempfile.mkdtemp(prefix="c01_d1_")
try:
    # (1) flat layout, daily resolution
    touch(root, "a/2018100-101.nc",      # 10 Apr 2018 - 11 Apr 2018
                "a/2018364-002.nc",      # 30 Dec 2018 -  2 Jan 2019
                "a/2019360-061.nc")      # 26 Dec 2019 -  1 Mar 2020 (leap)
    fs = FileSet(os.path.join(root, "a", "{year}{doy}-{end_doy}.nc"))
    name = lambda f: os.path.basename(f.path)
    check("find() over everything",
          lambda: [name(f) for f in fs.find()],
          ["2018100-101.nc", "2018364-002.nc", "2019360-061.nc"])
    check("coverage of 2018364-002.nc",
          lambda: fs.get_info(
              os.path.join(root, "a", "2018364-002.nc")).times,
          [datetime(2018, 12, 30), datetime(2019, 1, 2)])
    check("coverage of 2019360-061.nc (day 61 of the leap year 2020)",
          lambda: fs.get_info(
              os.path.join(root, "a", "2019360-061.nc")).times,
          [datetime(2019, 12, 26), datetime(2020, 3, 1)])
    check("find('2019-01-01', '2019-01-02')",
          lambda: [name(f) for f in fs.find(
              "2019-01-01", "2019-01-02", no_files_error=False)],
          ["2018364-002.nc"])
    check("'2019-01-01 12:00' in fileset",
          lambda: "2019-01-01 12:00" in fs, True)

    # (2) {year}/{doy} directories, the end also gives hour and minute
    touch(root, "b/2018/365/2300-001_0100.nc",   # 31 Dec 23:00 - 1 Jan 01:00
                "b/2018/365/1000-365_1100.nc")
    fs = FileSet(os.path.join(
        root, "b", "{year}", "{doy}",
        "{hour}{minute}-{end_doy}_{end_hour}{end_minute}.nc"))
    check("coverage of 2018/365/2300-001_0100.nc",
          lambda: fs.get_info(os.path.join(
              root, "b/2018/365/2300-001_0100.nc")).times,
          [datetime(2018, 12, 31, 23), datetime(2019, 1, 1, 1)])
    check("find('2019-01-01', '2019-01-02') with {year}/{doy} directories",
          lambda: [name(f) for f in fs.find(
              "2019-01-01", "2019-01-02", no_files_error=False)],
          ["2300-001_0100.nc"])
    check("len(fileset)", lambda: len(fs), 2)
finally:
    shutil.rmtree(root, ignore_errors=True)

if failures:
    print(f"\nDEFECT: {len(failures)} check(s) failed")
    sys.exit(1)
print("\nall checks passed")
