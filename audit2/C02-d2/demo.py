"""C02: an end written with fewer fields is combined with the month / year of
the start BEFORE the roll-over is considered; when that intermediate date does
not exist (29 February, the 31st) get_info raises instead of moving the end to
the next year / month."""
import sys, os; sys.path.insert(0, "/tmp/hunt2/C02")
import warnings; warnings.simplefilter("ignore")
from datetime import datetime
import typhon
assert typhon.__file__.startswith("/tmp/hunt2/C02/"), typhon.__file__
from typhon.files import FileSet

cases = [
    # year roll-over onto a leap day
    ("/data/{year}{month}{day}-{end_month}{end_day}.nc",
     datetime(2015, 12, 31), datetime(2016, 2, 29)),
    ("/data/{year2}/{month}/{day}/{hour}{minute}-{end_month}{end_day}{end_hour}{end_minute}.nc",
     datetime(2019, 3, 1, 6, 30), datetime(2020, 2, 29, 18, 0)),
    # month roll-over onto a day the start month does not have
    ("/data/{year}{month}{day}_{hour}-{end_day}_{end_hour}.nc",
     datetime(2017, 2, 28, 22), datetime(2017, 3, 29, 1)),
    ("/data/{year}{month}{day}_{hour}-{end_day}_{end_hour}.nc",
     datetime(2017, 4, 30, 22), datetime(2017, 5, 31, 1)),
    # controls: roll-overs that already work
    ("/data/{year}{month}{day}-{end_month}{end_day}.nc",
     datetime(2015, 12, 31), datetime(2016, 2, 28)),
    ("/data/{year}{month}{day}_{hour}-{end_day}_{end_hour}.nc",
     datetime(2017, 2, 28, 22), datetime(2017, 3, 1, 1)),
    ("/data/{year}{month}{day}-{end_month}{end_day}.nc",
     datetime(2016, 1, 31), datetime(2016, 2, 29)),
]

bad = 0
for template, start, end in cases:
    fs = FileSet(template)
    name = fs.get_filename((start, end))
    try:
        times = fs.get_info(name).times
        observed = f"{times[0]} .. {times[1]}"
        ok = times == [start, end]
    except Exception as err:
        observed = f"{type(err).__name__}: {err}"
        ok = False
    print(f"{template}\n  name     {name}\n  expected {start} .. {end}\n"
          f"  observed {observed}\n  {'ok' if ok else 'WRONG'}")
    bad += not ok

# A completely written end that does not exist is still rejected:
fs = FileSet("/data/{year}{month}{day}-{end_year}{end_month}{end_day}.nc")
try:
    fs.get_info("/data/20151231-20150229.nc")
    print("20150229 as complete end: accepted - WRONG"); bad += 1
except ValueError:
    print("20150229 as complete end: ValueError - ok")

print(f"{bad} cases wrong")
sys.exit(1 if bad else 0)
