"""C04 / d2: a purely spatial search (max_interval=None, documented) raises
IndexError instead of returning None when no pair lies within max_distance."""
import sys, os; sys.path.insert(0, "/tmp/hunt2/C04")
import warnings; warnings.filterwarnings("ignore")
import numpy as np, xarray as xr
import typhon
assert typhon.__file__.startswith("/tmp/hunt2/C04/")
from typhon.collocations import Collocator

T0 = np.datetime64("2018-01-01T00:00:00", "ns")


def ds(t_s, lat, lon):
    n = len(t_s)
    return xr.Dataset(
        {"time": ("idx", T0 + np.asarray(t_s).astype("timedelta64[s]")),
         "lat": ("idx", np.asarray(lat, float)),
         "lon": ("idx", np.asarray(lon, float)),
         "id": ("idx", np.arange(n))},
        coords={"idx": np.arange(n)})


def pairs(res):
    if res is None:
        return None
    p = res["Collocations/pairs"].values
    return sorted(zip(res["primary/id"].values[p[0]].tolist(),
                      res["secondary/id"].values[p[1]].tolist()))


bad = 0
P = ds([0, 10], [0, 1], [0, 1])
far = ds([5, 20], [50, 51], [50, 51])       # > 7000 km away
near = ds([5, 20], [0.01, 1.01], [0, 1])    # 1.1 km away

cases = [
    ("flat, nothing within 10 km", P, far, 10, None),
    ("flat, two pairs within 10 km", P, near, 10, [(0, 0), (1, 1)]),
    ("single points, nothing within 10 km", ds([0], [0], [0]),
     ds([0], [10], [10]), 10, None),
]
# a gridded primary (scan line x scan position) as well
G = xr.Dataset(
    {"time": ("scnline", T0 + np.arange(3).astype("timedelta64[s]")),
     "lat": (("scnline", "scnpos"), np.array([[0, 0.1], [1, 1.1], [2, 2.1]])),
     "lon": (("scnline", "scnpos"), np.zeros((3, 2))),
     "id": (("scnline", "scnpos"), np.arange(6).reshape(3, 2))},
    coords={"scnline": [0, 1, 2], "scnpos": [0, 1]})
cases.append(("grid x flat, nothing within 10 km", G, far, 10, None))

for name, a, b, md, exp in cases:
    try:
        got = pairs(Collocator().collocate(a, b, max_distance=md))
        obs = repr(got)
        ok = got == exp
    except Exception as e:
        obs = f"{type(e).__name__}: {e}"
        ok = False
    print(f"{name}: observed {obs}; expected {exp!r}  "
          f"{'ok' if ok else 'MISMATCH'}")
    bad += not ok

# the same geometry with a (huge) max_interval returns None as promised
ref = Collocator().collocate(P, far, max_distance=10, max_interval=10**6)
print("with max_interval=1e6 s the same data give:", ref)

if bad:
    print("DEFECT: spatial-only search without a match raises instead of "
          "returning None")
    sys.exit(1)
print("OK")
