"""C20 / d2: for a rectangle of zero height (width) that lies exactly on a cell edge,
SRTM30.get_native_grids returns an EMPTY latitude (longitude) vector and
SRTM30.elevation dies with "zero-size array to reduction operation minimum",
whereas the same thin rectangle a hair off the edge gives the promised one-cell block."""
import sys, os
sys.path.insert(0, "/tmp/hunt2/C20")
import tempfile, shutil, warnings
warnings.simplefilter("ignore")
tmp = tempfile.mkdtemp(prefix="c20d2_")
os.environ["TYPHON_DATA_PATH"] = tmp
import numpy as np
import typhon
assert typhon.__file__.startswith("/tmp/hunt2/C20/")
from typhon.topography import SRTM30

def fake_get_tile(name):
    """Tile synthesised from the global row / column index of every pixel."""
    lat_min, lon_min, lat_max, lon_max = SRTM30.get_bounds(name)
    rows = np.arange((90 - lat_max) * 120, (90 - lat_max) * 120 + 6000, dtype=np.int32)
    cols = np.arange((lon_min + 180) * 120, (lon_min + 180) * 120 + 4800, dtype=np.int32)
    return rows[:, None] * 100000 + cols[None, :]
SRTM30.get_tile = staticmethod(fake_get_tile)

fails = 0
def probe(lat_min, lon_min, lat_max, lon_max, shape):
    """The block must be non-empty, made of cell centres, touch the rectangle, and
    hold the pixel of the tile for every centre."""
    global fails
    label = "elevation(%r, %r, %r, %r)" % (lat_min, lon_min, lat_max, lon_max)
    try:
        lats, lons, z = SRTM30.elevation(lat_min, lon_min, lat_max, lon_max)
    except Exception as e:
        fails += 1
        g = SRTM30.get_native_grids(lat_min, lon_min, lat_max, lon_max)
        print("%-44s observed %s: %s (get_native_grids sizes %d x %d); expected a %d x %d block  WRONG"
              % (label, type(e).__name__, e, g[0].size, g[1].size, shape[0], shape[1]))
        return
    rows = np.rint((90 - lats) * 120 - 0.5).astype(np.int64)
    cols = np.rint((lons + 180) * 120 - 0.5).astype(np.int64)
    ok = (z.shape == shape
          and np.allclose(90 - (rows + 0.5) / 120, lats, atol=1e-9)
          and np.allclose(-180 + (cols + 0.5) / 120, lons, atol=1e-9)
          and lats.max() + 1 / 240 >= lat_max - 1e-9 and lats.min() - 1 / 240 <= lat_min + 1e-9
          and lats.max() - 1 / 240 <= lat_max + 1e-9 and lats.min() + 1 / 240 >= lat_min - 1e-9
          and lons.max() + 1 / 240 >= lon_max - 1e-9 and lons.min() - 1 / 240 <= lon_min + 1e-9
          and lons.max() - 1 / 240 <= lon_max + 1e-9 and lons.min() + 1 / 240 >= lon_min - 1e-9
          and np.array_equal(z, rows[:, None] * 100000 + cols[None, :]))
    if not ok:
        fails += 1
    print("%-44s observed block %s lat %.5f..%.5f lon %.5f..%.5f; expected shape %s  %s"
          % (label, z.shape, lats[0], lats[-1], lons[0], lons[-1], shape, "ok" if ok else "WRONG"))

try:
    # thin rectangles that are NOT on a cell edge work (one row / one column / one cell):
    probe(10.001, 10, 10.001, 11, (1, 120))
    probe(10, 10.001, 11, 10.001, (120, 1))
    probe(10.001, 10.001, 10.001, 10.001, (1, 1))
    # the same on a cell edge:
    probe(10, 10, 10, 11, (1, 120))        # zero height on the edge 10 N
    probe(10, 10, 11, 10, (120, 1))        # zero width on the edge 10 E
    probe(10.125, 10.125, 10.125, 10.125, (1, 1))   # a grid node
    probe(40, 19.5, 40, 20.5, (1, 120))    # zero height on the tile border 40 N, across 20 E
    probe(-60, -180, -60, -179.5, (1, 60)) # southern edge of the covered area
finally:
    shutil.rmtree(tmp, ignore_errors=True)

print("FAIL (%d wrong)" % fails if fails else "PASS")
sys.exit(1 if fails else 0)
