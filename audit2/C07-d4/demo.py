"""C07 / d4: cartposlos2geocentric called with the propagation path constant
(ppc = r0*sin(za0)) takes za = arcsin(ppc/r), which lies in [0, 90]: every
downward-looking line of sight (za > 90) comes back as 180 - za."""
import sys, os; sys.path.insert(0, "/tmp/hunt2/C07")
import warnings; warnings.simplefilter("ignore")
import numpy as np
import typhon
assert typhon.__file__.startswith("/tmp/hunt2/C07/"), typhon.__file__
from typhon.geodesy import cartposlos2geocentric, geocentricposlos2cart


def oracle_za(x, y, z, dx, dy, dz):
    """Angle between the line of sight and the local vertical (= position vector)."""
    p = np.array([x, y, z]); d = np.array([dx, dy, dz])
    c = (p * d).sum(0) / np.sqrt((p ** 2).sum(0) * (d ** 2).sum(0))
    return np.rad2deg(np.arccos(c))


r0 = np.array([6.9e6, 7.0e6, 7.1e6, 7.2e6, 7.0e6, 7.2e6])
lat0 = np.array([-60., -10., 0., 25., 50., 80.])
lon0 = np.array([-180., -75., 0., 33., 120., 180.])
za0 = np.array([95., 110., 120., 135., 150., 170.])   # downward looking
aa0 = np.array([0., 180., 0., 180., 0., 180.])        # north/south: the azimuth is handled (see d3 for the rest)
ppc = r0 * np.sin(np.deg2rad(za0))

bad = 0
for label, kw in [("ppc only", dict(ppc=ppc)),
                  ("ppc, lat0, lon0, za0, aa0", dict(ppc=ppc, lat0=lat0, lon0=lon0, za0=za0, aa0=aa0))]:
    for step in [0.0, 100e3]:
        x, y, z, dx, dy, dz = geocentricposlos2cart(r0, lat0, lon0, za0, aa0)
        x, y, z = x + step * dx, y + step * dy, z + step * dz   # still before the tangent point
        want = oracle_za(x, y, z, dx, dy, dz)
        if step == 0.0:
            assert abs(want - za0).max() < 1e-9
        plain = cartposlos2geocentric(x, y, z, dx, dy, dz)[3]
        got = cartposlos2geocentric(x, y, z, dx, dy, dz, **kw)[3]
        err = abs(got - want).max()
        print("%s, moved %6.0f m along the line of sight" % (label, step))
        print("   expected za            :", np.round(want, 6))
        print("   without optional input :", np.round(plain, 6))
        print("   with %-18s:" % label.split(",")[0], np.round(got, 6), " max error %.1e deg" % err)
        if not err < 1e-7:
            bad += 1

# upward looking directions are fine with the same call
zu = 180. - za0
c = geocentricposlos2cart(r0, lat0, lon0, zu, aa0)
up = cartposlos2geocentric(*c, ppc=r0 * np.sin(np.deg2rad(zu)), lat0=lat0, lon0=lon0, za0=zu, aa0=aa0)[3]
print("(upward looking za0 = 180 - za0 are returned correctly: max error %.1e deg)" % abs(up - zu).max())
print("expected: the original zenith angle (step 0) / the zenith angle of the line of sight at the new position")
sys.exit(1 if bad else 0)
