"""C12: compress_as accepts path-like file names (pathlib.Path) everywhere -
as does compress() and decompress() - except when the default target
(filename + '.' + fmt) has to be derived: then it raises TypeError."""
import sys, os; sys.path.insert(0, "/tmp/hunt2/C12")
import typhon
assert typhon.__file__.startswith("/tmp/hunt2/C12/"), typhon.__file__
import gzip, bz2, lzma, zipfile, tempfile, pathlib
from typhon.files import compress, decompress, compress_as


def std_read(path, fmt):
    if fmt == 'gz':
        return gzip.open(path).read()
    if fmt == 'bz2':
        return bz2.open(path).read()
    if fmt == 'xz':
        return lzma.open(path).read()
    with zipfile.ZipFile(path) as z:
        names = z.namelist()
        assert len(names) == 1, names
        return z.read(names[0])


content = bytes(range(256)) * 40
failures = []
for fmt in ('gz', 'bz2', 'xz', 'zip'):
    with tempfile.TemporaryDirectory() as root:
        root = pathlib.Path(root)
        # sanity: Path names work with compress / decompress / explicit target
        name = root / ('data.v1.' + fmt)
        with compress(name, tmpdir=root) as tmp:
            with open(tmp, 'wb') as f:
                f.write(content)
        with decompress(name, tmpdir=root) as d:
            with open(d, 'rb') as f:
                assert f.read() == content
        src = root / 'source.v2.dat'
        src.write_bytes(content)
        out = compress_as(src, fmt, target=root / ('explicit.' + fmt))
        assert std_read(out, fmt) == content

        # the failing case: default target
        try:
            out = compress_as(src, fmt)
            expected = str(src) + '.' + fmt
            assert os.fspath(out) == expected, (out, expected)
            assert std_read(expected, fmt) == content, "stdlib mismatch"
            with decompress(out, tmpdir=root) as d:
                with open(d, 'rb') as f:
                    assert f.read() == content, "round trip mismatch"
        except Exception as e:
            failures.append("compress_as(Path('source.v2.dat'), %r): %s: %s"
                            % (fmt, type(e).__name__, e))

if failures:
    print("OBSERVED (expected: 'source.v2.dat.<fmt>' is created, as for a "
          "str name or an explicit target):")
    for f in failures:
        print("  ", f)
    sys.exit(1)
print("OK: compress_as derives the default target for path-like names")
sys.exit(0)
