"""An end given by {end_doy} (no end year) that wraps into the next year yields an end BEFORE the start;
find_closest then misses the covering file."""
import sys, os
sys.path.insert(0, "/tmp/hunt2/C16")
import warnings; warnings.simplefilter("ignore")
import typhon
assert typhon.__file__.startswith("/tmp/hunt2/C16/")
import tempfile, shutil
from datetime import datetime
from typhon.files import FileSet

base = tempfile.mkdtemp(prefix="c16_d2_")
bad = 0
try:
    for tmpl in ["flat/{year}{doy}_{hour}{minute}-{end_doy}_{end_hour}{end_minute}.nc",
                 "dirs/{year}/{doy}/{hour}{minute}-{end_doy}_{end_hour}{end_minute}.nc"]:
        fs = FileSet(os.path.join(base, tmpl))
        periods = [
            (datetime(2016, 12, 31, 23, 0), datetime(2017, 1, 1, 1, 0)),   # A: over new year
            (datetime(2017, 1, 1, 1, 30), datetime(2017, 1, 1, 2, 0)),     # B
        ]
        names = []
        for p in periods:
            name = fs.get_filename(p)
            os.makedirs(os.path.dirname(name), exist_ok=True)
            open(name, "w").close()
            names.append(name)
        info = fs.get_info(names[0])
        ok = list(info.times) == list(periods[0])
        print("%s\n  coverage of %s: expected %s .. %s, observed %s .. %s -> %s" % (
            tmpl, os.path.relpath(names[0], base), periods[0][0], periods[0][1],
            info.times[0], info.times[1], "ok" if ok else "WRONG"))
        bad += not ok
        for t in [datetime(2016, 12, 31, 23, 30), datetime(2017, 1, 1, 0, 0),
                  datetime(2017, 1, 1, 0, 30), datetime(2017, 1, 1, 1, 0)]:
            got = fs.find_closest(t).path
            ok = got == names[0]
            print("  find_closest(%s): expected the covering file %s, observed %s -> %s" % (
                t, os.path.relpath(names[0], base), os.path.relpath(got, base),
                "ok" if ok else "WRONG"))
            bad += not ok
finally:
    shutil.rmtree(base)
print("violations:", bad)
sys.exit(1 if bad else 0)
