"""C02: get_filename returns a name that still contains the regex of an
unfilled user placeholder when that regex happens to consist of characters
that are not in FileSet._special_chars ('.+', '[...]' is caught, '.+' is not).
"""
import sys, os; sys.path.insert(0, "/tmp/hunt2/C02")
import warnings; warnings.simplefilter("ignore")
from datetime import datetime
import typhon
assert typhon.__file__.startswith("/tmp/hunt2/C02/"), typhon.__file__
from typhon.files import FileSet
from typhon.files.fileset import UnfilledPlaceholderError

when = datetime(2017, 1, 2)
template = "/data/{sat}/{year}{month}{day}_{orbit}.nc"
bad = 0

def check(placeholder, fill, expected):
    """expected: the name or UnfilledPlaceholderError"""
    global bad
    fs = FileSet(template, placeholder=placeholder)
    try:
        observed = fs.get_filename(when, fill=fill)
    except UnfilledPlaceholderError:
        observed = UnfilledPlaceholderError
    ok = observed == expected
    show = lambda x: x.__name__ if isinstance(x, type) else repr(x)
    print(f"placeholder={placeholder} fill={fill}\n  expected {show(expected)}"
          f"\n  observed {show(observed)}\n  {'ok' if ok else 'WRONG'}")
    bad += not ok

# unfilled placeholders with a custom regex
check({"sat": ".+", "orbit": r"\d{5}"}, {"orbit": "01234"},
      UnfilledPlaceholderError)
check({"sat": "noaa.", "orbit": r"\d{5}"}, {"orbit": "01234"},
      UnfilledPlaceholderError)
check({"sat": "metop-a+"}, {"orbit": "01234"}, UnfilledPlaceholderError)
check({"sat": "^noaa18$"}, {"orbit": "01234"}, UnfilledPlaceholderError)
# controls: what is recognised today
check(None, {"orbit": "01234"}, UnfilledPlaceholderError)      # default .+?
check({"sat": "[a-z]+"}, {"orbit": "01234"}, UnfilledPlaceholderError)
check({"sat": ["noaa18", "metopa"]}, {"orbit": "01234"},
      UnfilledPlaceholderError)
# controls: filled placeholders (also with characters like + and . in the
# values) and a literal default must keep working
check({"sat": ".+", "orbit": r"\d{5}"}, {"sat": "metopa", "orbit": "01234"},
      "/data/metopa/20170102_01234.nc")
check({"sat": ".+"}, {"sat": "v1.0+x", "orbit": "01234"},
      "/data/v1.0+x/20170102_01234.nc")
check({"sat": "metopa"}, {"orbit": "01234"},
      "/data/metopa/20170102_01234.nc")

print(f"{bad} cases wrong")
sys.exit(1 if bad else 0)
