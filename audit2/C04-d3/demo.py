"""C04 / d3: the end of the common time window is converted with
np.datetime64(pandas.Timestamp), which cuts the nanoseconds off.  Points whose
time lies in the cut-off part are dropped before the search although they are
closer than max_interval to a point of the other dataset."""
import sys, os; sys.path.insert(0, "/tmp/hunt2/C04")
import warnings; warnings.filterwarnings("ignore")
import numpy as np, xarray as xr
import typhon
assert typhon.__file__.startswith("/tmp/hunt2/C04/")
from typhon.collocations import Collocator

T0 = np.datetime64("2018-01-01T00:00:00", "ns")


def ds(t_ns, lat, lon):
    n = len(t_ns)
    return xr.Dataset(
        {"time": ("idx", T0 + np.asarray(t_ns, "int64").astype("timedelta64[ns]")),
         "lat": ("idx", np.asarray(lat, float)),
         "lon": ("idx", np.asarray(lon, float)),
         "id": ("idx", np.arange(n))},
        coords={"idx": np.arange(n)})


def pairs(res, a="primary", b="secondary"):
    if res is None:
        return set()
    p = res["Collocations/pairs"].values
    return set(zip(res[a + "/id"].values[p[0]].tolist(),
                   res[b + "/id"].values[p[1]].tolist()))


def brute(P, S, mi_ns, md_km):
    R = 6371000.
    def cart(d):
        la, lo = np.radians(d.lat.values), np.radians(d.lon.values)
        return np.c_[np.cos(la)*np.cos(lo), np.cos(la)*np.sin(lo), np.sin(la)]*R
    cp, cs = cart(P), cart(S)
    out = set()
    for i in range(len(cp)):
        d = np.sqrt(((cs-cp[i])**2).sum(1))/1000.
        dt = np.abs((S.time.values-P.time.values[i]).astype("int64"))
        out |= {(i, int(j)) for j in np.where((d <= md_km) & (dt < mi_ns))[0]}
    return out


S_ = 10**9
bad = 0
# 1. two points at the same place, |dt| = 10 s - 400 ns < 10 s
P = ds([100*S_ + 500], [0.], [0.])
S = ds([110*S_ + 100], [0.], [0.])
for name, a, b in [("primary, secondary", P, S), ("swapped", S, P)]:
    got = pairs(Collocator().collocate(a, b, max_interval=10, max_distance=10))
    exp = brute(a, b, 10*S_, 10)
    print(f"{name}: |dt| = 9.9999996 s, max_interval = 10 s: observed "
          f"{sorted(got)}, expected {sorted(exp)}  "
          f"{'ok' if got == exp else 'MISMATCH'}")
    bad += got != exp

# 2. the same with further points that do not change the window end
P = ds([0, 50*S_, 100*S_ + 999], [0, 0, 0.], [0, 1, 2.])
S = ds([3*S_, 52*S_, 109*S_ + 500], [0.01, 0.01, 0.01], [0, 1, 2.])
# here the LAST secondary is 9 s - 499 ns before the last primary: fine;
# now a secondary later than every primary by just less than max_interval:
S2 = ds([3*S_, 52*S_, 110*S_ + 700], [0.01, 0.01, 0.01], [0, 1, 2.])
for name, b in [("secondary inside", S), ("secondary at the window end", S2)]:
    got = pairs(Collocator().collocate(P, b, max_interval="10 s",
                                       max_distance=5))
    exp = brute(P, b, 10*S_, 5)
    print(f"{name}: observed {sorted(got)}, expected {sorted(exp)}  "
          f"{'ok' if got == exp else 'MISMATCH'}")
    bad += got != exp

# 3. randomised: float seconds converted to ns (the usual source of such
# time stamps); the latest point of one dataset is followed by a point of the
# other one just less than max_interval later
rng = np.random.default_rng(7)
fails = 0
for trial in range(40):
    n = 30
    tp = (rng.uniform(0, 1000, n)*S_).astype("int64")
    ts = (rng.uniform(0, 900, n)*S_).astype("int64")
    k = int(rng.integers(1, 999))           # 1..999 ns below the threshold
    ts[0] = tp.max() + 60*S_ - k
    lat = rng.uniform(-1, 1, n)
    P = ds(tp, lat, np.zeros(n)); S = ds(ts, lat[::-1], np.zeros(n))
    S["lat"][0] = P.lat.values[tp.argmax()]
    got = pairs(Collocator().collocate(P, S, max_interval=60,
                                       max_distance=30))
    exp = brute(P, S, 60*S_, 30)
    if got != exp:
        fails += 1
        if fails <= 3:
            print(f"random trial {trial}: missing {sorted(exp-got)}, "
                  f"extra {sorted(got-exp)}")
print(f"random trials with a wrong set of pairs: {fails} of 40")
bad += fails

if bad:
    print("DEFECT: pairs at the end of the common time window are lost "
          "(nanoseconds of the window end are cut off)")
    sys.exit(1)
print("OK")
