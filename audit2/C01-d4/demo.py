"""C01 / d4: a file that ends on 29 February of the year after its start and
whose name gives the end without the year ({end_month}{end_day}) makes every
find() / `t in fileset` / len() raise ValueError.

Run: cd /tmp/hunt2/C01 && /venv/bin/python out/d4/demo.py
"""
import sys, os; sys.path.insert(0, "/tmp/hunt2/C01")
import shutil
import tempfile
import warnings
from datetime import datetime

warnings.simplefilter("ignore")
import typhon
assert typhon.__file__.startswith("/tmp/hunt2/C01/"), typhon.__file__
from typhon.files import FileSet

failures = []


def check(label, func, expected):
    try:
        observed = func()
    except Exception as err:
        observed = f"{type(err).__name__}: {err}".splitlines()[0]
    ok = observed == expected
    print(f"[{'ok' if ok else 'FAIL'}] {label}\n       observed: {observed}\n"
          f"       expected: {expected}")
    if not ok:
        failures.append(label)


root = tempfile.mkdtemp(prefix="c01_d4_")
try:
    # Seasonal files in yearly directories; the name gives the end without
    # its year: <year>/<start: yyyymmdd>-<end: mmdd>.nc
    names = [
        "2018/20181201-0228.nc",   # DJF 2018/19:  1 Dec 2018 - 28 Feb 2019
        "2019/20190301-0531.nc",   # MAM 2019
        "2019/20191201-0229.nc",   # DJF 2019/20:  1 Dec 2019 - 29 Feb 2020
    ]
    for name in names:
        path = os.path.join(root, name)
        os.makedirs(os.path.dirname(path), exist_ok=True)
        open(path, "w").close()

    fs = FileSet(os.path.join(
        root, "{year}", "{year}{month}{day}-{end_month}{end_day}.nc"))
    rel = lambda files: [os.path.relpath(f.path, root) for f in files]

    check("coverage of 2018/20181201-0228.nc (reference, works)",
          lambda: fs.get_info(os.path.join(root, names[0])).times,
          [datetime(2018, 12, 1), datetime(2019, 2, 28)])
    check("coverage of 2019/20191201-0229.nc",
          lambda: fs.get_info(os.path.join(root, names[2])).times,
          [datetime(2019, 12, 1), datetime(2020, 2, 29)])
    check("find() over everything", lambda: rel(fs.find()), names)
    check("find('2020-02-29', '2020-03-01')",
          lambda: rel(fs.find("2020-02-29", "2020-03-01",
                              no_files_error=False)),
          [names[2]])
    check("find('2019-12-15', '2019-12-16') ",
          lambda: rel(fs.find("2019-12-15", "2019-12-16",
                              no_files_error=False)),
          [names[2]])
    check("'2020-01-15' in fileset", lambda: "2020-01-15" in fs, True)
    check("len(fileset)", lambda: len(fs), 3)
finally:
    shutil.rmtree(root, ignore_errors=True)

if failures:
    print(f"\nDEFECT: {len(failures)} check(s) failed")
    sys.exit(1)
print("\nall checks passed")
