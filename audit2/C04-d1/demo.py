"""C04 / d1: a max_interval given as a NUMBER with a fractional part is
truncated to whole seconds (typhon.utils.timeutils.to_timedelta uses int()),
so collocate(max_interval=10.5) loses the pairs with 10 s <= |dt| < 10.5 s that
collocate(max_interval="10.5 s") reports; max_interval=0.5 finds nothing."""
import sys, os; sys.path.insert(0, "/tmp/hunt2/C04")
import warnings; warnings.filterwarnings("ignore")
import numpy as np, xarray as xr
import typhon
assert typhon.__file__.startswith("/tmp/hunt2/C04/")
from typhon.collocations import Collocator

T0 = np.datetime64("2018-01-01T00:00:00", "ns")


def ds(t_ms, lat, lon):
    n = len(t_ms)
    return xr.Dataset(
        {"time": ("idx", T0 + np.asarray(t_ms).astype("timedelta64[ms]")),
         "lat": ("idx", np.asarray(lat, float)),
         "lon": ("idx", np.asarray(lon, float)),
         "id": ("idx", np.arange(n))},
        coords={"idx": np.arange(n)})


def pairs(res):
    if res is None:
        return set()
    p = res["Collocations/pairs"].values
    return set(zip(res["primary/id"].values[p[0]].tolist(),
                   res["secondary/id"].values[p[1]].tolist()))


def brute(P, S, mi_s, md_km):
    R = 6371000.
    def cart(d):
        la, lo = np.radians(d.lat.values), np.radians(d.lon.values)
        return np.c_[np.cos(la)*np.cos(lo), np.cos(la)*np.sin(lo), np.sin(la)]*R
    cp, cs = cart(P), cart(S)
    out = set()
    for i in range(len(cp)):
        d = np.sqrt(((cs-cp[i])**2).sum(1))/1000.
        dt = np.abs((S.time.values-P.time.values[i]).astype("int64"))/1e9
        out |= {(i, int(j)) for j in np.where((d <= md_km) & (dt < mi_s))[0]}
    return out


bad = 0
# 1. hand-made: dt = 0.2 s, 10.2 s, 10.7 s
P = ds([0, 100000, 200000], [0, 1, 2], [0, 0, 0])
S = ds([200, 110200, 210700], [0.01, 1.01, 2.01], [0, 0, 0])
for mi, as_str in [(10.5, "10.5 s"), (0.5, "0.5 s"), (10.0, "10 s")]:
    exp = brute(P, S, mi, 100)
    got_num = pairs(Collocator().collocate(P, S, max_interval=mi,
                                           max_distance=100))
    got_str = pairs(Collocator().collocate(P, S, max_interval=as_str,
                                           max_distance=100))
    ok = got_num == exp and got_str == exp
    print(f"max_interval={mi!r}: number -> {sorted(got_num)}, "
          f"string {as_str!r} -> {sorted(got_str)}, expected {sorted(exp)}"
          f"  {'ok' if ok else 'MISMATCH'}")
    bad += not ok

# 2. randomised, times with 0.1 s resolution
rng = np.random.default_rng(0)
for trial in range(5):
    n1, n2 = 150, 120
    P = ds(rng.integers(0, 36000, n1)*100, rng.uniform(-2, 2, n1),
           rng.uniform(-2, 2, n1))
    S = ds(rng.integers(0, 36000, n2)*100, rng.uniform(-2, 2, n2),
           rng.uniform(-2, 2, n2))
    exp = brute(P, S, 20.5, 150)
    got = pairs(Collocator().collocate(P, S, max_interval=20.5,
                                       max_distance=150))
    if got != exp:
        bad += 1
        print(f"random trial {trial}: max_interval=20.5 found {len(got)} "
              f"pairs, brute force {len(exp)}; missing {sorted(exp-got)[:4]}")

if bad:
    print("DEFECT: a numeric max_interval is truncated to whole seconds")
    sys.exit(1)
print("OK: numeric and string thresholds give the brute-force pairs")
