"""C10 / d1: FileSet.collect() (and map/imap/icollect/align with thread workers)
on a fileset of NetCDF files with the default NetCDF4 handler kills the
interpreter (segmentation fault / HDF5 errors) instead of returning the file
contents in find() order: NetCDF4.read() calls netCDF4-python from all worker
threads at once without a lock, but netCDF-C / HDF5 are not thread-safe (and
netCDF4-python releases the GIL around the C calls).

Run: cd /tmp/hunt2/C10 && /venv/bin/python out/d1/demo.py
"""
import sys, os; sys.path.insert(0, "/tmp/hunt2/C10")
import shutil
import subprocess
import tempfile
import textwrap

import typhon
assert typhon.__file__.startswith("/tmp/hunt2/C10/"), typhon.__file__

CHILD = textwrap.dedent("""
    import sys, os; sys.path.insert(0, "/tmp/hunt2/C10")
    import warnings; warnings.simplefilter("ignore")
    import numpy as np
    import typhon
    assert typhon.__file__.startswith("/tmp/hunt2/C10/"), typhon.__file__
    from typhon.files import FileSet

    tmp, workers = sys.argv[1], int(sys.argv[2])
    # No handler given: the default handler for *.nc is typhon's NetCDF4
    fileset = FileSet(os.path.join(tmp, "{year}{month}{day}_{hour}{minute}.nc"))
    expected = [10. * h for h in range(8)]
    for repetition in range(10):
        # collect() always uses threads ("parallelizes the reading of the
        # files by using threads")
        data = fileset.collect(max_workers=workers)
        got = [float(np.asarray(d["v"])[0]) for d in data]
        assert got == expected, got
        got = list(fileset.imap(
            lambda d: float(np.asarray(d["v"])[0]), on_content=True,
            worker_type="thread", max_workers=workers))
        assert got == expected, got
    print("CONTENTS IN ORDER")
""")


def run(tmp, workers):
    proc = subprocess.run(
        [sys.executable, "-W", "ignore", "-c", CHILD, tmp, str(workers)],
        stdout=subprocess.PIPE, stderr=subprocess.PIPE, text=True,
        timeout=50,
    )
    ok = proc.returncode == 0 and "CONTENTS IN ORDER" in proc.stdout
    return ok, proc


def main():
    import numpy as np
    import xarray as xr

    tmp = tempfile.mkdtemp()
    try:
        for h in range(8):
            xr.Dataset(
                {"v": ("time", np.arange(2000.) + 10 * h),
                 "w": (("time", "x"), np.ones((2000, 4)))},
                coords={"time": np.arange(2000)},
            ).to_netcdf(os.path.join(tmp, f"20200101_{h:02d}00.nc"))

        failed = False
        for workers in (1, 3):
            ok, proc = run(tmp, workers)
            print(f"collect()/imap() of 8 NetCDF files, default NetCDF4 "
                  f"handler, {workers} thread(s), 10 repetitions:")
            print("  expected: the 8 contents in find() order, exit code 0")
            if ok:
                print("  observed: the 8 contents in find() order, exit code 0")
            else:
                last = proc.stderr.strip().splitlines()[-1:] or [""]
                print(f"  observed: child interpreter died with return code "
                      f"{proc.returncode} (negative = killed by that signal, "
                      f"-11 = SIGSEGV); last stderr line: {last[0][:200]}")
                failed = True
        return 1 if failed else 0
    finally:
        shutil.rmtree(tmp, ignore_errors=True)


if __name__ == "__main__":
    sys.exit(main())
