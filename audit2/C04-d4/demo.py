"""C04 / d4: with max_interval=None (spatial search only) the start / end
window is ignored: pairs whose times lie outside [start, end] are reported."""
import sys, os; sys.path.insert(0, "/tmp/hunt2/C04")
import warnings; warnings.filterwarnings("ignore")
import numpy as np, xarray as xr
import typhon
assert typhon.__file__.startswith("/tmp/hunt2/C04/")
from typhon.collocations import Collocator

T0 = np.datetime64("2018-01-01T00:00:00", "ns")


def ds(t_s, lat, lon):
    n = len(t_s)
    return xr.Dataset(
        {"time": ("idx", T0 + np.asarray(t_s).astype("timedelta64[s]")),
         "lat": ("idx", np.asarray(lat, float)),
         "lon": ("idx", np.asarray(lon, float)),
         "id": ("idx", np.arange(n))},
        coords={"idx": np.arange(n) * 2 + 1})


def pairs(res):
    if res is None:
        return set()
    p = res["Collocations/pairs"].values
    return set(zip(res["primary/id"].values[p[0]].tolist(),
                   res["secondary/id"].values[p[1]].tolist()))


def brute(P, S, md_km, start, end):
    R = 6371000.
    def cart(d):
        la, lo = np.radians(d.lat.values), np.radians(d.lon.values)
        return np.c_[np.cos(la)*np.cos(lo), np.cos(la)*np.sin(lo), np.sin(la)]*R
    def inside(d):
        t = d.time.values
        return (t >= np.datetime64(start, "ns")) & (t <= np.datetime64(end, "ns"))
    cp, cs = cart(P), cart(S)
    ip, is_ = inside(P), inside(S)
    out = set()
    for i in np.where(ip)[0]:
        d = np.sqrt(((cs-cp[i])**2).sum(1))/1000.
        out |= {(int(i), int(j)) for j in np.where((d <= md_km) & is_)[0]}
    return out


bad = 0
# 1. hand-made: three co-located pairs at 00:00, 01:00 and 02:00
P = ds([0, 3600, 7200], [0, 1, 2], [0, 0, 0])
S = ds([10, 3610, 7210], [0.01, 1.01, 2.01], [0, 0, 0])
start, end = "2018-01-01 00:30:00", "2018-01-01 01:30:00"
exp = brute(P, S, 10, start, end)
got_none = pairs(Collocator().collocate(P, S, max_distance=10,
                                        start=start, end=end))
got_big = pairs(Collocator().collocate(P, S, max_distance=10,
                                       max_interval="3 days",
                                       start=start, end=end))
print(f"window [{start}, {end}], expected pairs {sorted(exp)}")
print(f"  max_interval=None     -> {sorted(got_none)}  "
      f"{'ok' if got_none == exp else 'MISMATCH'}")
print(f"  max_interval='3 days' -> {sorted(got_big)}  "
      f"{'ok' if got_big == exp else 'MISMATCH'}")
bad += (got_none != exp) + (got_big != exp)

# 2. randomised
rng = np.random.default_rng(3)
fails = 0
for trial in range(10):
    n1, n2 = 80, 70
    P = ds(rng.integers(0, 7200, n1), rng.uniform(-1, 1, n1),
           rng.uniform(-1, 1, n1))
    S = ds(rng.integers(0, 7200, n2), rng.uniform(-1, 1, n2),
           rng.uniform(-1, 1, n2))
    start, end = "2018-01-01 00:20:00", "2018-01-01 01:10:00"
    exp = brute(P, S, 40, start, end)
    got = pairs(Collocator().collocate(P, S, max_distance=40, start=start,
                                       end=end))
    if got != exp:
        fails += 1
        if fails <= 2:
            print(f"random trial {trial}: {len(got)} pairs reported, "
                  f"{len(exp)} lie within the window "
                  f"({len(got - exp)} extra, {len(exp - got)} missing)")
print(f"random trials with a wrong set of pairs: {fails} of 10")
bad += fails

if bad:
    print("DEFECT: start/end are ignored when max_interval is None")
    sys.exit(1)
print("OK")
