"""C11 / d3: move(<path string with another suffix>, convert=True) - the
documented way to convert e.g. NetCDF files to CSV - writes the new files with
the handler of the OLD suffix, although the handler was chosen from the
suffix."""
import sys, os; sys.path.insert(0, "/tmp/hunt2/C11")
import shutil, tempfile, warnings
warnings.filterwarnings("ignore")
import multiprocessing
import typhon
assert typhon.__file__.startswith("/tmp/hunt2/C11/"), typhon.__file__
import pandas as pd
import xarray as xr
from typhon.files import FileSet, CSV, NetCDF4


def child(tmp, queue):
    failed = False
    data = {
        day: pd.DataFrame(
            {"a": [1.5 * day, 2.5, 3.5], "b": [4, 5, 6 + day]}).to_xarray()
        for day in (1, 2)
    }
    # handler chosen from the suffix .nc:
    src = FileSet(tmp + "/src/{year}/{month}/{day}.nc",
                  worker_type="thread", max_threads=1)
    for day, ds in data.items():
        src[f"2018-01-0{day}"] = ds

    # The example of the docstring of FileSet.move():
    #   "It is also possible to set the new path directly"
    dst = src.move(tmp + "/dst/{year}/{doy}.csv", convert=True,
                   start="2018-01-01", end="2018-01-03")

    print("handler of the source (.nc):     ", type(src.handler).__name__)
    print("handler of the destination (.csv):", type(dst.handler).__name__,
          "  (expected: CSV)")
    if not isinstance(dst.handler, CSV):
        failed = True

    for day in (1, 2):
        path = f"{tmp}/dst/2018/00{day}.csv"
        with open(path, "rb") as f:
            head = f.read(8)
        print(f"first bytes of {path[len(tmp):]}: {head!r}")
        if head.startswith(b"\x89HDF"):
            failed = True
            print("   -> OBSERVED: a NetCDF4/HDF5 file with the suffix .csv;"
                  " EXPECTED: a CSV table written by the CSV handler")

    # Everybody else finds CSV files there through their suffix:
    other = FileSet(tmp + "/dst/{year}/{doy}.csv")
    for day, ds in data.items():
        try:
            back = other[f"2018-01-0{day}"]
            xr.testing.assert_equal(back, ds)
            print(f"FileSet('.../{{year}}/{{doy}}.csv')['2018-01-0{day}'] "
                  "reads back equal")
        except Exception as err:
            failed = True
            print(f"FileSet('.../{{year}}/{{doy}}.csv')['2018-01-0{day}'] -> "
                  f"{type(err).__name__}: {str(err)[:100]}")
    queue.put(failed)


def main():
    tmp = tempfile.mkdtemp(prefix="c11d3_")
    try:
        # netCDF4 in a child process (the library can take the interpreter
        # down)
        queue = multiprocessing.Queue()
        process = multiprocessing.Process(target=child, args=(tmp, queue))
        process.start()
        process.join(50)
        failed = True if queue.empty() else queue.get()
    finally:
        shutil.rmtree(tmp, ignore_errors=True)

    if failed:
        print("DEFECT: the files converted to '.csv' are no CSV files")
        return 1
    print("OK")
    return 0


if __name__ == "__main__":
    sys.exit(main())
