"""C07 / d1: geocentricposlos2cart rejects every argument with more than one
dimension (the range checks use the builtin any() on a 2-d boolean array)."""
import sys, os; sys.path.insert(0, "/tmp/hunt2/C07")
import warnings; warnings.simplefilter("ignore")
import numpy as np
import typhon
assert typhon.__file__.startswith("/tmp/hunt2/C07/"), typhon.__file__
from typhon.geodesy import geocentricposlos2cart


def oracle(r, lat, lon, za, aa):
    """Text-book east-north-up construction, independent of typhon."""
    r, lat, lon, za, aa = np.broadcast_arrays(*[np.asarray(v, dtype=np.longdouble) for v in (r, lat, lon, za, aa)])
    la, lo, z, a = [np.deg2rad(v) for v in (lat, lon, za, aa)]
    up = np.array([np.cos(la) * np.cos(lo), np.cos(la) * np.sin(lo), np.sin(la)])
    north = np.array([-np.sin(la) * np.cos(lo), -np.sin(la) * np.sin(lo), np.cos(la)])
    east = np.array([-np.sin(lo), np.cos(lo), np.zeros_like(lo)])
    los = np.cos(z) * up + np.sin(z) * (np.cos(a) * north + np.sin(a) * east)
    return tuple(r * up) + tuple(los)


cases = {
    "all arguments of shape (2, 3)": (
        np.full((2, 3), 7.0e6),
        np.array([[-60., -10., 0.], [25., 50., 88.]]),
        np.array([[-180., -75., 0.], [33., 120., 180.]]),
        np.array([[10., 45., 90.], [100., 135., 170.]]),
        np.array([[-120., -45., 30.], [60., 100., 150.]])),
    "(3, 1) positions against (4,) zenith angles": (
        7.0e6, np.array([[-40.], [0.], [70.]]), np.array([[10.], [-170.], [95.]]),
        np.array([20., 60., 110., 160.]), 35.),
}

bad = 0
for name, args in cases.items():
    want = oracle(*args)
    try:
        got = geocentricposlos2cart(*args)
    except Exception as exc:
        print("FAIL  %s: raised %s: %s" % (name, type(exc).__name__, exc))
        print("      expected: six arrays of shape %s" % (want[0].shape,))
        bad += 1
        continue
    ok = all(np.shape(g) == w.shape for g, w in zip(got, want))
    err_pos = max(float(abs(g - w).max()) for g, w in zip(got[:3], want[:3])) if ok else np.inf
    err_los = max(float(abs(g - w).max()) for g, w in zip(got[3:], want[3:])) if ok else np.inf
    if ok and err_pos < 1e-6 and err_los < 1e-12:
        print("ok    %s: shape %s, position error %.1e m, los error %.1e" % (name, want[0].shape, err_pos, err_los))
    else:
        print("FAIL  %s: shapes %s, position error %s, los error %s" % (name, [np.shape(g) for g in got], err_pos, err_los))
        bad += 1

# the same numbers as 1-d arrays work, so the values themselves are in range
flat = geocentricposlos2cart(*[np.ravel(np.broadcast_to(a, (2, 3))) for a in cases["all arguments of shape (2, 3)"]])
print("(the same 6 positions as 1-d arrays are accepted: x =", np.round(flat[0][:3]), "...)")
sys.exit(1 if bad else 0)
