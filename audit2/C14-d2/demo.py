"""column_relative_humidity: a float temperature (isothermal column), a float specific humidity
(well-mixed column) - both documented as "float or ndarray" - and a 1-d temperature profile
shared by several columns (a 1-d pressure grid IS accepted) all raise."""
import sys, os
sys.path.insert(0, "/tmp/hunt2/C14")
import warnings
warnings.simplefilter("ignore")
import numpy as np
import typhon
assert typhon.__file__.startswith("/tmp/hunt2/C14/"), typhon.__file__
from typhon.physics import column_relative_humidity, e_eq_mixed_mk

fail = 0


def qsat(p, T):
    """saturation specific humidity w.r.t. the mixed phase, level by level (harness side)"""
    T = np.broadcast_to(np.asarray(T, float), np.shape(p))
    es = np.array([e_eq_mixed_mk(float(x)) for x in T.ravel()]).reshape(T.shape)
    return 0.622 * es / (p - 0.378 * es)


def trapz(y, x):
    return sum((x[k + 1] - x[k]) * (y[k] + y[k + 1]) / 2 for k in range(len(x) - 1))


def check(label, call, expected):
    global fail
    try:
        got = call()
    except Exception as exc:
        print("%-46s raised %r   expected %s" % (label, exc, expected))
        fail = 1
        return
    ok = np.shape(got) == np.shape(expected) and np.allclose(got, expected, rtol=1e-10)
    print("%-46s %s  expected %s  %s" % (label, got, expected, "ok" if ok else "WRONG"))
    if not ok:
        fail = 1


n = 30
p = np.geomspace(1000e2, 150e2, n)            # decreasing pressure
T1 = np.linspace(298.0, 210.0, n)             # one temperature profile

# reference behaviour (works): everything 1-d
rh = 0.6
check("reference: q, p, t all 1-d, q = 0.6 qs", lambda: column_relative_humidity(rh * qsat(p, T1), p, T1), rh)

# (a) isothermal column, t given as float / 0-d array
Tiso = 268.0                                   # inside the mixed-phase range
q_sat = qsat(p, Tiso)
check("(a) saturated, t = 268.0 (float)", lambda: column_relative_humidity(q_sat, p, Tiso), 1.0)
check("(a) 0.35 * saturated, t = 268.0 (float)", lambda: column_relative_humidity(0.35 * q_sat, p, Tiso), 0.35)
check("(a) saturated, t = np.array(268.0)", lambda: column_relative_humidity(q_sat, p, np.array(Tiso)), 1.0)

# (b) well-mixed column, q given as float
q0 = 1e-4
exp_b = trapz(np.full(n, q0), p) / trapz(qsat(p, T1), p)
check("(b) q = 1e-4 (float), p and t 1-d", lambda: column_relative_humidity(q0, p, T1), exp_b)

# (c) several humidity columns sharing ONE temperature profile and ONE pressure grid
fac = np.array([0.2, 0.5, 1.0])
Q = qsat(p, T1)[:, None] * fac[None, :]        # (nlev, ncol)
check("(c) q (30, 3), p 1-d, t 1-d, axis=0", lambda: column_relative_humidity(Q, p, T1, axis=0), fac)
check("(c) q (3, 30), p 1-d, t 1-d, axis=1", lambda: column_relative_humidity(Q.T.copy(), p, T1, axis=1), fac)

print("DEFECT" if fail else "OK")
sys.exit(fail)
