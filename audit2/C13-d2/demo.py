"""Collocator.collocate with max_interval on datasets WITHOUT a coordinate for
their main dimension (the usual case: xr.Dataset({"time": ("x", ...), ...})).

_prepare_data determines the points inside the common time period with
where().dropna() and then selects them with
    primary.sel(**{dim: primary_period[dim]})
Without a coordinate, primary_period[dim] is just arange(k): the FIRST k points
are selected instead of the k points inside the period (and nothing is sorted).
"""
import sys, os
sys.path.insert(0, "/tmp/hunt2/C13")
import warnings
warnings.simplefilter("ignore")
import numpy as np
import xarray as xr
import typhon
assert typhon.__file__.startswith("/tmp/hunt2/C13/")
from typhon.collocations import Collocator, expand

failed = False

# --- part 1: partial temporal overlap -------------------------------------
# primary: one point every 10 minutes from 00:00 to 01:30, all at (0, 0)
# secondary: 4 points at 01:00, 01:01, 01:02, 01:03, all at (0, 0)
t1 = np.datetime64("2020-01-01") + (np.arange(10) * 600).astype("m8[s]")
t2 = np.datetime64("2020-01-01T01:00:00") + (np.arange(4) * 60).astype("m8[s]")
primary = xr.Dataset({
    "time": ("x", t1), "lat": ("x", np.zeros(10)), "lon": ("x", np.zeros(10)),
    "v": ("x", np.arange(10.)),
})
secondary = xr.Dataset({
    "time": ("y", t2), "lat": ("y", np.zeros(4)), "lon": ("y", np.zeros(4)),
    "v": ("y", 100 + np.arange(4.)),
})
expected = [(6.0, 100.0), (6.0, 101.0), (6.0, 102.0), (6.0, 103.0)]
result = Collocator().collocate(
    primary, secondary, max_interval="5 min", max_distance=1)
if result is None:
    observed = None
else:
    ex = expand(result)
    observed = sorted(zip(ex["primary/v"].values.tolist(),
                          ex["secondary/v"].values.tolist()))
print("part 1 expected pairs (primary/v, secondary/v):", expected)
print("part 1 observed:", observed)
if observed != expected:
    failed = True

# the same data with an explicit coordinate for the dimension works:
result = Collocator().collocate(
    primary.assign_coords(x=np.arange(10)),
    secondary.assign_coords(y=np.arange(4)),
    max_interval="5 min", max_distance=1)
print("        with coordinates x, y:",
      None if result is None else result["Collocations/pairs"].values.tolist())

# --- part 2: unsorted times, enough points for the temporal binning -------
rng = np.random.default_rng(0)
n = 1100


def unsorted(n, dim):
    return xr.Dataset({
        "time": (dim, np.datetime64("2020-01-01")
                 + rng.integers(0, 3600, n).astype("m8[s]")),
        "lat": (dim, rng.uniform(0, 1, n)),
        "lon": (dim, rng.uniform(0, 1, n)),
        "v": (dim, np.arange(n, dtype=float)),
    })


p, s = unsorted(n, "x"), unsorted(n, "y")
try:
    result = Collocator().collocate(p, s, max_interval=100, max_distance=5)
    ex = expand(result)
    got = set(zip(ex["primary/v"].values.astype(int).tolist(),
                  ex["secondary/v"].values.astype(int).tolist()))
    # brute force (chord distance on a sphere of 6371 km, margin for
    # borderline pairs)
    def xyz(d):
        la, lo = np.radians(d.lat.values), np.radians(d.lon.values)
        return 6371. * np.column_stack(
            [np.cos(la) * np.cos(lo), np.cos(la) * np.sin(lo), np.sin(la)])
    dist = np.linalg.norm(xyz(p)[:, None, :] - xyz(s)[None, :, :], axis=-1)
    dt = np.abs(p.time.values[:, None] - s.time.values[None, :]) \
        / np.timedelta64(1, "s")
    sure = set(zip(*np.nonzero((dist < 4.9) & (dt < 100))))
    possible = set(zip(*np.nonzero((dist < 5.1) & (dt < 100))))
    print(f"part 2: found {len(got)} pairs, brute force "
          f"{len(sure)}..{len(possible)}")
    if not (sure <= got <= possible):
        print("part 2 OBSERVED: missing", len(sure - got),
              "wrong", len(got - possible))
        failed = True
except Exception as exc:
    print("part 2 OBSERVED exception:", repr(exc)[:200])
    failed = True

if failed:
    print("FAIL: collocate selects / sorts the points of the common time "
          "period by position 0..k-1")
    sys.exit(1)
print("OK")
