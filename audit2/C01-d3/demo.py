"""C01 / d3: len(fileset) raises NoFilesError instead of returning 0 when the
set of files is empty (no file yet, or every file excluded), while
`t in fileset` and find(no_files_error=False) report the empty set.

Run: cd /tmp/hunt2/C01 && /venv/bin/python out/d3/demo.py
"""
import sys, os; sys.path.insert(0, "/tmp/hunt2/C01")
import shutil
import tempfile
import warnings
from datetime import datetime

warnings.simplefilter("ignore")
import typhon
assert typhon.__file__.startswith("/tmp/hunt2/C01/"), typhon.__file__
from typhon.files import FileSet

failures = []


def check(label, func, expected):
    try:
        observed = func()
    except Exception as err:
        observed = f"{type(err).__name__}: {err}".splitlines()[0]
    ok = observed == expected
    print(f"[{'ok' if ok else 'FAIL'}] {label}\n       observed: {observed}\n"
          f"       expected: {expected}")
    if not ok:
        failures.append(label)


root = tempfile.mkdtemp(prefix="c01_d3_")
try:
    template = os.path.join(root, "{year}", "{month}", "{year}{month}{day}.nc")

    # (1) no file has been written yet
    fs = FileSet(template)
    check("empty tree: list(find(no_files_error=False))",
          lambda: list(fs.find(no_files_error=False)), [])
    check("empty tree: '2018-01-01' in fileset",
          lambda: "2018-01-01" in fs, False)
    check("empty tree: len(fileset)", lambda: len(fs), 0)

    # (2) files exist, len() counts them
    for day in (1, 2, 3):
        path = os.path.join(root, "2018", "01", f"201801{day:02d}.nc")
        os.makedirs(os.path.dirname(path), exist_ok=True)
        open(path, "w").close()
    fs = FileSet(template)
    check("three files: len(fileset)", lambda: len(fs), 3)

    # (3) every file is excluded: the set is empty again
    fs = FileSet(template,
                 exclude=[(datetime(2018, 1, 1), datetime(2018, 1, 31))])
    check("all excluded: list(find(no_files_error=False))",
          lambda: list(fs.find(no_files_error=False)), [])
    check("all excluded: '2018-01-02' in fileset",
          lambda: "2018-01-02" in fs, False)
    check("all excluded: len(fileset)", lambda: len(fs), 0)
    check("all excluded: bool(fileset)", lambda: bool(fs), False)
finally:
    shutil.rmtree(root, ignore_errors=True)

if failures:
    print(f"\nDEFECT: {len(failures)} check(s) failed")
    sys.exit(1)
print("\nall checks passed")
