"""An end given by {end_millisecond} that wraps into the next second gets +10 ms instead of +1 s: the end
lies before the start and find_closest misses the covering file."""
import sys, os
sys.path.insert(0, "/tmp/hunt2/C16")
import warnings; warnings.simplefilter("ignore")
import typhon
assert typhon.__file__.startswith("/tmp/hunt2/C16/")
import tempfile, shutil
from datetime import datetime
from typhon.files import FileSet

base = tempfile.mkdtemp(prefix="c16_d3_")
bad = 0
try:
    fs = FileSet(os.path.join(
        base, "{year}{month}{day}_{hour}{minute}{second}{millisecond}-{end_millisecond}.nc"))
    periods = [
        (datetime(2018, 1, 1, 23, 59, 59, 900000), datetime(2018, 1, 2, 0, 0, 0, 100000)),  # A
        (datetime(2018, 1, 2, 0, 0, 0, 150000), datetime(2018, 1, 2, 0, 0, 0, 200000)),     # B
    ]
    names = []
    for p in periods:
        name = fs.get_filename(p)
        open(name, "w").close()
        names.append(name)
    info = fs.get_info(names[0])
    ok = list(info.times) == list(periods[0])
    print("coverage of %s: expected %s .. %s, observed %s .. %s -> %s" % (
        os.path.basename(names[0]), periods[0][0], periods[0][1],
        info.times[0], info.times[1], "ok" if ok else "WRONG"))
    bad += not ok
    for t in [datetime(2018, 1, 1, 23, 59, 59, 950000), datetime(2018, 1, 2, 0, 0, 0, 50000),
              datetime(2018, 1, 2, 0, 0, 0, 100000)]:
        got = fs.find_closest(t).path
        ok = got == names[0]
        print("find_closest(%s): expected the covering file %s, observed %s -> %s" % (
            t, os.path.basename(names[0]), os.path.basename(got), "ok" if ok else "WRONG"))
        bad += not ok
finally:
    shutil.rmtree(base)
print("violations:", bad)
sys.exit(1 if bad else 0)
