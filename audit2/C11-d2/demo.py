"""C11 / d2: read_args are silently dropped when the reader of a user handler
(FileHandler(reader=...)) is a bound method with one further parameter."""
import sys, os; sys.path.insert(0, "/tmp/hunt2/C11")
import shutil, tempfile, warnings
warnings.filterwarnings("ignore")
from datetime import datetime
import typhon
assert typhon.__file__.startswith("/tmp/hunt2/C11/"), typhon.__file__
from typhon.files import FileSet, FileHandler


class Store:
    """A user's reader / writer object."""
    def read(self, file_info, **kwargs):
        with open(file_info.path) as f:
            lines = f.read().splitlines()
        return lines[:kwargs["first"]] if "first" in kwargs else lines

    def read_fields(self, file_info, first=None):
        with open(file_info.path) as f:
            lines = f.read().splitlines()
        return lines if first is None else lines[:first]

    def write(self, data, file_info, **kwargs):
        with open(file_info.path, "w") as f:
            f.write("\n".join(data))


def read_function(file_info, **kwargs):
    return Store().read(file_info, **kwargs)


def main():
    tmp = tempfile.mkdtemp(prefix="c11d2_")
    failed = False
    try:
        store = Store()
        data = ["l1", "l2", "l3", "l4"]
        cases = {
            "plain function (file_info, **kwargs)": read_function,
            "bound method (self, file_info, **kwargs)": store.read,
            "bound method (self, file_info, first=None)": store.read_fields,
        }
        for i, (label, reader) in enumerate(cases.items()):
            fs = FileSet(
                f"{tmp}/{i}/{{year}}{{month}}{{day}}.dat",
                handler=FileHandler(reader=reader, writer=store.write),
                read_args={"first": 2},
            )
            fs[datetime(2018, 1, 1)] = data
            by_default = fs[datetime(2018, 1, 1)]
            explicit = fs.read(fs.get_filename(datetime(2018, 1, 1)), first=1)
            print(f"{label}:")
            print(f"   FileSet(read_args={{'first': 2}})[t] -> {by_default}"
                  f"   (expected ['l1', 'l2'])")
            print(f"   fs.read(file, first=1)            -> {explicit}"
                  f"   (expected ['l1'])")
            if by_default != ["l1", "l2"] or explicit != ["l1"]:
                failed = True
                print("   -> the read_args did not reach the reader")
    finally:
        shutil.rmtree(tmp, ignore_errors=True)

    if failed:
        print("DEFECT: read_args are not applied for a bound-method reader")
        return 1
    print("OK")
    return 0


if __name__ == "__main__":
    sys.exit(main())
