"""T7 - call binding: bind the arguments of a call site to a resolved typhon signature."""
import ast
from .core import AnalysisError, norm, dotted


def signature(func, bound):
    """(required positional-or-keyword names, all names, has *args, has **kwargs) as seen by the caller.
    bound=True: called through an instance / a staticmethod reference (implicit self removed for
    ordinary methods); bound=False: plain function object reached through the class."""
    a = func.node.args
    names = [x.arg for x in a.posonlyargs + a.args]
    ndef = len(a.defaults)
    if func.cls is not None and not func.is_static and bound and names:
        names = names[1:]
    required = names[:len(names) - ndef] if ndef <= len(names) else []
    kwonly = [x.arg for x in a.kwonlyargs]
    kwreq = [x.arg for x, d in zip(a.kwonlyargs, a.kw_defaults) if d is None]
    return {"names": names, "required": required, "kwonly": kwonly, "kwrequired": kwreq,
            "vararg": a.vararg is not None, "kwarg": a.kwarg is not None}


def bind_counts(func, bound, npos, kwnames):
    """Would `f(*npos positional, **kwnames)` raise a TypeError?  -> list of problems"""
    sig = signature(func, bound)
    problems = []
    names = sig["names"]
    if npos > len(names) and not sig["vararg"]:
        problems.append("%d positional arguments for %d parameters (%s)" % (npos, len(names), ", ".join(names)))
    taken = set(names[:npos])
    for k in kwnames:
        if k in taken:
            problems.append("parameter '%s' receives a positional and a keyword argument" % k)
        elif k not in names and k not in sig["kwonly"] and not sig["kwarg"]:
            problems.append("unexpected keyword '%s'" % k)
    for r in sig["required"]:
        if r not in taken and r not in kwnames:
            problems.append("required parameter '%s' is not supplied" % r)
    for r in sig["kwrequired"]:
        if r not in kwnames:
            problems.append("required keyword-only parameter '%s' is not supplied" % r)
    return problems


def bind_call(call, func, bound):
    if any(isinstance(a, ast.Starred) for a in call.args) or any(k.arg is None for k in call.keywords):
        raise AnalysisError("call with */** arguments cannot be bound statically: %s" % norm(call)[:60])
    return bind_counts(func, bound, len(call.args), [k.arg for k in call.keywords])


def swapped_names(call, func, bound):
    """Positional arguments that are plain names equal to the name of ANOTHER parameter of the
    callee while that parameter receives a name equal to this position's parameter (a swap)."""
    sig = signature(func, bound)
    names = sig["names"]
    got = {}
    for i, a in enumerate(call.args):
        if i < len(names) and isinstance(a, ast.Name):
            got[names[i]] = a.id
    out = []
    for p, a in got.items():
        if a != p and a in got and got[a] == p:
            out.append((p, a))
    return out


def bind_args(call, func):
    """{parameter name of func: argument expression} for a call (self/cls skipped for methods; defaults filled in)"""
    params = list(func.params)
    if params and params[0] in ("self", "cls") and not func.is_static:
        params = params[1:]
    out = {}
    for i, a in enumerate(call.args):
        if isinstance(a, ast.Starred):
            raise AnalysisError("call with * arguments cannot be bound statically: %s" % norm(call)[:60])
        if i < len(params):
            out[params[i]] = a
    for k in call.keywords:
        if k.arg:
            out[k.arg] = k.value
    for name, d in func.defaults().items():
        out.setdefault(name, d)
    return out
