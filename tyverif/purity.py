"""T2 effect rule: a function must not modify the arrays / datasets its caller passed in.

Flow-sensitive may-alias analysis over local names (reaching definitions): a name aliases a
parameter if one of its reaching definitions is the parameter itself or an assignment from a
*view* of an aliased value (attribute, subscript, reshape/ravel/asarray/..., iteration over it,
pseudo-group extraction).  Copies (`.copy()`, `np.array`, arithmetic, `astype`, any other call)
cut the chain.  Reported: in-place operators, element/attribute stores, `out=` arguments and
mutating methods applied to an aliased value.
"""
import ast
from .core import norm, dotted, walk_no_nested, enclosing_stmt, parent
from .flow import Flow

VIEW_METHODS = {"reshape", "ravel", "view", "squeeze", "transpose", "swapaxes", "items", "values", "keys", "get", "flatten_view",
                "isel_view", "__getitem__", "item_view", "diagonal"}
VIEW_FUNCS = {"asarray", "asanyarray", "atleast_1d", "atleast_2d", "squeeze", "reshape", "ravel", "transpose", "swapaxes", "broadcast_to",
              "get_xarray_groups", "get_xarray_group", "enumerate", "zip", "iter", "reversed", "ascontiguousarray"}
MUTATORS = {"sort", "fill", "resize", "put", "itemset", "partition", "setfield", "update", "append", "extend", "pop", "clear", "remove",
            "insert", "setdefault", "popitem", "byteswap_inplace", "setflags"}


class Alias:
    def __init__(self, func):
        self.func = func
        self.flow = Flow(func)
        a = func.node.args
        skip = {"self", "cls"} | ({a.vararg.arg} if a.vararg else set()) | ({a.kwarg.arg} if a.kwarg else set())
        self.params = [p for p in func.all_params if p not in skip]
        self._memo = {}

    def name_aliases(self, name, at):
        """set of parameters `name` may alias at statement `at`"""
        key = (name, id(at))
        if key in self._memo:
            return self._memo[key]
        self._memo[key] = set()
        out = set()
        for d in self._drop_zero_iteration(name, at, self.flow.defs(name, at)):
            if d == "param":
                if name in self.params:
                    out.add(name)
                continue
            if isinstance(d, ast.Assign):
                for t in d.targets:
                    if isinstance(t, ast.Name) and t.id == name:
                        out |= self.expr_aliases(d.value, d)
                    elif isinstance(t, (ast.Tuple, ast.List)) and any(isinstance(e, ast.Name) and e.id == name for e in t.elts):
                        out |= self.expr_aliases(d.value, d)
            elif isinstance(d, (ast.For, ast.AsyncFor)):
                out |= self.expr_aliases(d.iter, d)
            elif isinstance(d, ast.AugAssign):
                # x op= y keeps the object of x for arrays
                out |= self.name_aliases(name, d) if d is not at else set()
            elif isinstance(d, (ast.With, ast.AsyncWith)):
                pass
        self._memo[key] = out
        return out

    def _drop_zero_iteration(self, name, at, ds):
        """Correlated loops: `at` lies in a loop L2 over the same iterable expression as an earlier sibling loop L1 whose body
        rebinds `name` unconditionally.  L2's body runs only if the iterable is non-empty, and then L1's body ran as well
        (nothing in between rebinds the names of the iterable): the definitions made before L1 do not reach `at`."""
        if len(ds) < 2:
            return ds
        st = at if isinstance(at, ast.stmt) else enclosing_stmt(at)
        loops = []
        n = parent(st)
        while n is not None and not isinstance(n, (ast.FunctionDef, ast.AsyncFunctionDef)):
            if isinstance(n, ast.For):
                loops.append(n)
            n = parent(n)
        out = list(ds)
        for l2 in loops:
            par = parent(l2)
            blk = None
            for fld in ("body", "orelse", "finalbody"):
                b = getattr(par, fld, None)
                if isinstance(b, list) and any(x is l2 for x in b):
                    blk = b
            if blk is None:
                continue
            k2 = [i for i, x in enumerate(blk) if x is l2][0]
            inames = {x.id for x in ast.walk(l2.iter) if isinstance(x, ast.Name)}
            for k1 in range(k2):
                l1 = blk[k1]
                if not (isinstance(l1, ast.For) and not l1.orelse and norm(l1.iter) == norm(l2.iter)):
                    continue
                if any(isinstance(x, (ast.Continue, ast.Break, ast.Return, ast.Raise)) for b_ in l1.body for x in ast.walk(b_)):
                    continue
                rebinds = [b_ for b_ in l1.body if isinstance(b_, ast.Assign) and len(b_.targets) == 1 and isinstance(b_.targets[0], ast.Name) and b_.targets[0].id == name]
                if not rebinds:
                    continue
                # the iterable denotes the same objects at L1 and at L2
                stored = {x.id for s_ in blk[k1:k2 + 1] for x in ast.walk(s_) if isinstance(x, ast.Name) and isinstance(x.ctx, (ast.Store, ast.Del))}
                if stored & inames:
                    continue
                inside = {id(x) for x in ast.walk(l1)}
                out = [d for d in out if d != "param" and (id(d) in inside or self.flow._order(d) > self.flow._order(l1))]
        return out or ds

    def expr_aliases(self, e, at):
        """parameters the value of e may share memory with"""
        if isinstance(e, ast.Name):
            comp = _comp_iter(e)
            if comp is not None:
                return self.expr_aliases(comp, at)
            return self.name_aliases(e.id, at)
        if isinstance(e, ast.Attribute):
            return self.expr_aliases(e.value, at)
        if isinstance(e, ast.Subscript):
            return self.expr_aliases(e.value, at)
        if isinstance(e, ast.Starred):
            return self.expr_aliases(e.value, at)
        if isinstance(e, (ast.Tuple, ast.List)):
            out = set()
            for x in e.elts:
                out |= self.expr_aliases(x, at)
            return out
        if isinstance(e, ast.IfExp):
            return self.expr_aliases(e.body, at) | self.expr_aliases(e.orelse, at)
        if isinstance(e, ast.Call):
            f = e.func
            if isinstance(f, ast.Attribute) and f.attr in VIEW_METHODS:
                return self.expr_aliases(f.value, at)
            d = dotted(f) or ""
            if d.split(".")[-1] in VIEW_FUNCS and e.args:
                # np.asarray(x, dtype=...) may still return x itself
                out = set()
                for a in e.args[:2] if d.split(".")[-1] in ("zip",) else e.args[:1]:
                    out |= self.expr_aliases(a, at)
                return out
            return set()
        return set()


def _comp_iter(name_node):
    n = parent(name_node)
    while n is not None and not isinstance(n, ast.stmt):
        if isinstance(n, (ast.ListComp, ast.SetComp, ast.GeneratorExp, ast.DictComp)):
            for g in n.generators:
                for t in ast.walk(g.target):
                    if isinstance(t, ast.Name) and t.id == name_node.id:
                        return g.iter
        n = parent(n)
    return None


def argument_mutations(func):
    """[(param, statement node, description)]"""
    al = Alias(func)
    out = []
    for st in al.flow.stmts:
        if isinstance(st, ast.AugAssign):
            t = st.target
            base = t
            while isinstance(base, (ast.Subscript, ast.Attribute)):
                base = base.value
            if isinstance(base, ast.Name):
                if isinstance(t, ast.Name):
                    ps = set()
                    for d in al.flow.defs(t.id, st):
                        if d == "param" and t.id in al.params:
                            ps.add(t.id)
                        elif isinstance(d, ast.Assign):
                            ps |= al.expr_aliases(d.value, d)
                        elif isinstance(d, (ast.For, ast.AsyncFor)):
                            ps |= al.expr_aliases(d.iter, d)
                else:
                    ps = al.expr_aliases(t, st)
                for p in sorted(ps):
                    out.append((p, st, "in-place `%s` on a value that may be (a view of) the argument `%s`" % (norm(st)[:70], p)))
        elif isinstance(st, ast.Assign):
            for t in st.targets:
                if isinstance(t, ast.Attribute):
                    # setting an attribute (shape, dims) changes the object itself, not the memory it views:
                    # only the caller's own object counts
                    if isinstance(t.value, ast.Name) and t.value.id in al.params and al.flow.defs(t.value.id, st) == ["param"]:
                        out.append((t.value.id, st, "attribute store `%s = ...` on the argument `%s` itself" % (norm(t)[:50], t.value.id)))
                elif isinstance(t, ast.Subscript):
                    base = t
                    while isinstance(base, (ast.Subscript, ast.Attribute)):
                        base = base.value
                    if isinstance(base, ast.Name) and base.id != "self":
                        for p in sorted(al.expr_aliases(t.value, st)):
                            out.append((p, st, "store `%s = ...` into a value that may be (a view of) the argument `%s`" % (norm(t)[:50], p)))
        for n in _calls_of(st):
            for k in n.keywords:
                if k.arg == "out":
                    for p in sorted(al.expr_aliases(k.value, st)):
                        out.append((p, st, "`out=%s` writes into (a view of) the argument `%s`" % (norm(k.value), p)))
            # (value-returning mutators - pop, popitem, setdefault - change their object wherever the call stands; **kwargs / *args are
            # containers made for this call, not the caller's)
            own = {a_.arg for a_ in (func.node.args.vararg, func.node.args.kwarg) if a_ is not None}
            if isinstance(n.func, ast.Attribute) and n.func.attr in MUTATORS and (isinstance(parent(n), ast.Expr) or n.func.attr in ("pop", "popitem", "setdefault")):
                for p in sorted(al.expr_aliases(n.func.value, st)):
                    if p in own:
                        continue
                    out.append((p, st, "`%s` mutates (a view of) the argument `%s`" % (norm(n)[:50], p)))
    # de-duplicate
    seen = set()
    res = []
    for p, st, why in out:
        k = (p, id(st))
        if k not in seen:
            seen.add(k)
            res.append((p, st, why))
    return res


def _calls_of(st):
    if isinstance(st, (ast.If, ast.While)):
        roots = [st.test]
    elif isinstance(st, (ast.For, ast.AsyncFor)):
        roots = [st.iter]
    elif isinstance(st, (ast.With, ast.AsyncWith)):
        roots = [i.context_expr for i in st.items]
    elif isinstance(st, ast.Try):
        roots = []
    elif isinstance(st, (ast.FunctionDef, ast.AsyncFunctionDef, ast.ClassDef)):
        roots = []
    else:
        roots = [st]
    out = []
    for r in roots:
        for n in walk_no_nested(r):
            if isinstance(n, ast.Call):
                out.append(n)
    return out


NUMERIC_RULES = {"C06.args", "C07.args", "C08.args", "C09.args", "C14.pure", "C17.pure", "C18.args", "C19.args"}


def rule_pure(ctx, rule, targets, what="the caller's arrays / datasets are not modified", closure=2):
    """targets: [(rel, qualname)]"""
    ctx.rule(rule, "T2 effect (may-alias)", what)
    if closure:
        targets = callee_closure(ctx, list(targets), depth=closure)
    for rel, q in targets:
        f = ctx.func(rel, q)
        muts = argument_mutations(f)
        ctx.ob("%s.arguments_unchanged" % q, not muts, "; ".join(m[2] for m in muts[:3]) or "no in-place effect on (views of) the arguments",
               "no in-place operator, element store, out= or mutating method reaches memory of an argument (copy first)",
               node=muts[0][1] if muts else f.node, func=f)
    if rule in NUMERIC_RULES:
        # the numerical properties hold for arguments of any dtype: result buffers do not take theirs from an argument
        from .dtype import rule_float_buffers
        rule_float_buffers(ctx, rule.split(".")[0] + ".dtype", targets)


def callee_closure(ctx, targets, depth=2):
    """targets plus the typhon functions they call by name (same module, or imported from a typhon module that exists in the tree),
    followed `depth` levels: a helper that updates its argument in place updates the caller's argument"""
    import os
    out = list(targets)
    seen = set(targets)
    frontier = list(targets)
    for _ in range(depth):
        nxt = []
        for rel, q in frontier:
            try:
                f = ctx.func(rel, q, raw=True)
            except Exception:
                continue
            mod = f.module
            for c in [n for n in ast.walk(f.node) if isinstance(n, ast.Call)]:
                cand = None
                if isinstance(c.func, ast.Name):
                    nm = c.func.id
                    if nm in mod.funcs and mod.funcs[nm].cls is None:
                        cand = (rel, nm)
                    else:
                        org = mod.imports.get(nm)
                        if org and org.startswith("typhon."):
                            path = org.rsplit(".", 1)[0].replace(".", "/") + ".py"
                            if os.path.exists(os.path.join(ctx.repo.root, path)):
                                try:
                                    m2 = ctx.repo.mod(path)
                                    if nm in m2.funcs and m2.funcs[nm].cls is None:
                                        cand = (path, nm)
                                except Exception:
                                    cand = None
                if cand and cand not in seen:
                    seen.add(cand)
                    out.append(cand)
                    nxt.append(cand)
        frontier = nxt
    return out
