"""Canonical forms of expressions and statements, so that rules compare *what* an expression
computes rather than how it is spelled.  Only rewrites that preserve the value for every input
are applied:

* comparisons use `<` / `<=` only (`a > b` -> `b < a`), `not (a < b)` -> `b <= a`,
  `not (a == b)` -> `a != b`, `not (a is None)` -> `a is not None`
* operands of `*`, `&`, `|` and of numeric-looking `+` are sorted
* `x.f(...)` <-> `np.f(x, ...)` for the reductions / reshapes numpy offers in both forms
* `dict(a, **b)` -> `{**a, **b}`; `x.size == 0` / `0 == x.size` -> `not x.size`; `len(x) == 0` -> `not len(x)`
* redundant parentheses, quote style and layout vanish through ast.unparse
"""
import ast

NP_METHOD_FUNCS = {"min", "max", "sum", "cumsum", "argsort", "argmin", "argmax", "any", "all", "ravel", "mean", "std", "prod",
                   "nanmin", "nanmax", "transpose", "squeeze", "clip", "round", "cumprod", "searchsorted", "nonzero", "repeat", "dot"}
NONNUMERIC_ATTRS = {"shape", "dims", "path", "name", "names", "attr", "args", "stem", "suffix"}
NONNUMERIC_CALLS = {"join", "str", "format", "list", "tuple", "dirname", "basename", "repr", "upper", "lower", "strip", "lstrip", "rstrip"}


def _txt(n):
    return ast.unparse(n)


def _looks_numeric(n):
    if isinstance(n, ast.Constant):
        return isinstance(n.value, (int, float, complex)) and not isinstance(n.value, bool)
    if isinstance(n, (ast.JoinedStr, ast.List, ast.Tuple, ast.ListComp, ast.Dict, ast.Set, ast.GeneratorExp)):
        return False
    if isinstance(n, ast.Attribute):
        return n.attr not in NONNUMERIC_ATTRS
    if isinstance(n, ast.Call):
        f = n.func
        name = f.attr if isinstance(f, ast.Attribute) else (f.id if isinstance(f, ast.Name) else "")
        return name not in NONNUMERIC_CALLS
    if isinstance(n, ast.BinOp):
        if isinstance(n.op, ast.Mod) and isinstance(n.left, (ast.Constant, ast.JoinedStr)) and isinstance(getattr(n.left, "value", None), str):
            return False
        return _looks_numeric(n.left) and _looks_numeric(n.right)
    return True


def _boolish(n):
    """expression whose value is a boolean (array) whatever its operands: comparisons and their combinations / reshapes"""
    if isinstance(n, ast.Compare):
        return True
    if isinstance(n, ast.UnaryOp) and isinstance(n.op, (ast.Not, ast.Invert)):
        return _boolish(n.operand)
    if isinstance(n, ast.BinOp) and isinstance(n.op, (ast.BitAnd, ast.BitOr)):
        return _boolish(n.left) and _boolish(n.right)
    if isinstance(n, ast.Call):
        f = n.func
        if isinstance(f, ast.Attribute) and f.attr in ("reshape", "ravel", "flatten", "squeeze", "transpose", "copy"):
            if isinstance(f.value, ast.Name) and f.value.id in ("np", "numpy"):
                return bool(n.args) and _boolish(n.args[0])
            return _boolish(f.value)
        if isinstance(f, ast.Attribute) and f.attr in ("logical_and", "logical_or", "logical_not", "isnan", "isfinite", "isin", "isclose"):
            return True
    return False


class _Canon(ast.NodeTransformer):
    def visit_Compare(self, n):
        self.generic_visit(n)
        if len(n.ops) == 1:
            op, l, r = n.ops[0], n.left, n.comparators[0]
            if isinstance(op, ast.Gt):
                return ast.copy_location(ast.Compare(left=r, ops=[ast.Lt()], comparators=[l]), n)
            if isinstance(op, ast.GtE):
                return ast.copy_location(ast.Compare(left=r, ops=[ast.LtE()], comparators=[l]), n)
            if isinstance(op, (ast.Eq, ast.NotEq)):
                # constant on the right, otherwise sort the sides
                if isinstance(l, ast.Constant) and not isinstance(r, ast.Constant):
                    l, r = r, l
                elif not isinstance(r, ast.Constant) and _txt(r) < _txt(l):
                    l, r = r, l
                n = ast.copy_location(ast.Compare(left=l, ops=[op], comparators=[r]), n)
                # emptiness families
                if isinstance(op, ast.Eq) and isinstance(r, ast.Constant) and r.value == 0:
                    if isinstance(l, ast.Attribute) and l.attr == "size":
                        return ast.copy_location(ast.UnaryOp(op=ast.Not(), operand=l), n)
                    if isinstance(l, ast.Call) and isinstance(l.func, ast.Name) and l.func.id == "len":
                        return ast.copy_location(ast.UnaryOp(op=ast.Not(), operand=l), n)
        return n

    def visit_UnaryOp(self, n):
        self.generic_visit(n)
        if isinstance(n.op, ast.Not):
            o = n.operand
            if isinstance(o, ast.Compare) and len(o.ops) == 1:
                op, l, r = o.ops[0], o.left, o.comparators[0]
                flip = {ast.Lt: (ast.LtE, True), ast.LtE: (ast.Lt, True), ast.Eq: (ast.NotEq, False), ast.NotEq: (ast.Eq, False),
                        ast.Is: (ast.IsNot, False), ast.IsNot: (ast.Is, False), ast.In: (ast.NotIn, False), ast.NotIn: (ast.In, False)}
                if type(op) in flip:
                    new, swap = flip[type(op)]
                    if swap:
                        l, r = r, l
                    return ast.copy_location(ast.Compare(left=l, ops=[new()], comparators=[r]), n)
            if isinstance(o, ast.UnaryOp) and isinstance(o.op, ast.Not):
                pass
        return n

    def visit_BinOp(self, n):
        self.generic_visit(n)
        if isinstance(n.op, (ast.Mult, ast.BitAnd, ast.BitOr)) or (isinstance(n.op, ast.Add) and _looks_numeric(n)):
            kind = type(n.op)
            ops = []

            def flat(x):
                if isinstance(x, ast.BinOp) and isinstance(x.op, kind) and (kind is not ast.Add or _looks_numeric(x)):
                    flat(x.left)
                    flat(x.right)
                else:
                    ops.append(x)
            flat(n)
            if kind is ast.Mult and not all(_looks_numeric(o) for o in ops):
                return n        # "-" * 79, [0] * n ...
            ops.sort(key=lambda x: (0 if isinstance(x, ast.Constant) else 1, _txt(x)))
            out = ops[0]
            for o in ops[1:]:
                out = ast.BinOp(left=out, op=kind(), right=o)
            return ast.copy_location(out, n)
        return n

    def visit_Subscript(self, n):
        self.generic_visit(n)

        def as_slice(x):
            if isinstance(x, ast.Call) and isinstance(x.func, ast.Name) and x.func.id == "slice" and 1 <= len(x.args) <= 3 and not x.keywords:
                a = list(x.args)
                if len(a) == 1:
                    a = [ast.Constant(value=None), a[0], ast.Constant(value=None)]
                while len(a) < 3:
                    a.append(ast.Constant(value=None))
                none = lambda e: isinstance(e, ast.Constant) and e.value is None
                return ast.Slice(lower=None if none(a[0]) else a[0], upper=None if none(a[1]) else a[1], step=None if none(a[2]) else a[2])
            return x
        if isinstance(n.slice, ast.Tuple):
            n.slice = ast.Tuple(elts=[as_slice(e) for e in n.slice.elts], ctx=ast.Load())
        else:
            n.slice = as_slice(n.slice)
        return n

    def _collapse_unpack(self, n):
        """(E[0], E[1], ..., E[k-1]) with one call E (what `a, b, c = E` followed by (a, b, c) resolves to) -> E"""
        e = n.elts
        if len(e) >= 2 and all(isinstance(x, ast.Subscript) and isinstance(x.slice, ast.Constant) and x.slice.value == i
                               and isinstance(x.value, ast.Call) for i, x in enumerate(e)):
            t0 = _txt(e[0].value)
            if all(_txt(x.value) == t0 for x in e[1:]):
                return e[0].value
        return n

    def visit_Tuple(self, n):
        self.generic_visit(n)
        return self._collapse_unpack(n) if isinstance(n.ctx, ast.Load) else n

    def visit_List(self, n):
        self.generic_visit(n)
        return self._collapse_unpack(n) if isinstance(n.ctx, ast.Load) else n

    # comprehension variables are bound names: spelled canonically (_c0, _c1, ...) so that renaming them is invisible
    def _comp(self, n):
        depth = getattr(self, "_cdepth", 0)
        self._cdepth = depth + 1
        names = []
        for g in n.generators:
            for t in ast.walk(g.target):
                if isinstance(t, ast.Name) and t.id not in names:
                    names.append(t.id)
        mapping = {nm: "_c%d_%d" % (depth, i) for i, nm in enumerate(names)}

        class R(ast.NodeTransformer):
            def visit_Name(self, x):
                if x.id in mapping:
                    return ast.copy_location(ast.Name(id=mapping[x.id], ctx=x.ctx), x)
                return x
        n = R().visit(n)
        self.generic_visit(n)
        self._cdepth = depth
        return n

    def visit_ListComp(self, n):
        return self._comp(n)

    def visit_SetComp(self, n):
        return self._comp(n)

    def visit_DictComp(self, n):
        return self._comp(n)

    def visit_GeneratorExp(self, n):
        return self._comp(n)

    def visit_Call(self, n):
        self.generic_visit(n)
        f = n.func
        # x.f(args) -> np.f(x, args)
        if isinstance(f, ast.Attribute) and f.attr in NP_METHOD_FUNCS and not (isinstance(f.value, ast.Name) and f.value.id in ("np", "numpy", "math", "pd", "xr", "self", "os", "re")):
            if not isinstance(f.value, ast.Constant):
                return ast.copy_location(ast.Call(func=ast.Attribute(value=ast.Name(id="np", ctx=ast.Load()), attr=f.attr, ctx=ast.Load()),
                                                  args=[f.value] + n.args, keywords=n.keywords), n)
        # np.logical_and(a, b) -> a & b, np.logical_or -> |, for operands that are boolean by construction
        if isinstance(f, ast.Attribute) and f.attr in ("logical_and", "logical_or") and isinstance(f.value, ast.Name) and f.value.id in ("np", "numpy") \
                and len(n.args) == 2 and not n.keywords and all(_boolish(a) for a in n.args):
            op = ast.BitAnd() if f.attr == "logical_and" else ast.BitOr()
            return self.visit_BinOp(ast.copy_location(ast.BinOp(left=n.args[0], op=op, right=n.args[1]), n))
        # list((a, b)) / list([a, b]) -> [a, b];  tuple([a, b]) / tuple((a, b)) -> (a, b)
        if isinstance(f, ast.Name) and f.id in ("list", "tuple") and len(n.args) == 1 and not n.keywords and isinstance(n.args[0], (ast.Tuple, ast.List)) \
                and not any(isinstance(e, ast.Starred) for e in n.args[0].elts):
            cls_ = ast.List if f.id == "list" else ast.Tuple
            return ast.copy_location(cls_(elts=list(n.args[0].elts), ctx=ast.Load()), n)
        # keyword spelling of the leading positional parameters of a few numpy functions: np.linspace(a, b, num=n) -> np.linspace(a, b, n)
        if isinstance(f, ast.Attribute) and isinstance(f.value, ast.Name) and f.value.id in ("np", "numpy") and f.attr in _NP_POSITIONAL and n.keywords:
            sig = _NP_POSITIONAL[f.attr]
            args, kws = list(n.args), list(n.keywords)
            while len(args) < len(sig) and not any(isinstance(a_, ast.Starred) for a_ in args):
                nxt = [k_ for k_ in kws if k_.arg == sig[len(args)]]
                if len(nxt) != 1:
                    break
                args.append(nxt[0].value)
                kws.remove(nxt[0])
            if len(args) != len(n.args):
                n = ast.copy_location(ast.Call(func=f, args=args, keywords=kws), n)
        # np.zeros(shape, dtype=float) -> np.zeros(shape): float64 is the default of zeros / ones / empty
        if isinstance(f, ast.Attribute) and isinstance(f.value, ast.Name) and f.value.id in ("np", "numpy") and f.attr in ("zeros", "ones", "empty") and n.keywords:
            kws = [k_ for k_ in n.keywords if not (k_.arg == "dtype" and ast.unparse(k_.value) in ("float", "np.float64", "numpy.float64", "'float64'", "'float'", "np.float_", "np.double"))]
            if len(kws) != len(n.keywords):
                n = ast.copy_location(ast.Call(func=f, args=list(n.args), keywords=kws), n)
        # dict(a, **b) -> {**a, **b}
        if isinstance(f, ast.Name) and f.id == "dict" and len(n.args) == 1 and n.keywords and all(k.arg is None for k in n.keywords):
            return ast.copy_location(ast.Dict(keys=[None] * (1 + len(n.keywords)), values=[n.args[0]] + [k.value for k in n.keywords]), n)
        return n


_NP_POSITIONAL = {"linspace": ("start", "stop", "num"), "arange": ("start", "stop", "step"), "clip": ("a", "a_min", "a_max"), "where": ("condition", "x", "y"),
                  "full": ("shape", "fill_value"), "searchsorted": ("a", "v"), "take": ("a", "indices"), "diff": ("a", "n"), "reshape": ("a", "newshape"),
                  "interp": ("x", "xp", "fp"), "trapz": ("y", "x"), "trapezoid": ("y", "x"), "digitize": ("x", "bins"), "hypot": ("x1", "x2"), "arctan2": ("x1", "x2")}


def canon(node):
    """canonical copy of an expression / statement node"""
    from .core import clone
    new = _Canon().visit(clone(node))
    return ast.fix_missing_locations(new)


def canon_text(x):
    """canonical source text of a node or of a source string (returns the input string if it does not parse)"""
    if isinstance(x, str):
        try:
            tree = ast.parse(x)
        except SyntaxError:
            return x
        if len(tree.body) == 1 and isinstance(tree.body[0], ast.Expr):
            return ast.unparse(_Canon().visit(tree.body[0].value))
        return ast.unparse(_Canon().visit(tree))
    return ast.unparse(canon(x))


class CanonStr(str):
    """Source text of a node that compares equal to any other spelling of the same canonical form."""
    __slots__ = ("_node", "_nospace", "_canon")

    def __new__(cls, text, node=None, nospace=False):
        s = super().__new__(cls, text)
        s._node = node
        s._nospace = nospace
        s._canon = None
        return s

    def canonical(self):
        if self._canon is None:
            try:
                c = canon_text(self._node) if self._node is not None else canon_text(str(self))
            except Exception:
                c = str(self)
            self._canon = c.replace(" ", "") if self._nospace else c
        return self._canon

    def __eq__(self, other):
        if str.__eq__(self, other) is True:
            return True
        if not isinstance(other, str):
            return False
        if isinstance(other, CanonStr):
            oc = other.canonical()
            if self._nospace != other._nospace:
                return self.canonical().replace(" ", "") == oc.replace(" ", "")
            return self.canonical() == oc
        oc = canon_text(str(other))
        if self._nospace:
            return self.canonical() == oc.replace(" ", "") or self.canonical() == str(other)
        return self.canonical() == oc

    def __ne__(self, other):
        return not self.__eq__(other)

    __hash__ = str.__hash__

    def replace(self, old, new, *a):
        r = str.replace(self, old, new, *a)
        if old == " " and new == "":
            return CanonStr(r, self._node, nospace=True)
        return r
