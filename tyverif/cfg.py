"""Statement-level control-flow graph with exceptional edges, plus reaching definitions.

Node = (statement, copy-tag).  Compound statements are represented by their header
(the evaluation of the test / iterator / context expression).  ``finally`` bodies are
copied once per continuation kind (normal, exception, return, break, continue), so a path
through a finally block continues where it came from.

Edges carry a label: 'n' fall-through, 'T'/'F' branch outcome, 'exc' exception raised by the
source statement, 'gen' GeneratorExit/throw delivered at a yield, 'ret', 'brk', 'cont', 'loop'.
"""
import ast
from .core import AnalysisError, walk_no_nested, dotted

ENTRY, EXIT, RAISE = "ENTRY", "EXIT", "RAISE"

_CATCH_ALL = {"BaseException"}
_CATCH_EXC = {"Exception", "BaseException"}


def may_raise(st):
    """Can evaluating the header of this statement raise?  (conservative, syntactic)"""
    if isinstance(st, (ast.Raise, ast.Assert)):
        return True
    if isinstance(st, (ast.Pass, ast.Break, ast.Continue, ast.Global, ast.Nonlocal)):
        return False
    if isinstance(st, (ast.FunctionDef, ast.AsyncFunctionDef, ast.ClassDef)):
        return False
    if isinstance(st, (ast.Import, ast.ImportFrom)):
        return True
    parts = _header_exprs(st)
    for e in parts:
        for n in walk_no_nested(e):
            if isinstance(n, (ast.Call, ast.Subscript, ast.BinOp, ast.Attribute, ast.Compare,
                              ast.Await, ast.Yield, ast.YieldFrom, ast.UnaryOp, ast.Starred)):
                if isinstance(n, ast.UnaryOp) and isinstance(n.op, ast.Not):
                    continue
                if isinstance(n, ast.Compare) and all(isinstance(o, (ast.Is, ast.IsNot)) for o in n.ops):
                    continue
                return True
    if isinstance(st, ast.Delete):
        return True
    return False


def _header_exprs(st):
    if isinstance(st, (ast.If, ast.While)):
        return [st.test]
    if isinstance(st, (ast.For, ast.AsyncFor)):
        return [st.iter, st.target]
    if isinstance(st, (ast.With, ast.AsyncWith)):
        return [i.context_expr for i in st.items]
    if isinstance(st, ast.Try):
        return []
    if isinstance(st, ast.Return):
        return [st.value] if st.value is not None else []
    if isinstance(st, ast.Expr):
        return [st.value]
    if isinstance(st, ast.Assign):
        return [st.value] + list(st.targets)
    if isinstance(st, ast.AugAssign):
        return [st.value, st.target]
    if isinstance(st, ast.AnnAssign):
        return ([st.value] if st.value is not None else []) + [st.target]
    if isinstance(st, ast.Delete):
        return list(st.targets)
    return [st] if isinstance(st, ast.expr) else []


def has_yield(st):
    for e in _header_exprs(st):
        for n in walk_no_nested(e):
            if isinstance(n, (ast.Yield, ast.YieldFrom)):
                return True
    return False


class K:
    """Continuations: where control goes on each kind of exit."""
    __slots__ = ("next", "ret", "exc", "gen", "brk", "cont")

    def __init__(self, next, ret, exc, gen, brk=None, cont=None):
        self.next, self.ret, self.exc, self.gen, self.brk, self.cont = next, ret, exc, gen, brk, cont

    def with_(self, **kw):
        k = K(self.next, self.ret, self.exc, self.gen, self.brk, self.cont)
        for a, v in kw.items():
            setattr(k, a, v)
        return k


class CFG:
    def __init__(self, fnode):
        self.fnode = fnode
        self.succ = {ENTRY: [], EXIT: [], RAISE: []}   # node -> [(label, node)]
        self.stmt_of = {}                                # node -> ast stmt
        self.ids_of = {}                                 # id(stmt) -> [node]
        self._tag = 0
        body = fnode.body
        k = K(EXIT, EXIT, RAISE, RAISE)
        first = self._seq(body, k, "")
        self._edge(ENTRY, "n", first)
        self.pred = {}
        for a, outs in self.succ.items():
            for lab, b in outs:
                self.pred.setdefault(b, []).append((lab, a))

    # -- construction ---------------------------------------------------------
    def _new(self, st, tag):
        nid = (id(st), tag)
        if nid not in self.succ:
            self.succ[nid] = []
            self.stmt_of[nid] = st
            self.ids_of.setdefault(id(st), []).append(nid)
        return nid

    def _edge(self, a, lab, b):
        if b is None:
            raise AnalysisError("control transfer outside a loop")
        if (lab, b) not in self.succ[a]:
            self.succ[a].append((lab, b))

    def _seq(self, stmts, k, tag):
        """Build a statement list; return entry node of the list (k.next if empty)."""
        nxt = k.next
        for st in reversed(stmts):
            nxt = self._stmt(st, k.with_(next=nxt), tag)
        return nxt

    def _raise_edges(self, nid, st, k):
        if may_raise(st):
            self._edge(nid, "exc", k.exc)
        if has_yield(st):
            self._edge(nid, "gen", k.gen)

    def _stmt(self, st, k, tag):
        nid = self._new(st, tag)
        if isinstance(st, ast.If):
            self._raise_edges(nid, st, k)
            self._edge(nid, "T", self._seq(st.body, k, tag))
            self._edge(nid, "F", self._seq(st.orelse, k, tag))
        elif isinstance(st, (ast.While, ast.For, ast.AsyncFor)):
            self._raise_edges(nid, st, k)
            after_else = self._seq(st.orelse, k, tag)
            body = self._seq(st.body, k.with_(next=nid, brk=k.next, cont=nid), tag)
            self._edge(nid, "T", body)
            infinite = isinstance(st, ast.While) and isinstance(st.test, ast.Constant) and st.test.value
            if not infinite:
                self._edge(nid, "F", after_else)
        elif isinstance(st, (ast.With, ast.AsyncWith)):
            self._raise_edges(nid, st, k)
            self._edge(nid, "n", self._seq(st.body, k, tag))
        elif isinstance(st, ast.Try):
            self._try(nid, st, k, tag)
        elif isinstance(st, ast.Return):
            self._raise_edges(nid, st, k)
            self._edge(nid, "ret", k.ret)
        elif isinstance(st, ast.Raise):
            self._edge(nid, "exc", k.exc)
        elif isinstance(st, ast.Break):
            self._edge(nid, "brk", k.brk)
        elif isinstance(st, ast.Continue):
            self._edge(nid, "cont", k.cont)
        elif isinstance(st, (ast.Expr, ast.Assign, ast.AugAssign, ast.AnnAssign, ast.Pass, ast.Delete,
                             ast.Assert, ast.Import, ast.ImportFrom, ast.Global, ast.Nonlocal,
                             ast.FunctionDef, ast.AsyncFunctionDef, ast.ClassDef)):
            self._raise_edges(nid, st, k)
            self._edge(nid, "n", k.next)
        else:
            raise AnalysisError("statement kind %s not supported by the CFG builder (line %d)" % (
                type(st).__name__, st.lineno))
        return nid

    def _try(self, nid, st, k, tag):
        fin = st.finalbody

        def through_finally(target, kind):
            """entry node of a copy of the finally body that continues to `target`."""
            if not fin or target is None:
                return target
            self._tag += 1
            t = "%s/F%d%s" % (tag, self._tag, kind)
            # inside the finally copy: normal completion continues to target; an exception
            # raised inside it propagates outward.
            return self._seq(fin, K(target, k.ret, k.exc, k.gen, k.brk, k.cont), t)

        k_after = through_finally(k.next, "n")
        k_ret = through_finally(k.ret, "r")
        k_exc = through_finally(k.exc, "x")
        k_gen = through_finally(k.gen, "g")
        k_brk = through_finally(k.brk, "b") if k.brk is not None else None
        k_cont = through_finally(k.cont, "c") if k.cont is not None else None

        # handlers
        h_entries = []
        catches_exception = False
        catches_all = False
        for h in st.handlers:
            hk = K(k_after, k_ret, k_exc, k_gen, k_brk, k_cont)
            hid = self._new(h, tag)
            self._edge(hid, "n", self._seq(h.body, hk, tag))
            h_entries.append(hid)
            names = set()
            if h.type is None:
                catches_all = catches_exception = True
            else:
                ts = h.type.elts if isinstance(h.type, ast.Tuple) else [h.type]
                for t in ts:
                    d = dotted(t)
                    names.add(d.split(".")[-1] if d else "?")
                if names & _CATCH_ALL:
                    catches_all = catches_exception = True
                elif names & _CATCH_EXC:
                    catches_exception = True
        # where an exception raised in the try body goes
        self._tag += 1
        disp = ("dispatch", id(st), tag)
        self.succ[disp] = []
        self.stmt_of[disp] = st
        for hid in h_entries:
            self._edge(disp, "exc", hid)
        if not catches_exception:
            self._edge(disp, "exc", k_exc)
        gdisp = ("gdispatch", id(st), tag)
        self.succ[gdisp] = []
        self.stmt_of[gdisp] = st
        if catches_all:
            for hid in h_entries:
                self._edge(gdisp, "gen", hid)
        else:
            self._edge(gdisp, "gen", k_gen)
            # a bare/BaseException handler is the only one to see GeneratorExit; a thrown
            # ordinary exception at a yield is covered by the 'exc' edge of that statement.
        else_entry = self._seq(st.orelse, K(k_after, k_ret, k_exc, k_gen, k_brk, k_cont), tag)
        body_k = K(else_entry, k_ret, disp, gdisp, k_brk, k_cont)
        self._edge(nid, "n", self._seq(st.body, body_k, tag))

    # -- queries --------------------------------------------------------------
    def nodes(self, st):
        return list(self.ids_of.get(id(st), []))

    def reach(self, srcs, avoid=(), skip_labels=(), include_src=False):
        """Nodes reachable from srcs along edges, never entering a node in `avoid`."""
        avoid = set(avoid)
        seen = set()
        todo = []
        for s in srcs:
            if include_src:
                if s not in avoid:
                    seen.add(s)
            todo.append(s)
        while todo:
            a = todo.pop()
            for lab, b in self.succ.get(a, []):
                if lab in skip_labels or b in avoid or b in seen:
                    continue
                seen.add(b)
                todo.append(b)
        return seen

    def reach_from_edges(self, edges, avoid=()):
        """Reachability starting from specific out-edges [(node,label)] of nodes."""
        starts = []
        for a, lab in edges:
            for l2, b in self.succ.get(a, []):
                if l2 == lab:
                    starts.append(b)
        avoid = set(avoid)
        seen = set(s for s in starts if s not in avoid)
        todo = list(seen)
        while todo:
            a = todo.pop()
            for lab, b in self.succ.get(a, []):
                if b in avoid or b in seen:
                    continue
                seen.add(b)
                todo.append(b)
        return seen

    def can_reach_avoiding(self, srcs, dst, avoid):
        r = self.reach(srcs, avoid=avoid)
        return dst in r

    def dominated_by(self, node, doms):
        """True iff every path ENTRY -> node passes through a node in `doms`."""
        if node in doms:
            return True
        return node not in self.reach([ENTRY], avoid=doms)

    def stmt_nodes(self):
        return [n for n in self.succ if n not in (ENTRY, EXIT, RAISE) and n[0] not in ("dispatch", "gdispatch")]

    def describe(self, n):
        if n in (ENTRY, EXIT, RAISE):
            return n
        st = self.stmt_of[n]
        return "L%d" % getattr(st, "lineno", 0)

    # -- reaching definitions -------------------------------------------------
    def reaching_defs(self):
        """node -> {name: frozenset(def nodes)} holding *before* the node executes.
        Definitions: assignment targets (names only), for-targets, with-as, except-as,
        imports, aug-assign; parameters are defined at ENTRY."""
        gen = {}
        for n in self.succ:
            if n in (ENTRY, EXIT, RAISE) or n[0] in ("dispatch", "gdispatch"):
                gen[n] = ()
            else:
                gen[n] = stmt_defs(self.stmt_of[n])
        a = self.fnode.args
        params = [x.arg for x in a.posonlyargs + a.args + a.kwonlyargs]
        if a.vararg:
            params.append(a.vararg.arg)
        if a.kwarg:
            params.append(a.kwarg.arg)
        in_state = {n: {} for n in self.succ}
        out_state = {n: {} for n in self.succ}
        out_state[ENTRY] = {p: frozenset([ENTRY]) for p in params}
        order = list(self.succ)
        changed = True
        while changed:
            changed = False
            for n in order:
                if n == ENTRY:
                    continue
                new_in = {}
                for lab, a_ in self.pred.get(n, []):
                    srcs = [out_state[a_]]
                    if lab in ("exc", "gen"):
                        # the exception may have been raised before the binding took place
                        srcs.append(in_state[a_])
                    for src in srcs:
                        for name, ds in src.items():
                            old = new_in.get(name)
                            new_in[name] = ds if old is None else (old | ds)
                if new_in != in_state[n]:
                    in_state[n] = new_in
                    changed = True
                out = dict(new_in)
                for name in gen[n]:
                    out[name] = frozenset([n])
                if out != out_state[n]:
                    out_state[n] = out
                    changed = True
        self._in_state = in_state
        return in_state


def stmt_defs(st):
    """Names (re)bound by the header of a statement."""
    names = set()

    def targets(t):
        if isinstance(t, ast.Name):
            names.add(t.id)
        elif isinstance(t, (ast.Tuple, ast.List)):
            for e in t.elts:
                targets(e)
        elif isinstance(t, ast.Starred):
            targets(t.value)

    if isinstance(st, ast.Assign):
        for t in st.targets:
            targets(t)
    elif isinstance(st, (ast.AugAssign, ast.AnnAssign)):
        targets(st.target)
    elif isinstance(st, (ast.For, ast.AsyncFor)):
        targets(st.target)
    elif isinstance(st, (ast.With, ast.AsyncWith)):
        for i in st.items:
            if i.optional_vars is not None:
                targets(i.optional_vars)
    elif isinstance(st, ast.ExceptHandler):
        if st.name:
            names.add(st.name)
    elif isinstance(st, (ast.Import, ast.ImportFrom)):
        for a in st.names:
            names.add((a.asname or a.name).split(".")[0])
    elif isinstance(st, (ast.FunctionDef, ast.AsyncFunctionDef, ast.ClassDef)):
        names.add(st.name)
    for e in _header_exprs(st) if not isinstance(st, ast.ExceptHandler) else []:
        for n in walk_no_nested(e):
            if isinstance(n, ast.NamedExpr) and isinstance(n.target, ast.Name):
                names.add(n.target.id)
    return names


def all_stmts(fnode):
    """Every statement of a function in source order (not nested defs)."""
    out = []

    def rec(body):
        for st in body:
            out.append(st)
            for fld in ("body", "orelse", "finalbody"):
                sub = getattr(st, fld, None)
                if isinstance(st, (ast.FunctionDef, ast.AsyncFunctionDef, ast.ClassDef)):
                    break
                if sub:
                    rec(sub)
            if isinstance(st, ast.Try):
                for h in st.handlers:
                    rec(h.body)
    rec(fnode.body)
    return out


def stmt_before(fnode, a, b):
    """statement a comes before statement b in the source order of the function (positions, not line numbers:
    inlined code keeps the line numbers of where it came from)"""
    pos = {id(x): i for i, x in enumerate(all_stmts(fnode))}
    if id(a) not in pos or id(b) not in pos:
        return getattr(a, "lineno", 0) < getattr(b, "lineno", 0)
    return pos[id(a)] < pos[id(b)]
