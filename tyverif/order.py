"""Order-type models: interpret comparison predicates read from the AST over all weak
orderings (or a stated integer box) of their symbols and compare with a specification.

The predicate class is checked syntactically: comparisons, and/or/not, & | ~ on booleans,
min/max/abs, + and - (of symbols and integer constants), conditional expressions, tuples
and constant subscripts of tuples.  Anything else raises AnalysisError (exit 2) - it is
never guessed.
"""
import ast
import itertools
from .core import AnalysisError, norm, dotted


class Interp:
    """Evaluate an expression under `env`:  normalised-source-text -> value.

    Lookups try the whole expression text first, so `intervals[:, 0]` or `node.center_point`
    can be bound as symbols.  `funcs` maps callee text (last dotted component) to Python
    callables implementing an already-extracted predicate (composition across functions).
    """

    def __init__(self, env, funcs=None, strict=True):
        self.env = env
        self.funcs = funcs or {}
        self.pure_comparison = True   # no +/- arithmetic met
        self.constants = set()

    def ev(self, n):
        key = norm(n)
        if key in self.env:
            return self.env[key]
        if isinstance(n, ast.Constant):
            if isinstance(n.value, bool) or n.value is None:
                return n.value
            if isinstance(n.value, int):
                self.constants.add(n.value)
                return n.value
            if isinstance(n.value, float) and n.value == int(n.value):
                self.constants.add(int(n.value))
                return int(n.value)
            raise AnalysisError("constant %r outside the order-model class" % (n.value,))
        if isinstance(n, ast.Compare):
            left = self.ev(n.left)
            res = True
            for op, right in zip(n.ops, n.comparators):
                r = self.ev(right)
                res = res and self._cmp(op, left, r)
                left = r
            return res
        if isinstance(n, ast.BoolOp):
            if isinstance(n.op, ast.And):
                v = True
                for x in n.values:
                    v = self.ev(x)
                    if not v:
                        return v
                return v
            v = False
            for x in n.values:
                v = self.ev(x)
                if v:
                    return v
            return v
        if isinstance(n, ast.UnaryOp):
            v = self.ev(n.operand)
            if isinstance(n.op, (ast.Not, ast.Invert)):
                if not isinstance(v, bool) and isinstance(n.op, ast.Invert):
                    raise AnalysisError("~ on a non-boolean")
                return not v
            if isinstance(n.op, ast.USub):
                self.pure_comparison = False
                return -v
        if isinstance(n, ast.BinOp):
            l, r = self.ev(n.left), self.ev(n.right)
            if isinstance(n.op, (ast.BitAnd, ast.Mult)) and isinstance(l, bool) and isinstance(r, bool):
                return l and r
            if isinstance(n.op, (ast.BitOr,)) and isinstance(l, bool) and isinstance(r, bool):
                return l or r
            if isinstance(n.op, ast.Add) and isinstance(l, bool) and isinstance(r, bool):
                return l or r
            if isinstance(n.op, ast.Add):
                self.pure_comparison = False
                return l + r
            if isinstance(n.op, ast.Sub):
                self.pure_comparison = False
                return l - r
            raise AnalysisError("operator %s outside the order-model class: %s" % (type(n.op).__name__, norm(n)))
        if isinstance(n, ast.IfExp):
            return self.ev(n.body) if self.ev(n.test) else self.ev(n.orelse)
        if isinstance(n, (ast.Tuple, ast.List)):
            return tuple(self.ev(e) for e in n.elts)
        if isinstance(n, ast.Subscript):
            base = self.ev(n.value)
            idx = n.slice
            if isinstance(base, tuple) and isinstance(idx, ast.Constant) and isinstance(idx.value, int):
                if not -len(base) <= idx.value < len(base):
                    raise AnalysisError("subscript %s out of range for a %d-tuple" % (norm(n), len(base)))
                return base[idx.value]
            raise AnalysisError("subscript outside the order-model class: %s" % norm(n))
        if isinstance(n, ast.Call):
            d = dotted(n.func)
            last = d.split(".")[-1] if d else None
            if n.keywords and last not in self.funcs:
                raise AnalysisError("keyword call outside the order-model class: %s" % norm(n))
            if last in self.funcs:
                return self.funcs[last](*[self.ev(a) for a in n.args])
            if last in ("max", "maximum", "min", "minimum") and n.args:
                vals = [self.ev(a) for a in n.args]
                if len(vals) == 1 and isinstance(vals[0], tuple):
                    vals = list(vals[0])
                return max(vals) if last.startswith("max") else min(vals)
            if last in ("abs", "fabs", "absolute") and len(n.args) == 1:
                self.pure_comparison = False
                return abs(self.ev(n.args[0]))
            if last in ("bool", "any", "all", "logical_and", "logical_or", "logical_not", "isinstance"):
                vals = [self.ev(a) for a in n.args]
                if last == "logical_and":
                    return vals[0] and vals[1]
                if last == "logical_or":
                    return vals[0] or vals[1]
                if last == "logical_not":
                    return not vals[0]
                if last in ("bool", "any", "all") and len(vals) == 1:
                    return bool(vals[0])
            raise AnalysisError("call outside the order-model class: %s" % norm(n))
        raise AnalysisError("expression outside the order-model class: %s" % norm(n))

    @staticmethod
    def _cmp(op, a, b):
        if isinstance(op, ast.Lt):
            return a < b
        if isinstance(op, ast.LtE):
            return a <= b
        if isinstance(op, ast.Gt):
            return a > b
        if isinstance(op, ast.GtE):
            return a >= b
        if isinstance(op, ast.Eq):
            return a == b
        if isinstance(op, ast.NotEq):
            return a != b
        if isinstance(op, ast.Is):
            return a is b
        if isinstance(op, ast.IsNot):
            return a is not b
        raise AnalysisError("comparison operator outside the order-model class")


def weak_orderings(k):
    """All weak orderings of k symbols as value tuples in {0..k-1}^k whose value set is an
    initial segment {0..m} (canonical representatives: one per order type)."""
    for vals in itertools.product(range(k), repeat=k):
        s = set(vals)
        if s == set(range(len(s))):
            yield vals


def box(k, b):
    return itertools.product(range(b + 1), repeat=k)


class Model:
    """Compare an extracted predicate with a specification over a finite abstract domain."""

    def __init__(self, symbols, domain="orderings", bound=None, constraint=None):
        self.symbols = list(symbols)
        self.domain = domain
        self.bound = bound
        self.constraint = constraint
        self.cases = 0
        self.nontrivial = 0

    def assignments(self):
        k = len(self.symbols)
        it = weak_orderings(k) if self.domain == "orderings" else box(k, self.bound)
        for vals in it:
            a = dict(zip(self.symbols, vals))
            if self.constraint is not None and not self.constraint(a):
                continue
            yield a

    def compare(self, extracted, spec, mode="equiv"):
        """extracted, spec: functions of the assignment dict.  mode: 'equiv' (extracted <=> spec)
        or 'implies' (spec => extracted).  Returns (ok, witness, stats)."""
        seen_true = seen_false = 0
        for a in self.assignments():
            self.cases += 1
            e = bool(extracted(a))
            s = bool(spec(a))
            if s:
                seen_true += 1
            else:
                seen_false += 1
            bad = (e != s) if mode == "equiv" else (s and not e)
            if bad:
                return False, {"assignment": a, "extracted": e, "spec": s}, self.stats(seen_true, seen_false)
        return True, None, self.stats(seen_true, seen_false)

    def stats(self, t, f):
        return {"symbols": self.symbols, "domain": self.domain if self.domain == "orderings" else "box 0..%d" % self.bound,
                "cases": self.cases, "spec_true": t, "spec_false": f}


class _Return(Exception):
    def __init__(self, value):
        self.value = value


class Raised(Exception):
    """The interpreted code executes a `raise`."""


def eval_block(stmts, interp):
    """Interpret a straight-line/branching block (Assign to names, If, Return, Raise, Pass,
    doc strings) with `interp` (its env is updated).  Loops etc. are outside the class."""
    for st in stmts:
        if isinstance(st, ast.Expr) and isinstance(st.value, ast.Constant):
            continue
        if isinstance(st, ast.Pass):
            continue
        if isinstance(st, ast.Assign) and len(st.targets) == 1:
            v = interp.ev(st.value)
            _bind(st.targets[0], v, interp)
            continue
        if isinstance(st, ast.AugAssign) and isinstance(st.target, ast.Name) and isinstance(st.op, (ast.Add, ast.Sub)):
            cur = interp.ev(st.target)
            v = interp.ev(st.value)
            interp.pure_comparison = False
            interp.env[st.target.id] = cur + v if isinstance(st.op, ast.Add) else cur - v
            continue
        if isinstance(st, ast.If):
            if interp.ev(st.test):
                eval_block(st.body, interp)
            else:
                eval_block(st.orelse, interp)
            continue
        if isinstance(st, ast.Return):
            raise _Return(interp.ev(st.value) if st.value is not None else None)
        if isinstance(st, ast.Raise):
            raise Raised()
        raise AnalysisError("statement outside the order-model class: %s" % norm(st)[:80])


def _bind(target, v, interp):
    if isinstance(target, ast.Name):
        interp.env[target.id] = v
    elif isinstance(target, (ast.Tuple, ast.List)) and isinstance(v, tuple) and len(v) == len(target.elts):
        for t, x in zip(target.elts, v):
            _bind(t, x, interp)
    else:
        raise AnalysisError("assignment target outside the order-model class: %s" % norm(target))


def eval_function(func, args, funcs=None, env=None):
    """Interpret `func` (core.Func) on abstract argument values (ints / tuples of ints)."""
    params = func.params
    if params and params[0] in ("self", "cls") and not func.is_static:
        params = params[1:]
    if len(args) > len(params):
        raise AnalysisError("too many arguments for %s" % func.qualname)
    e = dict(env or {})
    e.update(zip(params, args))
    it = Interp(e, funcs)
    try:
        eval_block(func.body, it)
    except _Return as r:
        return r.value
    return None
