"""C17 - optimal-estimation matrices satisfy their defining identities.

The return terms of the five functions are read from the AST and evaluated over generic
symbolic matrices (K: m x n, S_a: n x n symmetric, S_y: m x m symmetric) for
(m, n) in {(2,1), (1,2), (2,2)}; every entry is compared with the specification as a rational
function (exact).  An ill-typed product is reported as such.  Conditioning, definiteness,
eigenvalue bounds and limits are not decided.
"""
import ast
import sympy as sp
from ..core import AnalysisError, norm, dotted, calls_in, walk_no_nested
from ..alg import Sym, Unsupported, PathRaised, ShapeError
from sympy.matrices.exceptions import ShapeError as SympyShapeError

COMMON = "typhon/retrieval/oem/common.py"
ERROR = "typhon/retrieval/oem/error.py"
SHAPES = [(2, 1), (1, 2), (2, 2)]
EXPECT = {"C17.S": 1, "C17.G": 1, "C17.A": 1, "C17.err": 2, "C17.pure": 6}


def generic(m, n):
    K = sp.Matrix(m, n, lambda i, j: sp.Symbol("k%d%d" % (i, j), real=True))
    Sa = sp.Matrix(n, n, lambda i, j: sp.Symbol("a%d%d" % (min(i, j), max(i, j)), real=True))
    Sy = sp.Matrix(m, m, lambda i, j: sp.Symbol("y%d%d" % (min(i, j), max(i, j)), real=True))
    return K, Sa, Sy


def spec_S(K, Sa, Sy):
    return (K.T * Sy.inv() * K + Sa.inv()).inv()


def entries_equal(A, B):
    if not isinstance(A, sp.MatrixBase) or not isinstance(B, sp.MatrixBase):
        return False, "not a matrix: %s" % type(A).__name__
    if A.shape != B.shape:
        return False, "shape %s instead of %s" % (A.shape, B.shape)
    for i in range(A.rows):
        for j in range(A.cols):
            d = sp.cancel(sp.together(A[i, j] - B[i, j]))
            if d != 0:
                return False, "entry [%d,%d] differs by %s" % (i, j, str(sp.factor(d))[:160])
    return True, ""


APPROX = ("allclose", "isclose", "array_equal")


def check(ctx, rid, rel, fname, make_args, spec, what):
    ctx.rule(rid, "T5 (generic-matrix image)", what)
    f = ctx.func(rel, fname)
    fact = []
    ok_all = True
    wit = None
    ncases = 0
    shapes = SHAPES + ([(3, 1), (1, 3)] if ctx.tier == "thorough" else [])
    for m, n in shapes:
        K, Sa, Sy = generic(m, n)
        args = make_args(K, Sa, Sy, m, n)
        ev = Sym(ctx.repo)
        try:
            paths = ev.paths(rel, fname, *args)
        except (SympyShapeError, ShapeError) as e:
            ok_all = False
            wit = {"shape (m, n)": [m, n], "error": "ill-typed matrix expression: %s" % e}
            break
        except Unsupported as e:
            raise AnalysisError("%s: %s" % (fname, e))
        want = spec(K, Sa, Sy, *args[3:])
        for trace, val in paths:
            ncases += 1
            if val is PathRaised:
                continue
            okp, why = entries_equal(val, want)
            if not okp:
                exact_guard = [t for t, _ in trace if not any(a in t for a in APPROX)]
                if trace and exact_guard:
                    raise AnalysisError("%s differs from the specification on the path %s, whose condition is opaque" % (fname, trace))
                ok_all = False
                wit = {"shape (m, n)": [m, n], "why": why,
                       "path": ["%s -> %s" % t for t in trace] or "straight line"}
                break
        if not ok_all:
            break
    ctx.models.append({"rule": rid, "identity": fname, "cases": ncases, "shapes": SHAPES, "verdict": ok_all})
    rets = [norm(s.value) for s in walk_no_nested(f.node) if isinstance(s, ast.Return)]
    ctx.ob(fname, ok_all, "return %s" % "; ".join(rets), what + " - entrywise over generic symmetric matrices, shapes %s" % SHAPES,
           node=f.node, func=f, witness=wit)


def rule_pure(ctx):
    ctx.rule("C17.pure", "T2", "the OEM functions are pure functions of their arguments (no module state, no identity-keyed caches)")
    # the inverse the formulas are written with: an imported inv / pinv - not a wrapper that lets LAPACK overwrite its argument (S_a and S_y are
    # the caller's arrays; Fortran-ordered ones are destroyed in place and inverted again within one call)
    for rel in (COMMON, ERROR):
        mod = ctx.mod(rel)
        for st in mod.tree.body:
            if isinstance(st, ast.Assign) and any(isinstance(t, ast.Name) and t.id in ("inv", "pinv", "solve") for t in st.targets):
                kws = {k.arg: str(norm(k.value)) for c_ in ast.walk(st.value) if isinstance(c_, ast.Call) for k in c_.keywords}
                over = [k_ for k_, v_ in kws.items() if k_ in ("overwrite_a", "overwrite_b") and v_ == "True"]
                if not over and not any(k_.startswith("overwrite") for k_ in kws):
                    raise AnalysisError("%s: module-level re-definition %s of the inverse not understood" % (rel, norm(st)[:80]))
                ctx.ob("%s.inv" % rel.split("/")[-1], not over, "%s" % norm(st)[:120], "the inverse leaves its argument alone (no overwrite_a=True): the covariance matrices are the caller's",
                       node=st, func=next(iter(mod.funcs.values())), witness=None if not over else {"S_y": "np.asfortranarray(...)", "after the call": "overwritten with its LU factors / inverse"})
    bad = []
    node0 = None
    for rel in (COMMON, ERROR):
        mod = ctx.mod(rel)
        globs = set()
        for st in mod.tree.body:
            if isinstance(st, ast.Assign):
                for t in st.targets:
                    if isinstance(t, ast.Name):
                        globs.add(t.id)
        # module-level names that can carry state between calls: mutable containers, names re-bound through `global`,
        # names some function stores into or calls a mutator on (a logger or a numeric constant is not state)
        MUT = ("append", "extend", "insert", "update", "setdefault", "pop", "popitem", "clear", "add", "remove", "discard", "__setitem__")
        stateful = set()
        for st in mod.tree.body:
            if isinstance(st, ast.Assign) and any(isinstance(t, ast.Name) for t in st.targets):
                v = st.value
                if isinstance(v, (ast.Dict, ast.List, ast.Set, ast.ListComp, ast.DictComp, ast.SetComp)) or (
                        isinstance(v, ast.Call) and (dotted(v.func) or "").split(".")[-1] in (
                            "dict", "list", "set", "defaultdict", "OrderedDict", "deque", "Counter", "WeakValueDictionary", "WeakKeyDictionary", "lru_cache", "zeros", "empty")):
                    stateful |= {t.id for t in st.targets if isinstance(t, ast.Name)}
        for f_ in mod.funcs.values():
            for n in walk_no_nested(f_.node):
                if isinstance(n, ast.Global):
                    stateful |= set(n.names)
                if isinstance(n, ast.Call) and isinstance(n.func, ast.Attribute) and n.func.attr in MUT and isinstance(n.func.value, ast.Name) and n.func.value.id in globs:
                    stateful.add(n.func.value.id)
                if isinstance(n, (ast.Subscript, ast.Attribute)) and isinstance(n.ctx, ast.Store):
                    b_ = n
                    while isinstance(b_, (ast.Subscript, ast.Attribute)):
                        b_ = b_.value
                    if isinstance(b_, ast.Name) and b_.id in globs:
                        stateful.add(b_.id)
        for q, f in mod.funcs.items():
            params = set(f.all_params)
            local = set()
            for n in walk_no_nested(f.node):
                if isinstance(n, ast.Name) and isinstance(n.ctx, ast.Store):
                    local.add(n.id)
            for n in walk_no_nested(f.node):
                if isinstance(n, (ast.Global, ast.Nonlocal)):
                    bad.append("%s: %s" % (q, norm(n)))
                    node0 = node0 or n
                if isinstance(n, (ast.Subscript, ast.Attribute)) and isinstance(n.ctx, ast.Store):
                    base = n
                    while isinstance(base, (ast.Subscript, ast.Attribute)):
                        base = base.value
                    if isinstance(base, ast.Name) and base.id in globs and base.id not in params and base.id not in local:
                        bad.append("%s: store into module-level %s" % (q, base.id))
                        node0 = node0 or n
                if isinstance(n, ast.Call) and dotted(n.func) == "id":
                    bad.append("%s: id(...) used (object identity is not a function of the values)" % q)
                    node0 = node0 or n
                if isinstance(n, ast.Name) and isinstance(n.ctx, ast.Load) and n.id in globs and n.id not in params \
                        and n.id not in local and n.id not in mod.funcs and n.id in stateful:
                    bad.append("%s: reads module-level state %s" % (q, n.id))
                    node0 = node0 or n
            for d in f.decorators:
                if "cache" in d:
                    bad.append("%s: decorated with %s" % (q, d))
    f = ctx.func(ERROR, "retrieval_noise")
    ctx.ob("oem.purity", not bad, "state / identity dependence: %s" % (sorted(set(bad)) or "none"),
           "results depend on the argument values only (a cache keyed by id() returns a stale gain after an in-place change)",
           node=node0 or f.node, func=f)


def rule_shapes(ctx):
    """The identities hold for every state dimension n >= 1 and measurement dimension m >= 1.  A matrix product is defined for operands
    of rank >= 1: np.squeeze of an operand turns a vector of length 1 into a 0-d array, `@` then raises for n = 1 (or m = 1)."""
    ctx.rule("C17.shapes", "T1", "no operand of a matrix product is squeezed: dimension 1 stays a vector / a 1 x 1 matrix")
    for rel, name in ((COMMON, "error_covariance_matrix"), (COMMON, "retrieval_gain_matrix"), (COMMON, "averaging_kernel_matrix"),
                      (ERROR, "smoothing_error"), (ERROR, "retrieval_noise")):
        f = ctx.func(rel, name)
        sq = [str(norm(c_))[:50] for c_ in calls_in(f.node, ("squeeze", "item")) ]
        sq += [str(norm(n_))[:50] for n_ in ast.walk(f.node) if isinstance(n_, ast.Subscript) and isinstance(n_.slice, ast.Constant) and n_.slice.value is Ellipsis and False]
        ctx.ob("%s.rank_kept" % name, not sq, "rank-reducing calls: %s" % (sq or "none"),
               "none: with np.squeeze a state (measurement) of dimension 1 becomes 0-dimensional and the product raises ValueError",
               node=f.node, func=f, witness=None if not sq else {"n": 1, "raises": "ValueError: matmul: Input operand does not have enough dimensions"})


def run(ctx):
    S = lambda K, Sa, Sy: spec_S(K, Sa, Sy)
    ctx.attempt(check, ctx, "C17.S", COMMON, "error_covariance_matrix", lambda K, Sa, Sy, m, n: [K, Sa, Sy],
                lambda K, Sa, Sy: S(K, Sa, Sy), "(K^T S_y^-1 K + S_a^-1)^-1")
    ctx.attempt(check, ctx, "C17.G", COMMON, "retrieval_gain_matrix", lambda K, Sa, Sy, m, n: [K, Sa, Sy],
                lambda K, Sa, Sy: S(K, Sa, Sy) * K.T * Sy.inv(), "S K^T S_y^-1  (= S_a K^T (K S_a K^T + S_y)^-1)")
    ctx.attempt(check, ctx, "C17.A", COMMON, "averaging_kernel_matrix", lambda K, Sa, Sy, m, n: [K, Sa, Sy],
                lambda K, Sa, Sy: S(K, Sa, Sy) * K.T * Sy.inv() * K, "G K")

    def args_noise(K, Sa, Sy, m, n):
        e = sp.Matrix(m, 1, lambda i, j: sp.Symbol("e%d" % i, real=True))
        return [K, Sa, Sy, e]
    ctx.attempt(check, ctx, "C17.err", ERROR, "retrieval_noise", args_noise,
                lambda K, Sa, Sy, e: S(K, Sa, Sy) * K.T * Sy.inv() * e, "G e_y")

    def args_smooth(K, Sa, Sy, m, n):
        x = sp.Matrix(n, 1, lambda i, j: sp.Symbol("x%d" % i, real=True))
        xa = sp.Matrix(n, 1, lambda i, j: sp.Symbol("xa%d" % i, real=True))
        A = sp.Matrix(n, n, lambda i, j: sp.Symbol("A%d%d" % (i, j), real=True))
        return [x, xa, A]
    ctx.attempt(check_smooth, ctx, args_smooth)
    ctx.attempt(rule_pure, ctx)
    ctx.attempt(rule_shapes, ctx)
    from ..purity import rule_pure as rule_args
    ctx.attempt(rule_args, ctx, "C17.pure", [(COMMON, "error_covariance_matrix"), (COMMON, "retrieval_gain_matrix"), (COMMON, "averaging_kernel_matrix"),
                                             (ERROR, "smoothing_error"), (ERROR, "retrieval_noise")])


def check_smooth(ctx, make):
    ctx.rule("C17.err", "T5 (generic-matrix image)", "smoothing_error == A (x - x_a)")
    f = ctx.func(ERROR, "smoothing_error")
    ok_all, wit = True, None
    for m, n in SHAPES:
        x, xa, A = make(None, None, None, m, n)
        ev = Sym(ctx.repo)
        try:
            val = ev.call(ERROR, "smoothing_error", x, xa, A)
        except (SympyShapeError, ShapeError) as e:
            ok_all, wit = False, {"n": n, "error": "ill-typed: %s" % e}
            break
        okp, why = entries_equal(val, A * (x - xa))
        if not okp:
            ok_all, wit = False, {"n": n, "why": why}
            break
    rets = [norm(s.value) for s in walk_no_nested(f.node) if isinstance(s, ast.Return)]
    ctx.models.append({"rule": "C17.err", "identity": "smoothing_error", "cases": len(SHAPES), "verdict": ok_all})
    ctx.ob("smoothing_error", ok_all, "return %s" % "; ".join(rets), "A (x - x_a)", node=f.node, func=f, witness=wit)
