"""C19 - retrieval scores behave as proper error measures.

Decided by formula algebra on the element-wise terms read from scores.py: the pinball branches
(T5+T4), the percentage measures' homogeneity / zero / sign / value identities (T5), and the
shape guard (T1).  Reductions over samples (mean / nanmean) are modelled on one sample point
and checked to be symmetric means.
"""
import ast
import sympy as sp
from ..core import AnalysisError, norm, dotted, calls_in, walk_no_nested, enclosing_stmt, parent
from ..alg import Sym, is_zero, Unsupported
from ..flow import lexically_inside, Flow

SCORES = "typhon/retrieval/scores.py"
EXPECT = {"C19.mean": 1, "C19.args": 4, "C19.exact": 5, "C19.pinball": 5, "C19.shapes": 2, "C19.flat": 2, "C19.mape": 6, "C19.bias": 6}


def _elementwise(ctx, fname):
    """Term of the quantity inside the outer mean of a one-line score, as function of (p, t)."""
    f = ctx.func(SCORES, fname)
    rets = [s for s in f.body if isinstance(s, ast.Return)]
    if len(rets) != 1 or any(isinstance(s, (ast.If, ast.For, ast.While, ast.Try)) for s in f.body):
        raise AnalysisError("%s is not straight-line code with a single return" % fname)
    from ..canon import canon
    call = canon(rets[0].value)          # x.mean() and np.mean(x) alike
    red = dotted(call.func) if isinstance(call, ast.Call) else None
    return f, call, red


def percent_rule(ctx, fname, rid, sign_spec):
    ctx.rule(rid, "T5", "%s: degree-0 homogeneous, zero on the diagonal, value p (resp. +-p) for predictions p percent off; "
             "symmetric mean over the samples" % fname)
    f, call, red = _elementwise(ctx, fname)
    ctx.ob("%s.reduction" % fname, red in ("np.mean", "np.nanmean", "numpy.mean", "numpy.nanmean") and len(call.args) == 1
           and not call.keywords, "outer reduction: %s" % red, "a symmetric mean over all samples (np.mean / np.nanmean, no axis/weights)",
           node=call, func=f)
    p, t = sp.symbols("p t", real=True, nonzero=True)
    lam, q = sp.symbols("lam q", positive=True)
    ev = Sym(ctx.repo, elementwise=True)
    term = ev.call(SCORES, fname, p, t)
    cases = []
    # zero on the diagonal
    z = term.subs(p, t)
    v, info = is_zero(z)
    cases.append(("diagonal", v, "value at prediction == truth: %s" % sp.simplify(z), "0", info))
    # homogeneity of degree 0
    h = term.subs({p: lam * p, t: lam * t}, simultaneous=True) - term
    v, info = is_zero(h)
    cases.append(("homogeneous", v, "f(lam p, lam t) - f(p, t) = %s" % sp.simplify(h), "0 (scaling prediction and truth alike changes nothing)", info))
    hn = sp.simplify(term.subs({p: -p, t: -t}, simultaneous=True) - term)
    v, info = is_zero(hn)
    cases.append(("sign", v, "f(-p, -t) - f(p, t) = %s" % hn, "0 (also for a negative common factor / negative truth values)", info))
    # value for p percent too high / too low
    hi = term.subs(p, (1 + q / 100) * t)
    lo = term.subs(p, (1 - q / 100) * t)
    want_hi, want_lo = sign_spec(q)
    v1, i1 = is_zero(sp.simplify(hi - want_hi))
    v2, i2 = is_zero(sp.simplify(sp.refine(lo, sp.Q.positive(100 - q)) - want_lo).subs(q, sp.Rational(7, 2)))
    cases.append(("value+", v1, "prediction = (1+q/100) truth -> %s" % sp.simplify(hi), str(want_hi), i1))
    cases.append(("value-", v2, "prediction = (1-q/100) truth -> %s (at q=7/2)" % sp.simplify(lo.subs(q, sp.Rational(7, 2))), str(want_lo.subs(q, sp.Rational(7, 2))), i2))
    for name, v, fact, oracle, info in cases:
        if v is None:
            raise AnalysisError("%s.%s: identity undecided (%s)" % (fname, name, info))
        ctx.ob("%s.%s" % (fname, name), v, "element term %s; %s" % (sp.simplify(term), fact), oracle, node=call, func=f,
               witness=None if v else info)
        ctx.models.append({"rule": rid, "identity": "%s.%s" % (fname, name), "verdict": bool(v), "cases": 1})


def rule_pinball(ctx):
    ctx.rule("C19.pinball", "T5+T4", "quantile_score: tau*|d| where the estimate is below, (1-tau)*|d| where it is above the observation")
    f = ctx.func(SCORES, "quantile_score")
    ytau, ytest, taus = f.params
    wh = calls_in(f.node, "where")
    rets = [s for s in f.body if isinstance(s, ast.Return)]
    if len(wh) != 1 or len(rets) != 1 or len(wh[0].args) != 3 or wh[0].keywords:
        raise AnalysisError("quantile_score does not return one value built from one np.where(...)")
    e, o, tau = sp.symbols("e o tau", real=True)
    # straight-line locals inlined; reshape/asarray are identities on one element
    env = {}

    def _only_raises(stmts):
        return all(isinstance(s_, (ast.Raise, ast.Pass)) or (isinstance(s_, ast.Expr) and isinstance(s_.value, ast.Constant))
                   or (isinstance(s_, ast.If) and _only_raises(s_.body) and _only_raises(s_.orelse)) for s_ in stmts)

    def _element_identity(name, value):
        """value is `name` seen through reshape / ravel / asarray / atleast_nd / astype(float): the same element"""
        v = value
        for _ in range(6):
            if isinstance(v, ast.Name):
                return v.id == name
            if isinstance(v, ast.Call) and isinstance(v.func, ast.Attribute) and v.func.attr in ("reshape", "ravel", "flatten", "copy", "squeeze") \
                    and not (isinstance(v.func.value, ast.Name) and v.func.value.id in ("np", "numpy")):
                v = v.func.value
                continue
            if isinstance(v, ast.Call) and (dotted(v.func) or "") in ("np.asarray", "np.array", "np.ravel", "np.atleast_1d", "np.atleast_2d", "np.reshape", "np.asanyarray") and v.args:
                v = v.args[0]
                continue
            return False
        return False

    def _take(st):
        # nothing is skipped: what the rule does not read, it does not judge
        if isinstance(st, ast.Assign) and len(st.targets) == 1:
            t_ = st.targets[0]
            pairs = []
            if isinstance(t_, ast.Name):
                pairs = [(t_.id, st.value)]
            elif isinstance(t_, ast.Tuple) and isinstance(st.value, ast.Tuple) and len(t_.elts) == len(st.value.elts) and all(isinstance(e_, ast.Name) for e_ in t_.elts):
                pairs = [(e_.id, v_) for e_, v_ in zip(t_.elts, st.value.elts)]
            else:
                unread.append("assignment `%s`" % norm(st)[:70])
            for nm_, v_ in pairs:
                env[nm_] = v_           # (re-bindings of the arguments are judged by the obligations `taus` and `alignment` below)
        elif isinstance(st, ast.Try):
            for s2 in st.body:
                _take(s2)
            if st.orelse or st.finalbody or not all(_only_raises(h_.body) for h_ in st.handlers):
                unread.append("try statement with handlers that do more than raise")
        elif isinstance(st, ast.If) and _only_raises(st.body) and _only_raises(st.orelse):
            pass
        elif isinstance(st, ast.Return) or (isinstance(st, ast.Expr) and isinstance(st.value, ast.Constant)):
            pass
        else:
            unread.append("statement `%s`" % norm(st)[:70])
    unread = []
    for st in f.body:
        _take(st)
    ev = Sym(ctx.repo, elementwise=True)

    def term(node):
        vals = {ytau: e, ytest: o, taus: tau}

        busy = set()

        def rec(n):
            if isinstance(n, ast.Name) and n.id in vals:
                return vals[n.id]
            if isinstance(n, ast.Name) and n.id in env:
                src = env[n.id]
                if n.id in busy and any(isinstance(x_, ast.Name) and x_.id == n.id for x_ in ast.walk(src)) \
                        and not (isinstance(src, ast.Call) and isinstance(src.func, ast.Attribute) and src.func.attr == "reshape") \
                        and not (isinstance(src, ast.Call) and dotted(src.func) in ("np.asarray", "np.array")):
                    raise Unsupported("%s is re-bound in terms of itself" % n.id)
                busy.add(n.id)
                # x = x.reshape(...) / np.asarray(x): identity on the element
                if isinstance(src, ast.Call) and isinstance(src.func, ast.Attribute) and src.func.attr == "reshape":
                    return rec(src.func.value)
                if isinstance(src, ast.Call) and dotted(src.func) in ("np.asarray", "np.array") and src.args:
                    return rec(src.args[0])
                return rec(src)
            if isinstance(n, ast.Name):
                raise Unsupported("name %s" % n.id)
            if isinstance(n, ast.Constant):
                return sp.nsimplify(n.value)
            if isinstance(n, ast.BinOp):
                from ..alg import _binop
                return _binop(n.op, rec(n.left), rec(n.right))
            if isinstance(n, ast.UnaryOp) and isinstance(n.op, ast.USub):
                return -rec(n.operand)
            if isinstance(n, ast.Call) and dotted(n.func) in ("np.abs", "np.absolute", "abs", "np.fabs") and len(n.args) == 1:
                return sp.Abs(rec(n.args[0]))
            if isinstance(n, ast.Compare) and len(n.ops) == 1:
                rel = {ast.Lt: sp.Lt, ast.LtE: sp.Le, ast.Gt: sp.Gt, ast.GtE: sp.Ge}.get(type(n.ops[0]))
                if rel is None:
                    raise Unsupported(norm(n))
                return rel(rec(n.left), rec(n.comparators[0]))
            if n is wh[0]:
                return sp.Piecewise((rec(n.args[1]), rec(n.args[0])), (rec(n.args[2]), True))
            raise Unsupported(norm(n))
        return rec(node)
    whole = term(rets[0].value)
    d = sp.Symbol("d", positive=True)
    # below: e = o - d ; above: e = o + d ; equal: e = o
    below = {e: o - d}
    above = {e: o + d}
    equal = {e: o}

    def pick(sub):
        v_ = sp.piecewise_fold(whole.subs(sub))
        v_ = sp.simplify(v_)
        if v_.has(sp.Piecewise):
            raise AnalysisError("np.where condition of %s undecided under %s" % (whole, sub))
        return v_
    vb = sp.simplify(pick(below))
    va = sp.simplify(pick(above))
    ve = sp.simplify(pick(equal))
    ctx.ob("quantile_score.below", sp.simplify(vb - tau * d) == 0, "estimate = observation - d  ->  %s" % vb, "tau * d",
           node=wh[0], func=f)
    ctx.ob("quantile_score.above", sp.simplify(va - (1 - tau) * d) == 0, "estimate = observation + d  ->  %s" % va, "(1 - tau) * d",
           node=wh[0], func=f)
    ctx.ob("quantile_score.equal", ve == 0, "estimate = observation  ->  %s" % ve, "0", node=wh[0], func=f)
    # tau is used as given (not cast to the dtype of the estimates, not rounded)
    tv = env.get(taus)

    def flat_of(e):
        """x when e is a flattening of x with the values unchanged: np.ravel(x), np.asarray(x).ravel() / .flatten() / .reshape(-1), np.atleast_1d(x).ravel()"""
        if isinstance(e, ast.Call) and dotted(e.func) in ("np.ravel", "numpy.ravel") and len(e.args) == 1 and not e.keywords:
            return e.args[0]
        if isinstance(e, ast.Call) and isinstance(e.func, ast.Attribute) and (e.func.attr in ("ravel", "flatten") and not e.args
                                                                              or e.func.attr == "reshape" and [norm(a_) for a_ in e.args] in (["-1"], ["(-1,)"])):
            inner = e.func.value
            while isinstance(inner, ast.Call) and dotted(inner.func) in ("np.asarray", "np.array", "np.atleast_1d", "np.asanyarray") and len(inner.args) == 1 and not inner.keywords:
                inner = inner.args[0]
            return inner
        return None
    plain = tv is None or (isinstance(tv, ast.Call) and dotted(tv.func) in ("np.asarray", "np.array", "np.atleast_1d")
                           and len(tv.args) == 1 and norm(tv.args[0]) == taus and not tv.keywords)
    fl = flat_of(tv) if tv is not None else None
    wrong_tau = None
    if tv is not None:
        names_ = [(dotted(c_.func) or (c_.func.attr if isinstance(c_.func, ast.Attribute) else "")).split(".")[-1] for c_ in ast.walk(tv) if isinstance(c_, ast.Call)]
        if any(n_ in ("astype", "sort", "argsort", "flip", "unique", "round", "around", "rint") for n_ in names_) \
                or any(isinstance(c_, ast.Call) and any(k_.arg == "dtype" for k_ in c_.keywords) for c_ in ast.walk(tv)):
            wrong_tau = "the fractions are cast / re-ordered / rounded"
    if not plain and fl is None and wrong_tau is None:
        raise AnalysisError("quantile_score: re-binding taus = %s is not understood" % norm(tv)[:60])
    ok = fl is not None and norm(fl) == taus and wrong_tau is None
    ctx.ob("quantile_score.taus", ok, "taus = %s" % (norm(tv) if tv is not None else taus),
           "the k quantile fractions are flattened (values unchanged, no dtype cast): fraction j multiplies column j also when they are given as a column vector",
           node=tv if tv is not None else f.node, func=f)
    ctx.models.append({"rule": "C19.pinball", "cases": 3, "identity": "three order cases of estimate vs observation"})
    # column j of the estimates stays paired with taus[j], row i with observation i: the arguments are only re-shaped
    REORDER = ("sort", "argsort", "flip", "fliplr", "flipud", "roll", "take", "unique", "partition", "permutation", "shuffle", "msort", "cumsum", "maximum.accumulate", "accumulate")
    bad_al = []
    n_al = 0
    for st in walk_no_nested(f.node):
        if isinstance(st, ast.Assign) and len(st.targets) == 1 and isinstance(st.targets[0], ast.Name) and st.targets[0].id in (ytau, ytest, taus):
            n_al += 1
            v = st.value
            inner = v
            shape_only = False
            while True:
                if isinstance(inner, ast.Call) and isinstance(inner.func, ast.Attribute) and inner.func.attr in ("reshape", "ravel", "flatten", "squeeze", "copy", "astype") \
                        and not (dotted(inner.func) or "").startswith("np."):
                    if inner.func.attr == "astype":
                        break
                    inner = inner.func.value
                    continue
                if isinstance(inner, ast.Call) and (dotted(inner.func) or "") in ("np.asarray", "np.array", "np.atleast_1d", "np.atleast_2d", "np.reshape", "np.ravel", "np.squeeze", "np.asanyarray") and inner.args:
                    inner = inner.args[0]
                    continue
                if isinstance(inner, ast.Subscript) and isinstance(inner.slice, ast.Tuple) and all(
                        (isinstance(x, ast.Slice) and x.lower is None and x.upper is None and x.step is None) or (isinstance(x, ast.Constant) and x.value is None)
                        or norm(x) == "np.newaxis" for x in inner.slice.elts):
                    inner = inner.value          # x[:, None] / x[:, np.newaxis]
                    continue
                break
            if isinstance(inner, ast.Name) and inner.id == st.targets[0].id:
                continue
            names = [(dotted(c.func) or (c.func.attr if isinstance(c.func, ast.Attribute) else "")).split(".")[-1] for c in ast.walk(v) if isinstance(c, ast.Call)]
            steps = [norm(x) for x in ast.walk(v) if isinstance(x, ast.Slice) and x.step is not None]
            if any(nm in REORDER for nm in names) or steps:
                bad_al.append("%s = %s" % (st.targets[0].id, norm(v)[:70]))
            else:
                raise AnalysisError("quantile_score: re-binding `%s = %s` of an argument is not understood" % (st.targets[0].id, norm(v)[:70]))
    ctx.ob("quantile_score.alignment", not bad_al, "re-bindings of the arguments that change the order of their elements: %s (%d re-bindings looked at)" % (bad_al or "none", n_al),
           "the arguments are only re-shaped: column j of y_tau belongs to taus[j], row i to y_test[i]", node=f.node, func=f)
    if unread:
        # nothing is skipped silently: what the reading above stepped over is said (after the obligations it could decide)
        raise AnalysisError("quantile_score: outside the straight-line form the loss is read from: %s" % "; ".join(unread)[:300])


def rule_shapes(ctx):
    ctx.rule("C19.shapes", "T1", "an incompatible y_test shape raises ValueError")
    f = ctx.func(SCORES, "quantile_score")
    ytau, ytest, taus = f.params
    ok = False
    fact = "no reshape of y_test inside a try"
    for st in walk_no_nested(f.node):
        if isinstance(st, ast.Try):
            rs = [c for s in st.body for c in calls_in(s, "reshape") if norm(c.func.value) == ytest]
            if not rs:
                continue
            c = rs[0]
            raises_value = any(isinstance(x, ast.Raise) and x.exc is not None and "ValueError" in norm(x.exc)
                               for h in st.handlers for s in h.body for x in ast.walk(s))
            # the requested shape must pin the number of rows to that of the estimates: (n, 1), n = y_tau rows
            sargs = list(c.args[0].elts) if len(c.args) == 1 and isinstance(c.args[0], (ast.Tuple, ast.List)) else list(c.args)
            sflow = Flow(f)
            shape = [str(norm(sflow.resolve(a, at=c, depth=2, stop=(ytau, ytest, taus)))) for a in sargs]
            rows_of_estimates = ("%s.shape[0]" % ytau, "len(%s)" % ytau, "np.shape(%s)[0]" % ytau)
            if len(shape) == 2 and shape[1] == "1" and shape[0] not in rows_of_estimates and shape[0] not in ("-1",) \
                    and not (len(sargs) == 2 and isinstance(sargs[0], ast.Constant)):
                raise AnalysisError("quantile_score: requested row count %s of y_test not understood" % shape[0])
            pinned = len(shape) == 2 and shape[1] == "1" and shape[0] in rows_of_estimates
            fact = "try: %s.reshape(%s) except -> ValueError: %s" % (ytest, ", ".join(shape), raises_value)
            ok = raises_value and pinned
    # the estimates: reshape(-1, k) silently re-chunks a 2-d array with another row length; a guard has to reject it first
    rflow = Flow(f)
    rs_tau = [c for c in calls_in(f.node, "reshape") if isinstance(c.func, ast.Attribute) and norm(c.func.value) == ytau]
    if not rs_tau:
        raise AnalysisError("quantile_score: the reshape of the estimates to (n, k) was not found")
    rst = enclosing_stmt(rs_tau[0])
    guards = []
    from ..flow import guard_chain
    for rs_ in rflow.stmts:
        if not (isinstance(rs_, ast.Raise) and rs_.exc is not None and "ValueError" in norm(rs_.exc)):
            continue
        chain = guard_chain(rs_)
        tests = [t_ for t_, pol_ in chain if pol_]
        if not tests or len(tests) != len(chain):
            continue
        joined = " and ".join(str(norm(t_)) for t_ in tests)
        if not (("%s.shape" % ytau in joined or "np.shape(%s)" % ytau in joined)
                and any(isinstance(c_, ast.Compare) and isinstance(c_.ops[0], ast.NotEq) for t_ in tests for c_ in ast.walk(t_))):
            continue
        outer = rs_
        while parent(outer) is not f.node:
            outer = parent(outer)
        if isinstance(outer, ast.If) and all(rflow.cfg.dominated_by(n_, set(rflow.cfg.nodes(outer))) for n_ in rflow.cfg.nodes(rst)):
            class _G:
                pass
            g_ = _G()
            g_.test = ast.parse(joined, mode="eval").body
            guards.append(g_)
    ctx.ob("quantile_score.row_guard", bool(guards), "guards before `%s`: %s" % (norm(rst)[:50], [norm(g_.test)[:80] for g_ in guards] or "none"),
           "an estimate array of two or more dimensions whose rows do not have one entry per quantile fraction is rejected with ValueError (reshape(-1, k) would re-chunk it silently)",
           node=rst, func=f, witness=None if guards else {"y_tau.shape": [3, 7], "taus": 3, "y_test": 7, "accepted as": "7 rows of 3 scrambled estimates"})
    ctx.ob("quantile_score.shape_guard", ok, fact,
           "y_test is reshaped to exactly (rows of y_tau, 1) inside a try whose handler raises ValueError "
           "(reshape(-1, 1) would accept any length and broadcast)", node=f.node, func=f)


APPROX = ("isclose", "allclose", "finfo", "spacing", "nextafter")


def rule_exact(ctx):
    ctx.rule("C19.exact", "lint+T2", "the scores use no tolerance and do not modify their arguments")
    bad = []
    node0 = f0 = None
    for name in ("quantile_score", "mean_quantile_score", "mape", "bias"):
        f = ctx.func(SCORES, name)
        for c in calls_in(f.node):
            last = (dotted(c.func) or "").split(".")[-1]
            if last in APPROX:
                bad.append("%s: %s" % (name, norm(c)[:60]))
                node0, f0 = node0 or c, f0 or f
    ctx.ob("scores.no_tolerance", not bad, "tolerance-based constructs: %s" % (bad or "none"),
           "none: the loss is tau|d| resp. (1-tau)|d| for EVERY d != 0 and 0 only for d == 0 (values agreeing to 1e-5 relative are not equal)",
           node=node0 or ctx.func(SCORES, "quantile_score").node, func=f0 or ctx.func(SCORES, "quantile_score"))
    from ..purity import rule_pure
    rule_pure(ctx, "C19.exact", [(SCORES, n) for n in ("quantile_score", "mean_quantile_score", "mape", "bias")],
              "the scores use no tolerance and do not modify their arguments")


def rule_flat(ctx):
    """mape / bias pair element i of the prediction with element i of the truth whatever the layout ((n,), (n,1)): every operand of the
    element-wise expression is flattened.  An operand left as it came broadcasts a column against a flat vector to an n x n matrix."""
    ctx.rule("C19.flat", "T6", "mape / bias: prediction and truth are flattened before they meet element-wise")
    for name in ("mape", "bias"):
        f = ctx.func(SCORES, name)
        flow = Flow(f)
        rets = [s_ for s_ in flow.stmts if isinstance(s_, ast.Return) and s_.value is not None]
        if len(rets) != 1:
            raise AnalysisError("%s: expected a single return" % name)
        params = f.params[:2]

        def is_flat(e, at, depth=0):
            if depth > 6:
                return False
            if isinstance(e, ast.Call) and dotted(e.func) in ("np.ravel", "numpy.ravel") and len(e.args) == 1:
                return True
            if isinstance(e, ast.Call) and isinstance(e.func, ast.Attribute) and (e.func.attr in ("ravel", "flatten") or e.func.attr == "reshape" and [norm(a_) for a_ in e.args] in (["-1"], ["(-1,)"])):
                return True
            if isinstance(e, ast.Call) and (dotted(e.func) or "").split(".")[-1] in ("abs", "absolute", "fabs", "asarray", "float64", "astype") and e.args:
                return is_flat(e.args[0], at, depth + 1)
            if isinstance(e, ast.BinOp):
                # element-wise arithmetic of flat arrays (and numbers) is flat
                sides = [x_ for x_ in (e.left, e.right) if not isinstance(x_, ast.Constant)]
                return bool(sides) and all(is_flat(x_, at, depth + 1) for x_ in sides)
            if isinstance(e, ast.UnaryOp):
                return is_flat(e.operand, at, depth + 1)
            if isinstance(e, ast.Name):
                ds = flow.defs(e.id, at)
                if not ds or "param" in ds:
                    return False
                vals = [flow._def_value(d_, e.id) for d_ in ds]
                return all(v_ is not None and is_flat(v_, d_, depth + 1) for v_, d_ in zip(vals, ds))
            if isinstance(e, ast.Subscript) and isinstance(e.value, (ast.Tuple, ast.List)) and isinstance(e.slice, ast.Constant) and isinstance(e.slice.value, int):
                return is_flat(e.value.elts[e.slice.value], at, depth + 1)
            return False
        leaves = []

        def walk(e):
            if isinstance(e, ast.BinOp):
                walk(e.left)
                walk(e.right)
            elif isinstance(e, ast.UnaryOp):
                walk(e.operand)
            elif isinstance(e, ast.Constant):
                pass
            elif isinstance(e, ast.Call) and (dotted(e.func) or "").split(".")[-1] in ("mean", "nanmean", "abs", "absolute", "fabs", "sum", "nansum") and e.args \
                    and not is_flat(e, rets[0]):
                walk(e.args[0])
            else:
                leaves.append(e)
        from ..canon import canon as _canon
        walk(_canon(rets[0].value))          # x.mean() and np.mean(x) alike
        involved = [l_ for l_ in leaves if any(isinstance(n_, ast.Name) and (n_.id in params or flow.defs(n_.id, rets[0]) not in ([], ["param"]) and n_.id not in ("np",)) for n_ in ast.walk(l_))]
        if not involved:
            raise AnalysisError("%s: operands of the element-wise expression not found" % name)
        notflat = [str(norm(l_))[:40] for l_ in involved if not is_flat(l_, rets[0])]
        ctx.ob("%s.flattened" % name, not notflat, "operands: %s; not flattened: %s" % ([str(norm(l_))[:30] for l_ in involved], notflat or "none"),
               "every array operand is flattened (ravel / flatten / reshape(-1)): a column vector meets a flat vector element by element, not as an n x n matrix",
               node=rets[0], func=f, witness=None if not notflat else {"y_pred.shape": "(n,)", "y_test.shape": "(n, 1)", "perfect prediction": "score != 0"})


def rule_mean(ctx):
    ctx.rule("C19.mean", "T6", "mean_quantile_score = np.nanmean(quantile_score(y_tau, y_test, taus), axis=0): one mean per quantile fraction over the samples")
    f = ctx.func(SCORES, "mean_quantile_score")
    flow = Flow(f)
    rets = [r_ for r_ in flow.stmts if isinstance(r_, ast.Return) and r_.value is not None]
    if len(rets) != 1:
        raise AnalysisError("mean_quantile_score: expected one return")
    from ..canon import canon
    v = flow.resolve(rets[0].value, at=rets[0], depth=4, stop=tuple(f.params))
    v = canon(v) if isinstance(v, ast.Call) else v
    ok = False
    fact = str(norm(v))[:120]
    if isinstance(v, ast.Call) and (dotted(v.func) or "").split(".")[-1] in ("nanmean",) and v.args:
        kw = {k.arg: str(norm(k.value)) for k in v.keywords}
        axis = kw.get("axis", str(norm(v.args[1])) if len(v.args) > 1 else None)
        inner = v.args[0]
        qs = inner if isinstance(inner, ast.Call) and (dotted(inner.func) or "").split(".")[-1] == "quantile_score" else None
        if qs is not None:
            bound = dict(zip(("y_tau", "y_test", "taus"), [str(norm(a_)) for a_ in qs.args]))
            bound.update({k.arg: str(norm(k.value)) for k in qs.keywords if k.arg})
            ok = axis == "0" and [bound.get(n_) for n_ in ("y_tau", "y_test", "taus")] == list(f.params[:3]) and set(kw) <= {"axis"}
        elif any(isinstance(c_, ast.Call) and (dotted(c_.func) or "").split(".")[-1] == "quantile_score" for c_ in ast.walk(inner)):
            ok = False        # something stands between the (n, k) scores and the mean over the samples (squeeze, ravel, reshape ...)
        else:
            raise AnalysisError("mean_quantile_score: the averaged scores %s are not a call of quantile_score" % str(norm(inner))[:60])
    elif not (isinstance(v, ast.Call) and any((dotted(c_.func) or "").split(".")[-1] == "quantile_score" for c_ in ast.walk(v) if isinstance(c_, ast.Call))):
        raise AnalysisError("mean_quantile_score: returned value %s not understood" % fact)
    ctx.ob("mean_quantile_score.reduction", ok, "return %s" % fact,
           "np.nanmean(quantile_score(y_tau, y_test, taus), axis=0) - the (n, k) scores as they come, averaged over axis 0 (a squeeze in between "
           "drops the sample axis of a one-element sample)", node=rets[0], func=f)


def run(ctx):
    ctx.attempt(rule_flat, ctx)
    ctx.attempt(rule_exact, ctx)
    ctx.attempt(rule_pinball, ctx)
    ctx.attempt(rule_shapes, ctx)
    ctx.attempt(rule_mean, ctx)
    ctx.attempt(percent_rule, ctx, "mape", "C19.mape", lambda q: (q, q))
    ctx.attempt(percent_rule, ctx, "bias", "C19.bias", lambda q: (q, -q))
    # the caller's arguments (arrays, filter / fill dictionaries) are not modified: an in-place update makes the next call on the same objects wrong
    from ..purity import rule_pure as _rule_args
    ctx.attempt(_rule_args, ctx, "C19.args", [('typhon/retrieval/scores.py', 'mape'), ('typhon/retrieval/scores.py', 'bias'), ('typhon/retrieval/scores.py', 'quantile_score'), ('typhon/retrieval/scores.py', 'mean_quantile_score')], "the caller's arguments are not modified in place")
