"""C04 - Collocator.collocate finds exactly the point pairs within distance and interval.

Decided clauses (structural): temporal mask strict and applied alike to pairs, intervals and
distances, computed on the NaN-filtered arrays with filtered-space indices (T1+T4+T6); the common
time window never cuts a point that can take part in a pair (T4 implication, bounded box + sign
obligations); NaN filtering and the map back to original indices (T4+T6); build/query roles and
the row swap (T1+T6); bin offsets and bin bounds (T6); emptiness by size (lint); index cache
reuse only for identical coordinates (T1).  sklearn, xarray selection/stacking, and the
equivalence of the two search paths as a whole are not decided.
"""
import ast
import itertools
from ..core import AnalysisError, norm, dotted, calls_in, walk_no_nested, parent, enclosing_stmt, const_value
from ..cfg import ENTRY, EXIT, RAISE
from ..flow import Flow, emptiness_test_kind, conjuncts
from ..order import Interp
from ..algebra_lin import linear_form

COL = "typhon/collocations/collocator.py"
EXPECT = {"C04.thresholds": 6, "C04.empty": 4, "C04.temporal": 6, "C04.window": 4, "C04.nan": 9, "C04.swap": 4, "C04.offsets": 7,
          "C04.cache": 4, "C04.interval": 1, "C04.grid": 1, "C04.answer": 3}


def rule_empty(ctx):
    ctx.rule("C04.empty", "lint", "no .any() emptiness test on pair arrays: the pair (0, 0) is a result")
    for fname in ("collocate", "_create_return", "spatial_search_with_temporal_binning", "spatial_search"):
        f = ctx.func(COL, "Collocator." + fname)
        hits = 0
        for st in walk_no_nested(f.node):
            if isinstance(st, ast.If) and any(isinstance(s, ast.Return) for s in st.body) and "pairs" in norm(st.test):
                k = emptiness_test_kind(st.test)
                if k is None:
                    continue
                hits += 1
                ctx.ob("Collocator.%s.empty_test" % fname, k == "size", "if %s: %s" % (norm(st.test), norm(st.body[-1])[:50]),
                       "a size test - `.any()` is False for the sole pair (0, 0) and turns it into 'no collocations'", node=st, func=f)
        if hits == 0:
            ctx.ob("Collocator.%s.empty_test" % fname, True, "no emptiness special case", "size test or none", node=f.node, func=f)


def rule_temporal(ctx):
    ctx.rule("C04.temporal", "T1+T4+T6", "two-criteria path: |t1 - t2| < max_interval (strict), one mask for pairs, intervals, distances")
    tc = ctx.func(COL, "Collocator._temporal_check")
    pt, st_, mi = tc.params[1], tc.params[2], tc.params[3]
    flow = Flow(tc)
    rets = [s for s in flow.stmts if isinstance(s, ast.Return)]
    if len(rets) != 1 or not isinstance(rets[0].value, ast.Tuple) or len(rets[0].value.elts) != 2:
        raise AnalysisError("_temporal_check does not return (mask, intervals)")
    from ..core import clone as _clone
    gi = ctx.func(COL, "Collocator._get_intervals")
    gi_ret = [s for s in gi.body if isinstance(s, ast.Return)]
    if len(gi.body) != 1 or len(gi_ret) != 1 or len(gi.params) != 2:
        raise AnalysisError("_get_intervals is not a single return expression of two times")

    class _Inline(ast.NodeTransformer):
        """self._get_intervals(a, b) -> its return expression"""
        seen = []

        def visit_Call(self, n):
            n = self.generic_visit(n)
            if (dotted(n.func) or "").split(".")[-1] == "_get_intervals" and len(n.args) == 2 and not n.keywords:
                from ..normalize import _Subst
                self.seen.append([str(norm(a)) for a in n.args])
                return _Subst(dict(zip(gi.params, n.args))).visit(_clone(gi_ret[0].value))
            return n
    inl = _Inline()
    inl.seen = []
    mask_ret = rets[0].value.elts[0]
    mask_e = flow.resolve(mask_ret, at=rets[0], depth=1)
    mask_full = ast.fix_missing_locations(inl.visit(_clone(flow.resolve(mask_ret, at=rets[0], depth=4))))
    iv_e = rets[0].value.elts[1]
    stop = (mask_ret.id,) if isinstance(mask_ret, ast.Name) else ()
    iv_full = ast.fix_missing_locations(inl.visit(_clone(flow.resolve(iv_e, at=rets[0], depth=4, stop=stop))))
    argok = all(sorted(x) == sorted([pt, st_]) for x in inl.seen)
    # unit wrappers of the threshold and the cast of the differences are the identity on the (order model of the) time axis

    class _Unwrap(ast.NodeTransformer):
        def visit_Call(self, n):
            n = self.generic_visit(n)
            if isinstance(n.func, ast.Attribute) and n.func.attr in ("to_timedelta64", "to_numpy", "to_pytimedelta") and not n.args:
                return n.func.value
            if isinstance(n.func, ast.Attribute) and n.func.attr == "astype" and len(n.args) == 1 and isinstance(n.args[0], ast.Constant) \
                    and str(n.args[0].value).startswith("timedelta64"):
                return n.func.value
            if (dotted(n.func) or "").split(".")[-1] in ("Timedelta", "timedelta64", "to_timedelta") and len(n.args) == 1:
                return n.args[0]
            return n
    mask_u = ast.fix_missing_locations(_Unwrap().visit(_clone(mask_full)))
    floored_mask = any(isinstance(c_.args[0], ast.Constant) and "[s]" in str(c_.args[0].value) for c_ in calls_in(mask_full, "astype") if c_.args)
    res = {}
    for t1, t2, m in itertools.product(range(3), repeat=3):
        res[(t1, t2, m)] = bool(Interp({pt: t1, st_: t2, mi: m}).ev(mask_u))
    ok = all(res[k] == (abs(k[0] - k[1]) < k[2]) for k in res) and argok
    ctx.ob("Collocator._temporal_check.mask", ok, "mask = %s, i.e. %s" % (norm(mask_e), norm(mask_full)[:160]),
           "|t1 - t2| < max_interval (strictly smaller) on all orderings of (t1, t2, max_interval)", node=rets[0], func=tc,
           witness=None if ok else {"truth table (t1, t2, mi)": {str(k): v for k, v in res.items() if v != (abs(k[0] - k[1]) < k[2])}})
    ctx.models.append({"rule": "C04.temporal", "cases": 27, "symbols": ["t1", "t2", "mi"], "exhaustive": True})
    # the comparison uses the time difference at full resolution: the stored intervals are whole seconds (rule C04.interval), and a
    # difference of 10.7 s floored to 10 s passes a max_interval of 10.5 s
    ctx.ob("Collocator._temporal_check.resolution", not floored_mask, "mask compares %s" % ("the intervals floored to whole seconds" if floored_mask else "the time difference itself"),
           "|t1 - t2| at the resolution of the time stamps against max_interval: pairs with |dt| >= max_interval are not let through by flooring |dt| first",
           node=rets[0], func=tc, witness=None if not floored_mask else {"|dt|": "10.7 s", "max_interval": "10.5 s", "reported": True})
    # second result: the intervals (as _get_intervals defines them, rule C04.interval) of the pairs the mask lets through; selecting by
    # the mask commutes with the element-wise steps (difference, abs, cast)

    def lift(e):
        """(element-wise expression over whole arrays, mask) with `X[mask]` pulled outward through element-wise operations"""
        if isinstance(e, ast.Subscript) and not isinstance(e.slice, (ast.Slice, ast.Tuple, ast.Constant)):
            core, m = lift(e.value)
            if m is None:
                return core, e.slice
            raise AnalysisError("_temporal_check: intervals selected twice")
        if isinstance(e, ast.Call) and isinstance(e.func, ast.Attribute) and e.func.attr == "astype" and len(e.args) == 1 and isinstance(e.args[0], ast.Constant):
            core, m = lift(e.func.value)
            new = _clone(e)
            new.func.value = core
            return new, m
        if isinstance(e, ast.Call) and (dotted(e.func) or "").split(".")[-1] in ("abs", "absolute", "fabs") and len(e.args) == 1 and not e.keywords:
            core, m = lift(e.args[0])
            new = _clone(e)
            new.args = [core]
            return new, m
        if isinstance(e, ast.BinOp) and isinstance(e.op, ast.Sub):
            (lc, lm), (rc, rm) = lift(e.left), lift(e.right)
            if (lm is None) != (rm is None) or (lm is not None and norm(lm) != norm(rm)):
                raise AnalysisError("_temporal_check: the two times of the intervals are selected differently")
            return ast.BinOp(left=lc, op=ast.Sub(), right=rc), lm
        return e, None
    core, m = lift(iv_full)
    from ..normalize import _Subst
    want = [str(norm(_Subst(dict(zip(gi.params, [ast.Name(id=x, ctx=ast.Load()), ast.Name(id=y, ctx=ast.Load())]))).visit(_clone(gi_ret[0].value))))
            for x, y in ((pt, st_), (st_, pt))]
    ok2 = m is not None and norm(m) == norm(mask_ret) and str(norm(ast.fix_missing_locations(core))) in want
    ctx.ob("Collocator._temporal_check.intervals", ok2, "second result = %s, i.e. (%s)[%s]" % (norm(iv_e), norm(core), norm(m) if m is not None else None),
           "the intervals of (primary_time, secondary_time) as _get_intervals defines them, filtered by the same mask", node=rets[0], func=tc)
    # collocate(): final _create_return
    f = ctx.func(COL, "Collocator.collocate")
    flow = Flow(f)
    cr = ctx.func(COL, "Collocator._create_return")
    crs = calls_in(f.node, "_create_return")
    tcs = calls_in(f.node, "_temporal_check")
    if len(tcs) != 1:
        raise AnalysisError("collocate(): expected one _temporal_check call")
    tcst = enclosing_stmt(tcs[0])
    if not (isinstance(tcst, ast.Assign) and isinstance(tcst.targets[0], ast.Tuple) and len(tcst.targets[0].elts) == 2):
        raise AnalysisError("collocate(): _temporal_check result not unpacked into (mask, intervals)")
    M, IV = [norm(e) for e in tcst.targets[0].elts]
    # the call whose arguments are built from the mask
    stop = {n.id for st0 in flow.stmts if isinstance(st0, ast.Assign) and isinstance(st0.value, (ast.List, ast.Tuple))
            for n in st0.targets if isinstance(n, ast.Name)} | {M, IV}

    def rargs(call):
        out = {}
        for i, a in enumerate(call.args):
            out[params[i]] = flow.resolve(a, at=call, depth=3, stop=stop)
        for k in call.keywords:
            out[k.arg] = flow.resolve(k.value, at=call, depth=3, stop=stop)
        return out
    params = cr.params[1:]
    final = [c for c in crs if any(isinstance(n, ast.Name) and n.id == M for v in rargs(c).values() for n in ast.walk(v))]
    if len(final) != 1:
        ctx.ob("Collocator.collocate.masked_return", False, "no _create_return call uses the temporal mask %s" % M,
               "the pairs returned on the two-criteria path are masked by _temporal_check", node=tcst, func=f)
        return
    c = final[0]
    bound = rargs(c)
    pa, ia, da = bound.get("original_pairs"), bound.get("intervals"), bound.get("distances")
    # pairs variable
    sp_calls = [c2 for c2 in calls_in(f.node, ("spatial_search", "spatial_search_with_temporal_binning"))]
    pnames = set()
    dnames = set()
    for c2 in sp_calls:
        s2 = enclosing_stmt(c2)
        if isinstance(s2, ast.Assign) and isinstance(s2.targets[0], ast.Tuple):
            pnames.add(norm(s2.targets[0].elts[0]))
            dnames.add(norm(s2.targets[0].elts[1]))
    P = sorted(pnames)[0] if len(pnames) == 1 else None
    Dn = sorted(dnames)[0] if len(dnames) == 1 else None
    okp = isinstance(pa, ast.Call) and norm(pa.func).endswith("_to_original") and pa.args and norm(pa.args[0]) == "%s[:, %s]" % (P, M)
    oki = ia is not None and norm(ia) == IV
    okd = da is not None and norm(da) == "%s[%s]" % (Dn, M)
    ctx.ob("Collocator.collocate.masked_return", okp and oki and okd,
           "_create_return(pairs=%s, intervals=%s, distances=%s)" % (norm(pa) if pa is not None else None, norm(ia) if ia is not None else None, norm(da) if da is not None else None),
           "pairs = _to_original(%s[:, %s], ...), intervals = %s, distances = %s[%s] - one mask for all three" % (P, M, IV, Dn, M), node=c, func=f)
    # the check is computed from the filtered times with filtered-space indices: time1[pairs[0]], time2[pairs[1]]
    a0, a1 = (tcs[0].args + [None, None])[:2]
    t1 = _filtered_names(flow, f, "time", 0)
    t2 = _filtered_names(flow, f, "time", 1)
    okt = a0 is not None and a1 is not None and norm(a0) == "%s[%s[0]]" % (t1, P) and norm(a1) == "%s[%s[1]]" % (t2, P)
    # pairs at this point is the direct result of the spatial search (not yet mapped to original indices)
    pdefs = flow.defs(P, tcst) if P else []
    direct = all(isinstance(d, ast.Assign) and calls_in(d.value, ("spatial_search", "spatial_search_with_temporal_binning"))
                 and not calls_in(d.value, "_to_original") for d in pdefs) and bool(pdefs)
    ctx.ob("Collocator.collocate.temporal_inputs", okt and direct,
           "_temporal_check(%s, %s, ...); %s defined by: %s" % (norm(a0) if a0 is not None else None, norm(a1) if a1 is not None else None, P,
                                                               [norm(d)[:60] if not isinstance(d, str) else d for d in pdefs]),
           "times of the NaN-filtered primary / secondary indexed with row 0 / row 1 of the filtered-space pairs "
           "(before _to_original)", node=tcs[0], func=f)
    # every return of the two-criteria path after the search is either empty or masked
    tnodes = set(flow.cfg.nodes(tcst))
    ctx.ob("Collocator.collocate.dominates", all(flow.cfg.dominated_by(n, tnodes) for n in flow.cfg.nodes(enclosing_stmt(c))),
           "masked return dominated by the temporal check", "the temporal check precedes the masked return on every path", node=c, func=f)


def _spatial_distance_names(f):
    out = set()
    for c2 in calls_in(f.node, ("spatial_search", "spatial_search_with_temporal_binning")):
        s2 = enclosing_stmt(c2)
        if isinstance(s2, ast.Assign) and isinstance(s2.targets[0], ast.Tuple):
            out.add(norm(s2.targets[0].elts[1]))
    return out


def _filtered_names(flow, f, field, which):
    """name assigned from `<dataset>.<field>.values[not_nans<k>]` for the which-th dataset."""
    found = []
    for st in flow.stmts:
        if isinstance(st, ast.Assign) and isinstance(st.targets[0], ast.Name) and isinstance(st.value, ast.Subscript):
            t = norm(st.value.value)
            if t.endswith(".%s.values" % field):
                found.append((st.targets[0].id, t.split(".")[0], norm(st.value.slice)))
    found.sort(key=lambda x: x[0])
    if len(found) != 2:
        raise AnalysisError("collocate(): filtered %s arrays not identified" % field)
    prim = [x for x in found if x[1] == f.params[1]]
    sec = [x for x in found if x[1] == f.params[2]]
    if len(prim) != 1 or len(sec) != 1:
        raise AnalysisError("collocate(): filtered %s arrays not attributable to primary/secondary" % field)
    return (prim[0] if which == 0 else sec[0])[0]


def rule_window(ctx):
    ctx.rule("C04.window", "T4 implication", "common time window: no point that can take part in a pair is cut off")
    f = ctx.func(COL, "Collocator._get_common_time_period")
    prim, sec, mi, start, end = f.params[:5]
    flow = Flow(f)
    # the selections: each dataset by its own time, inclusive at both ends; their bounds are the window
    def unwrap(e):
        # (np.datetime64(...) is kept: whether it is applied to a pandas.Timestamp is decided below, on the resolved bound)
        while isinstance(e, ast.Call) and (dotted(e.func) or "").split(".")[-1] in ("Timestamp", "to_datetime", "to_datetime64") and len(e.args) == 1:
            e = e.args[0]
        return e
    sels = []
    for w in calls_in(f.node, "where"):
        if isinstance(w.func, ast.Attribute) and norm(w.func.value).split(".")[0] in (prim, sec):
            who = norm(w.func.value).split(".")[0]
            cond = w.args[0] if w.args else None
            sels.append((who, cond, enclosing_stmt(w)))
    if len(sels) != 2 or set(x[0] for x in sels) != {prim, sec}:
        raise AnalysisError("_get_common_time_period: the two selections <dataset>.time.where(...) were not found")
    bounds = {}
    for who, cond, st in sels:
        ok = False
        lo = hi = None
        if cond is not None:
            cj = conjuncts(flow.resolve(cond, at=st, depth=1, stop=(prim, sec, mi, start, end)))
            for c in cj:
                if isinstance(c, ast.Compare) and len(c.ops) == 1 and norm(c.left).split(".")[0] == who:
                    if isinstance(c.ops[0], ast.GtE):
                        lo = unwrap(c.comparators[0])
                    elif isinstance(c.ops[0], ast.LtE):
                        hi = unwrap(c.comparators[0])
                elif isinstance(c, ast.Compare) and len(c.ops) == 1 and norm(c.comparators[0]).split(".")[0] == who:
                    if isinstance(c.ops[0], ast.LtE):
                        lo = unwrap(c.left)
                    elif isinstance(c.ops[0], ast.GtE):
                        hi = unwrap(c.left)
            ok = len(cj) == 2 and lo is not None and hi is not None
        bounds[who] = (lo, hi, st)
        ctx.ob("Collocator._get_common_time_period.select[%s]" % who, ok, "selection of %s: %s" % (who, norm(cond) if cond is not None else None),
               "own time >= common_start & own time <= common_end (inclusive at both ends)", node=st, func=f)
    if any(v[0] is None or v[1] is None for v in bounds.values()):
        return
    los = set(str(norm(v[0])) for v in bounds.values())
    his = set(str(norm(v[1])) for v in bounds.values())
    if len(los) != 1 or len(his) != 1:
        raise AnalysisError("_get_common_time_period: the two datasets are cut with different windows: %s / %s" % (sorted(los), sorted(his)))
    any_st = list(bounds.values())[0][2]
    cs_e = flow.resolve_join(list(bounds.values())[0][0], at=any_st, depth=3, stop=(prim, sec, mi, start, end))
    ce_e = flow.resolve_join(list(bounds.values())[0][1], at=any_st, depth=3, stop=(prim, sec, mi, start, end))

    def symbols(e):
        """text of every extreme `<dataset>.time...min()/max()` with its identity wrappers -> symbol"""
        env = {}
        for n in ast.walk(e):
            if isinstance(n, ast.Call) and isinstance(n.func, ast.Attribute) and n.func.attr in ("min", "max") and not n.args:
                who = norm(n.func.value).split(".")[0]
                if who not in (prim, sec):
                    continue
                sym = ("p" if who == prim else "s") + n.func.attr
                cur = n
                while True:
                    p_ = parent(cur)
                    if isinstance(p_, ast.Attribute) and isinstance(parent(p_), ast.Call) and parent(p_).func is p_ \
                            and p_.attr in ("item", "tz_localize", "to_pydatetime", "astype"):
                        cur = parent(p_)
                    elif isinstance(p_, ast.Call) and cur in p_.args and (dotted(p_.func) or "").split(".")[-1] in ("Timestamp", "datetime64", "to_datetime"):
                        cur = p_
                    else:
                        break
                env[str(norm(cur))] = sym
        return env
    from ..core import clone as _clone
    # the conversion of the bounds to numpy: np.datetime64(<pandas.Timestamp>) floors the bound to microseconds - a point up to 999 ns
    # before the end of the window is cut off.  Timestamps must go through .to_datetime64() / .to_numpy(); np.datetime64() is for the
    # python datetimes (start / end) only.
    floored = []

    def may_be_timestamp(e_):
        return any(isinstance(c_, ast.Call) and (dotted(c_.func) or "").split(".")[-1] == "Timestamp" for c_ in ast.walk(e_))

    class _Conv(ast.NodeTransformer):
        def __init__(self):
            self.guarded = 0

        def visit_IfExp(self, n_):
            t_ = str(norm(n_.test)).replace(" ", "")
            if t_.startswith("isinstance(") and t_.endswith(("pd.Timestamp)", "pandas.Timestamp)")):
                body = self.visit(n_.body)
                self.guarded += 1
                orelse = self.visit(n_.orelse)       # reached only by what is NOT a Timestamp
                self.guarded -= 1
                if str(norm(body)) == str(norm(orelse)):
                    return body
                raise AnalysisError("_get_common_time_period: the two conversions of a window bound differ: %s / %s" % (norm(body)[:50], norm(orelse)[:50]))
            return self.generic_visit(n_)

        def visit_Call(self, n_):
            if isinstance(n_.func, ast.Attribute) and n_.func.attr in ("to_datetime64", "to_numpy") and not n_.args:
                return self.visit(n_.func.value)
            if (dotted(n_.func) or "") in ("np.datetime64", "numpy.datetime64") and len(n_.args) == 1:
                if may_be_timestamp(n_.args[0]) and not self.guarded:
                    floored.append(str(norm(n_))[:70])
                return self.visit(n_.args[0])
            return self.generic_visit(n_)
    cs_e = ast.fix_missing_locations(_Conv().visit(_clone(cs_e)))
    ce_e = ast.fix_missing_locations(_Conv().visit(_clone(ce_e)))
    ctx.ob("Collocator._get_common_time_period.nanoseconds", not floored, "bounds converted with np.datetime64(<Timestamp>): %s" % (floored or "none"),
           "a pandas.Timestamp bound becomes a numpy time with .to_datetime64() (np.datetime64(Timestamp) goes through datetime and loses the nanoseconds): "
           "the pair whose later point lies within 1 us before the window end is not cut off", node=any_st, func=f,
           witness=None if not floored else {"t1": "00:01:40.000000500", "t2": "00:01:50.000000100", "max_interval": "10 s", "|dt|": "9.9999996 s", "reported": False})
    cs_e, ce_e = _clone(cs_e), _clone(ce_e)        # (clone sets the parent links of the resolved trees)
    symenv = dict(symbols(cs_e), **symbols(ce_e))
    from ..order import Interp
    bad = cut = None
    n = 0
    rng = range(5) if ctx.tier == "thorough" else range(4)
    for S, E, M, pmin, pmax, smin, smax in itertools.product(rng, rng, range(3), rng, rng, rng, rng):
        if not (S <= E and pmin <= pmax and smin <= smax):
            continue
        a = {"S": S, "E": E, "M": M, "pmin": pmin, "pmax": pmax, "smin": smin, "smax": smax}
        env = {k_: a[v_] for k_, v_ in symenv.items()}
        env.update({start: S, end: E, mi: M})
        try:
            c0, c1 = Interp(env).ev(cs_e), Interp(env).ev(ce_e)
        except AnalysisError as e_:
            raise AnalysisError("_get_common_time_period: window bound outside the model: %s" % e_)
        if cut is None and (c0 < S or c1 > E):
            cut = dict(a, common_start=c0, common_end=c1)
        for t1, t2 in itertools.product(range(pmin, pmax + 1), range(smin, smax + 1)):
            n += 1
            if S <= t1 <= E and S <= t2 <= E and abs(t1 - t2) < M and not (c0 <= t1 <= c1 and c0 <= t2 <= c1) and bad is None:
                bad = dict(a, t1=t1, t2=t2, common_start=c0, common_end=c1)
    ctx.models.append({"rule": "C04.window", "cases": n, "domain": "box 0..3 (9 symbols)", "exhaustive": False})
    ctx.ob("Collocator._get_common_time_period.sound", bad is None, "window [%s, %s], %d cases" % (norm(cs_e)[:110], norm(ce_e)[:110], n),
           "every pair (t1, t2) inside [start, end] with |t1 - t2| < max_interval lies inside [common_start, common_end]", node=any_st, func=f, witness=bad)
    ctx.ob("Collocator._get_common_time_period.exact", cut is None, "window [%s, %s], %d cases" % (norm(cs_e)[:110], norm(ce_e)[:110], n),
           "start <= common_start and common_end <= end: no point outside [start, end] is selected (the interval widens the data range, never the requested period)",
           node=any_st, func=f, witness=cut)


def rule_nan(ctx):
    ctx.rule("C04.nan", "T4+T6", "valid <=> lat and lon not null; pairs are mapped back through the index arrays of the same masks")
    g = ctx.func(COL, "Collocator._get_not_nans")
    ds = g.params[0]
    rets = [s for s in g.body if isinstance(s, ast.Return)]
    e = rets[0].value if rets else None
    tt = {}
    ok = False
    if e is not None:
        env_keys = {"%s.lat.notnull().values" % ds: "a", "%s.lon.notnull().values" % ds: "b", "%s.lat.notnull()" % ds: "a", "%s.lon.notnull()" % ds: "b"}
        try:
            for a, b in itertools.product([False, True], repeat=2):
                env = {k: (a if v == "a" else b) for k, v in env_keys.items()}
                tt[(a, b)] = bool(Interp(env).ev(e))
            ok = all(tt[(a, b)] == (a and b) for a, b in tt)
        except AnalysisError:
            ok = False
    ctx.ob("Collocator._get_not_nans", ok, "return %s" % (norm(e) if e is not None else None), "lat not null AND lon not null", node=g.node, func=g)
    # _to_original
    t = ctx.func(COL, "Collocator._to_original")
    pr, oi = t.params[0], t.params[1]
    rets = [s for s in t.body if isinstance(s, ast.Return)]
    okt = False
    if rets:
        comps = [n for n in ast.walk(rets[0].value) if isinstance(n, ast.ListComp)]
        if comps:
            from ..flow import elementwise_elt
            e = elementwise_elt(comps[0])
            if e is None:
                raise AnalysisError("_to_original: comprehension is not a parallel iteration over the pairs")
            okt = norm(e) == "%s[_i][%s[_i]]" % (oi, pr)
        else:
            raise AnalysisError("_to_original: no comprehension over the pairs")
    ctx.ob("Collocator._to_original", okt, "return %s" % (norm(rets[0].value) if rets else None),
           "row i of the pairs is mapped through original_indices[i]", node=t.node, func=t)
    # collocate: masks, filtered arrays, index arrays
    f = ctx.func(COL, "Collocator.collocate")
    flow = Flow(f)
    P1, P2 = f.params[1], f.params[2]
    masks = {}
    for st in flow.stmts:
        if isinstance(st, ast.Assign) and isinstance(st.targets[0], ast.Name) and calls_in(st.value, "_get_not_nans"):
            c = calls_in(st.value, "_get_not_nans")[0]
            masks[norm(c.args[0])] = st.targets[0].id
    okm = set(masks) == {P1, P2}
    use = {}
    for st in flow.stmts:
        if isinstance(st, ast.Assign) and isinstance(st.targets[0], ast.Name) and isinstance(st.value, ast.Subscript):
            t_ = norm(st.value.value)
            for fld in ("lat", "lon", "time"):
                if t_.endswith(".%s.values" % fld):
                    use[(t_.split(".")[0], fld)] = norm(st.value.slice)
    oku = okm and all(use.get((p_, fld)) == masks[p_] for p_ in (P1, P2) for fld in ("lat", "lon", "time"))
    ctx.ob("Collocator.collocate.filter", oku, "masks %s; filtered fields %s" % (masks, use),
           "lat, lon and time of each dataset are filtered with that dataset's own not-NaN mask", node=f.node, func=f)
    # the masks are boolean arrays and stay so: indexing with them copies, which is what separates the arrays kept by the cached
    # spatial index from the caller's data (the cache check compares the points at hand with the points kept)
    redef = []
    if okm:
        for p_ in (P1, P2):
            for st in flow.stmts:
                if isinstance(st, (ast.Assign, ast.AugAssign)) and any(isinstance(n_, ast.Name) and isinstance(n_.ctx, ast.Store) and n_.id == masks[p_]
                                                                         for t2 in (st.targets if isinstance(st, ast.Assign) else [st.target]) for n_ in ast.walk(t2)) \
                        and not calls_in(st.value, "_get_not_nans"):
                    redef.append(str(norm(st))[:60])
    ctx.ob("Collocator.collocate.mask", okm and not redef, "other definitions of the masks: %s" % (redef or "none"),
           "each mask is the boolean array of _get_not_nans and nothing else (a `slice(None)` in its place hands views of the caller's arrays to the "
           "cached index, which then compares them with themselves)", node=f.node, func=f)
    # when the filter leaves nothing of one dataset there is no collocation: answer before the tree is built (sklearn raises on 0 samples)
    filt_names = {}
    for st in flow.stmts:
        if isinstance(st, ast.Assign) and isinstance(st.targets[0], ast.Name) and isinstance(st.value, ast.Subscript) and okm \
                and str(norm(st.value.slice)) in masks.values():
            filt_names.setdefault(str(norm(st.value.slice)), []).append(st.targets[0].id)
    searches = [c_ for c_ in calls_in(f.node, ("spatial_search", "spatial_search_with_temporal_binning", "_spatial_search", "_temporal_search"))]
    eguards = []
    for st in flow.stmts:
        if isinstance(st, ast.If) and any(isinstance(x, ast.Return) and x.value is not None and str(norm(x.value)) in ("self.empty", "None") for x in st.body):
            tested = {n_.id for n_ in ast.walk(st.test) if isinstance(n_, ast.Name)}
            if all(any(nm_ in tested for nm_ in names_) for names_ in filt_names.values()) and filt_names and ".size" in str(norm(st.test)):
                eguards.append(st)
    dom = bool(eguards) and bool(searches) and all(flow.cfg.dominated_by(n_, set(flow.cfg.nodes(eguards[0]))) for c_ in searches for n_ in flow.cfg.nodes(enclosing_stmt(c_)))
    if not searches:
        raise AnalysisError("collocate: the search calls were not found")
    ctx.ob("Collocator.collocate.all_nan", dom, "guards on the filtered sizes before the searches: %s" % ([str(norm(g_.test)) for g_ in eguards] or "none"),
           "`if not time1.size or not time2.size: return self.empty` dominates every search: points with NaN position are ignored, also when they are all of one dataset "
           "(sklearn: ValueError, Found array with 0 sample(s))", node=eguards[0] if eguards else f.node, func=f,
           witness=None if dom else {"primary": "one point with lat = NaN", "raises": "ValueError: Found array with 0 sample(s)"})
    oi_st = [st for st in flow.stmts if isinstance(st, ast.Assign) and isinstance(st.value, (ast.List, ast.Tuple)) and len(st.value.elts) == 2
             and all(calls_in(e_, "arange") for e_ in st.value.elts)]
    oko = False
    fact = None
    oiname = None
    if oi_st and okm:
        e0, e1 = oi_st[0].value.elts
        fact = norm(oi_st[0].value)
        oiname = norm(oi_st[0].targets[0])
        def sized(e_, who):
            t_ = str(norm(e_)).replace(" ", "")
            return any(t_ == "np.arange(%s)[%s]" % (sz_ % who, masks[who]) for sz_ in (
                "%s.time.size", "%s.time.values.size", "%s['time'].size", "%s[\"time\"].size", "len(%s.time)", "%s.time.shape[0]", "%s.time.values.shape[0]", "len(%s.time.values)"))
        oko = sized(e0, P1) and sized(e1, P2)
    ctx.ob("Collocator.collocate.original_indices", oko, "original_indices = %s" % fact,
           "[arange(primary size)[primary mask], arange(secondary size)[secondary mask]] in this order", node=oi_st[0] if oi_st else f.node, func=f)
    # every _create_return gets _to_original(pairs..., original_indices)
    crs = calls_in(f.node, "_create_return")
    cr = ctx.func(COL, "Collocator._create_return")
    pos = cr.params[1:].index("original_pairs")
    bad = []
    for c in crs:
        a = c.args[pos] if pos < len(c.args) else None
        if a is not None:
            a = flow.resolve(a, at=c, depth=3, stop={oiname} if oiname else ())
        if not (isinstance(a, ast.Call) and norm(a.func).endswith("_to_original") and len(a.args) == 2 and norm(a.args[1]) == oiname):
            bad.append(norm(a) if a is not None else None)
    ctx.ob("Collocator.collocate.to_original", not bad and len(crs) >= 3, "%d _create_return calls; pairs not mapped back: %s" % (len(crs), bad or "none"),
           "on all three return paths the pairs go through _to_original(..., original_indices)", node=crs[0] if crs else f.node, func=f)
    # two index spaces: the searches work on the NaN-filtered arrays, _to_original translates their pairs to the datasets' points.  A filtered
    # array (time1, lat2 ...) is never indexed with pairs that went through _to_original already
    filtered = {nm_ for names_ in filt_names.values() for nm_ in names_}
    mixed = []
    for n_ in ast.walk(f.node):
        if isinstance(n_, ast.Subscript) and isinstance(n_.value, ast.Name) and n_.value.id in filtered and isinstance(n_.ctx, ast.Load):
            for x_ in ast.walk(n_.slice):
                if isinstance(x_, ast.Name) and isinstance(x_.ctx, ast.Load):
                    for d_ in flow.defs(x_.id, enclosing_stmt(n_)):
                        if d_ != "param" and isinstance(d_, ast.Assign) and calls_in(d_.value, "_to_original"):
                            mixed.append("%s with %s = %s" % (str(norm(n_))[:40], x_.id, str(norm(d_.value))[:50]))
    ctx.ob("Collocator.collocate.index_space", not mixed, "filtered arrays indexed with translated pairs: %s" % (sorted(set(mixed)) or "none"),
           "intervals and distances are taken from the filtered arrays with the pairs of the search; _to_original comes last",
           node=crs[0] if crs else f.node, func=f, witness=None if not mixed else {"NaN position": "before a collocated point", "stored interval": "|dt| of other points / IndexError"})
    # spatial search receives the filtered coordinates in (lat1, lon1, lat2, lon2) order
    names = {(p_, fld): None for p_ in (P1, P2) for fld in ("lat", "lon")}
    for st in flow.stmts:
        if isinstance(st, ast.Assign) and isinstance(st.targets[0], ast.Name) and isinstance(st.value, ast.Subscript):
            t_ = norm(st.value.value)
            for fld in ("lat", "lon"):
                if t_.endswith(".%s.values" % fld):
                    names[(t_.split(".")[0], fld)] = st.targets[0].id
    want = [names[(P1, "lat")], names[(P1, "lon")], names[(P2, "lat")], names[(P2, "lon")]]
    ss = [c for c in calls_in(f.node, "spatial_search")]
    oks = bool(ss) and all([norm(a) for a in c.args[:4]] == want for c in ss)
    ctx.ob("Collocator.collocate.search_args", oks, "spatial_search(%s)" % [[norm(a) for a in c.args[:4]] for c in ss],
           "spatial_search(lat1, lon1, lat2, lon2) with the filtered primary coordinates first", node=ss[0] if ss else f.node, func=f)


def rule_swap(ctx):
    ctx.rule("C04.swap", "T1+T6", "index built from the chosen side, queried with the other; rows exchanged back under the same condition")
    f = ctx.func(COL, "Collocator.spatial_search")
    flow = Flow(f)
    lat1, lon1, lat2, lon2 = f.params[1:5]
    chs = [st for st in flow.stmts if isinstance(st, ast.Assign) and isinstance(st.targets[0], ast.Name) and calls_in(st.value, "_choose_points_to_build_index")]
    if len(chs) != 1:
        raise AnalysisError("spatial_search: the choice of the index side is not bound to a name")
    flag = chs[0].targets[0].id
    bq = calls_in(f.node, "_build_spatial_index")
    qq = [c for c in calls_in(f.node, "query") if "index" in norm(c.func)]
    if len(bq) != 1 or len(qq) != 1:
        raise AnalysisError("spatial_search: index build / query calls not found")

    def positional(call, n=2):
        out = []
        for a_ in call.args:
            if isinstance(a_, ast.Starred):
                for k_ in range(n):
                    e_ = ast.copy_location(ast.Subscript(value=a_.value, slice=ast.Constant(value=k_), ctx=ast.Load()), a_)
                    ast.fix_missing_locations(e_)
                    out.append(e_)
            else:
                out.append(a_)
        return out[:n]
    got = {}
    for v in (True, False):
        assume = {flag: v, "self.index_with_primary": v}
        got[v] = ([norm(flow.resolve_under(a_, assume, at=bq[0], stop=tuple(f.params))) for a_ in positional(bq[0])],
                  [norm(flow.resolve_under(a_, assume, at=qq[0], stop=tuple(f.params))) for a_ in positional(qq[0])])
    ok = got[True] == ([lat1, lon1], [lat2, lon2]) and got[False] == ([lat2, lon2], [lat1, lon1])
    cond = flag
    ctx.ob("Collocator.spatial_search.roles", ok, "index with primary: build%s query%s; otherwise: build%s query%s" % (got[True] + got[False]),
           "if <index with primary>: build from (lat1, lon1), query with (lat2, lon2); else the other way round", node=bq[0], func=f)
    # swap back
    swaps = [st for st in flow.stmts if isinstance(st, ast.Assign) and norm(st) .replace(" ", "") in
             ("pairs[[0,1]]=pairs[[1,0]]", "pairs[[1,0]]=pairs[[0,1]]", "pairs=pairs[[1,0]]", "pairs=pairs[[1,0],:]", "pairs=pairs[::-1]")]
    oksw = False
    fact = "no row exchange found"
    if swaps:
        s = swaps[0]
        live_t = flow.live_under(s, {flag: True, "self.index_with_primary": True})
        live_f = flow.live_under(s, {flag: False, "self.index_with_primary": False})
        fact = "row exchange reached with the index on the primary: %s; on the secondary: %s" % (live_t, live_f)
        oksw = (not live_t) and live_f
        # every return of found pairs that can be reached with the index on the secondary passes the exchange
        rets = [r for r in flow.stmts if isinstance(r, ast.Return) and "pairs" in norm(r.value) and "no_pairs" not in norm(r.value)]
        rets_f = [r for r in rets if flow.live_under(r, {flag: False, "self.index_with_primary": False})]
        from ..flow import passes_before
        af = {flag: False, "self.index_with_primary": False}
        oksw = oksw and bool(rets_f) and all(passes_before(flow, s, r, af) for r in rets_f)
    else:
        # the exchange written into the returned value: return pairs, ... with the index on the primary, return pairs[[1, 0]], ... otherwise
        EXCH = ("pairs[[1,0]]", "pairs[[1,0],:]", "pairs[::-1]", "np.flipud(pairs)")
        rets = [r for r in flow.stmts if isinstance(r, ast.Return) and isinstance(r.value, ast.Tuple) and r.value.elts
                and "pairs" in norm(r.value.elts[0]) and "no_pairs" not in norm(r.value.elts[0])]
        firsts = {}
        for v in (True, False):
            asm_ = {flag: v, "self.index_with_primary": v}
            firsts[v] = sorted({str(norm(flow.resolve_under(r.value.elts[0], asm_, at=r, stop=("pairs",)))).replace(" ", "") for r in rets if flow.live_under(r, asm_)})
        if rets:
            fact = "returned with the index on the primary: %s; on the secondary: %s" % (firsts[True], firsts[False])
            oksw = firsts[True] == ["pairs"] and bool(firsts[False]) and all(x in EXCH for x in firsts[False])
    ctx.ob("Collocator.spatial_search.swap", oksw, fact,
           "`if not <index with primary>: pairs[[0, 1]] = pairs[[1, 0]]` before every return of found pairs (GeoIndex row 0 = build side)",
           node=swaps[0] if swaps else f.node, func=f)
    # binning variant
    b = ctx.func(COL, "Collocator.spatial_search_with_temporal_binning")
    bflow = Flow(b)
    sw = [st for st in bflow.stmts if isinstance(st, ast.Assign) and isinstance(st.targets[0], ast.Name) and isinstance(st.value, ast.Compare)
          and "size" in norm(st.value)]
    ex = [st for st in bflow.stmts if isinstance(st, ast.If) and len(st.body) == 1 and isinstance(st.body[0], ast.Assign)
          and isinstance(st.body[0].targets[0], ast.Tuple) and isinstance(st.body[0].value, ast.Tuple)]
    back = [st for st in bflow.stmts if isinstance(st, ast.Assign) and norm(st).replace(" ", "") in ("pairs[[0,1]]=pairs[[1,0]]", "pairs[[1,0]]=pairs[[0,1]]", "pairs=pairs[[1,0]]", "pairs=pairs[[1,0],:]", "pairs=pairs[::-1]")]
    okb = False
    fact = "swap flag / exchange / swap-back: %d/%d/%d" % (len(sw), len(ex), len(back))
    if sw and ex and back:
        flag = sw[0].targets[0].id
        p1, p2 = b.params[1], b.params[2]
        e0 = ex[0]
        exch = norm(e0.body[0]).replace(" ", "") in ("%s,%s=(%s,%s)" % (p1, p2, p2, p1), "%s,%s=(%s,%s)" % (p2, p1, p1, p2))
        g = parent(back[0])
        okb = norm(e0.test) == flag and exch and isinstance(g, ast.If) and norm(g.test) == flag and not g.orelse
        rets = [r for r in bflow.stmts if isinstance(r, ast.Return) and "no_pairs" not in norm(r.value)]
        gn = set(bflow.cfg.nodes(g)) if isinstance(g, ast.If) else set()
        okb = okb and all(bflow.cfg.dominated_by(n, gn) for r in rets for n in bflow.cfg.nodes(r)) and bool(rets)
        fact = "flag %s = %s; exchange under %s; rows swapped back under %s" % (flag, norm(sw[0].value), norm(e0.test), norm(g.test) if isinstance(g, ast.If) else None)
    ctx.ob("Collocator.spatial_search_with_temporal_binning.swap", okb, fact,
           "datasets exchanged under a flag and the result rows exchanged back under the same flag before the non-empty return", node=b.node, func=b)
    # offsets are added to the rows in the exchanged roles (row 0 <-> `primary` of the binning function): covered by C04.offsets
    # _choose_points returns a bool computed from sizes / cache only
    ch = ctx.func(COL, "Collocator._choose_points_to_build_index")
    st_assign = [s for s in flow.stmts if isinstance(s, ast.Assign) and calls_in(s.value, "_choose_points_to_build_index")]
    okc = False
    if st_assign:
        c = calls_in(st_assign[0].value, "_choose_points_to_build_index")[0]
        okc = [norm(a) for a in c.args] == ["[%s, %s]" % (lat1, lon1), "[%s, %s]" % (lat2, lon2)] and norm(st_assign[0].targets[0]) == cond
    ctx.ob("Collocator.spatial_search.choice", okc, "choice = %s" % (norm(st_assign[0]) if st_assign else None),
           "the flag tested is the result of _choose_points_to_build_index([lat1, lon1], [lat2, lon2])", node=st_assign[0] if st_assign else f.node, func=f)


def rule_offsets(ctx):
    ctx.rule("C04.offsets", "T6", "bin offsets: packed and unpacked in the same order, each added to its own row, each the "
             "searchsorted of the bound that starts its slice; secondary bin = [start - mi, max + mi] inclusive")
    bp = ctx.func(COL, "Collocator._bin_pairs")
    sb = ctx.func(COL, "Collocator._spatial_search_bin")
    c1s, c1, prim, sec, mi = bp.params[:5]
    flow = Flow(bp)
    rets = [s for s in flow.stmts if isinstance(s, ast.Return)]
    if len(rets) != 1 or not isinstance(rets[0].value, ast.Tuple) or len(rets[0].value.elts) != 4:
        raise AnalysisError("_bin_pairs does not return a 4-tuple")
    packed = [norm(e) for e in rets[0].value.elts]
    defs = {}
    for st in flow.stmts:
        if isinstance(st, ast.Assign) and isinstance(st.targets[0], ast.Name):
            defs[st.targets[0].id] = st
    # hand-over from the producer (_bin_pairs) to the consumer (_spatial_search_bin): which formal of the consumer receives which
    # field of the producer's tuple - whether the fields travel as `[self, max_distance, *bin_pair]` through map(), as an explicit
    # list, or as separate positional arguments
    w = ctx.func(COL, "Collocator.spatial_search_with_temporal_binning")
    wflow = Flow(w)
    un = [st for st in sb.body if isinstance(st, ast.Assign) and isinstance(st.targets[0], ast.Tuple) and len(sb.params) == 1 and norm(st.value) == sb.params[0]]
    if un:
        formals = [norm(e) for e in un[0].targets[0].elts]
        packed_arg = True
    else:
        formals = list(sb.params)
        packed_arg = False

    def bp_call_of(e, at, depth=0):
        """the _bin_pairs(...) call an expression denotes one result of (directly, through a temporary, or as the variable of a
        comprehension / generator over such calls)"""
        if depth > 4:
            return None
        if isinstance(e, ast.Call) and (dotted(e.func) or "").split(".")[-1] == "_bin_pairs":
            return e
        if isinstance(e, ast.Name):
            from ..flow import _comprehension_binding
            cb = _comprehension_binding(e)
            if cb is not None:
                it = wflow.resolve(cb, at=at, depth=2)
                if isinstance(it, (ast.GeneratorExp, ast.ListComp)):
                    return bp_call_of(it.elt, it, depth + 1)
                return None
            r_ = wflow.single_def_value(e.id, at)
            if r_ is not None:
                return bp_call_of(r_[0], r_[1], depth + 1)
        return None

    def sources(actuals, at):
        out = []
        for a_ in actuals:
            if isinstance(a_, ast.Starred):
                c_ = bp_call_of(a_.value, at)
                if c_ is None:
                    raise AnalysisError("spatial_search_with_temporal_binning: `*%s` is not the result of _bin_pairs" % norm(a_.value))
                out += [("bp", k_) for k_ in range(4)]
                continue
            if isinstance(a_, ast.Name):
                if a_.id == "self":
                    out.append(("self",))
                    continue
                if a_.id in w.params and wflow.defs(a_.id, at) == ["param"]:
                    out.append(("param", a_.id))
                    continue
                # a name unpacked from the tuple returned by _bin_pairs
                hit = None
                for d_ in wflow.defs(a_.id, at):
                    if isinstance(d_, ast.Assign) and isinstance(d_.targets[0], ast.Tuple) and bp_call_of(d_.value, d_) is not None:
                        idx_ = [i_ for i_, e_ in enumerate(d_.targets[0].elts) if isinstance(e_, ast.Name) and e_.id == a_.id]
                        if len(idx_) == 1:
                            hit = ("bp", idx_[0])
                    elif isinstance(d_, (ast.For,)):
                        # the loop's own chunk, handed to _bin_pairs as its chunk argument: the producer returns it unchanged as field 1
                        for c_ in calls_in(d_, "_bin_pairs"):
                            if len(c_.args) > 1 and norm(c_.args[1]) == a_.id:
                                hit = ("bp", 1)
                out.append(hit if hit is not None else ("other", a_.id))
                continue
            raise AnalysisError("spatial_search_with_temporal_binning: argument %s of _spatial_search_bin not understood" % norm(a_)[:60])
        return out
    actuals = at_ = None
    for c_ in calls_in(w.node):
        d_ = (dotted(c_.func) or "")
        if d_.split(".")[-1] == "_spatial_search_bin":
            at_ = c_
            if packed_arg:
                if len(c_.args) != 1 or not isinstance(c_.args[0], (ast.List, ast.Tuple)):
                    raise AnalysisError("spatial_search_with_temporal_binning: _spatial_search_bin is not called with an argument list")
                actuals = list(c_.args[0].elts)
            else:
                actuals = ([ast.Name(id="self", ctx=ast.Load())] if (isinstance(c_.func, ast.Attribute) and norm(c_.func.value) == "self" and not sb.is_static) else []) + list(c_.args)
        elif d_ == "map" and len(c_.args) == 2 and (dotted(c_.args[0]) or "").split(".")[-1] == "_spatial_search_bin":
            it = wflow.resolve(c_.args[1], at=c_, depth=2)
            if not (isinstance(it, (ast.GeneratorExp, ast.ListComp)) and isinstance(it.elt, (ast.List, ast.Tuple))):
                raise AnalysisError("argument list [self, max_distance, *bin_pair] not found")
            actuals, at_ = list(it.elt.elts), it.elt
    if actuals is None:
        raise AnalysisError("spatial_search_with_temporal_binning: the call of _spatial_search_bin was not found")
    src = sources(actuals, at_)
    if len(src) != len(formals):
        ctx.ob("Collocator._bin_pairs.pack", False, "packs %s; handed over as %d values to %d formals %s" % (packed, len(src), len(formals), formals),
               "four fields, same order", node=rets[0], func=bp)
        return
    got = [None] * 4
    for nm_, s_ in zip(formals, src):
        if s_[0] == "bp":
            got[s_[1]] = nm_ if got[s_[1]] is None else got[s_[1]] + "+" + nm_
    ctx.ob("Collocator._bin_pairs.pack", all(g_ is not None and "+" not in g_ for g_ in got), "packs %s; received as %s" % (packed, got),
           "four fields, each received by one formal of _spatial_search_bin", node=rets[0], func=bp)
    if not all(g_ is not None and "+" not in g_ for g_ in got):
        return
    o1, d1, o2, d2 = got
    # roles in the consumer: spatial_search(data1 lat, lon, data2 lat, lon); pairs[0] += o1; pairs[1] += o2
    ss = calls_in(sb.node, "spatial_search")
    okc = bool(ss) and [norm(a) for a in ss[0].args[:4]] == ['%s["lat"].values' % d1, '%s["lon"].values' % d1, '%s["lat"].values' % d2, '%s["lon"].values' % d2] \
        or bool(ss) and [norm(a).replace("'", '"') for a in ss[0].args[:4]] == ['%s["lat"].values' % d1, '%s["lon"].values' % d1, '%s["lat"].values' % d2, '%s["lon"].values' % d2]
    adds = {}
    for st in walk_no_nested(sb.node):
        if isinstance(st, ast.AugAssign) and isinstance(st.op, ast.Add) and isinstance(st.target, ast.Subscript):
            adds[norm(st.target)] = norm(st.value)
    pn = None
    for st in walk_no_nested(sb.node):
        if isinstance(st, ast.Assign) and isinstance(st.targets[0], ast.Tuple) and calls_in(st.value, "spatial_search"):
            pn = norm(st.targets[0].elts[0])
    sflow = Flow(sb)
    if not adds and pn is not None:
        # out of place: return np.array([pairs[0] + o1, pairs[1] + o2]), distances
        for r_ in [x for x in sflow.stmts if isinstance(x, ast.Return) and isinstance(x.value, ast.Tuple) and len(x.value.elts) == 2]:
            v_ = sflow.resolve(r_.value.elts[0], at=r_, depth=2, stop=(pn, o1, o2, d1, d2))
            if isinstance(v_, ast.Call) and (dotted(v_.func) or "").split(".")[-1] in ("array", "vstack", "stack", "asarray") and len(v_.args) == 1 \
                    and isinstance(v_.args[0], (ast.List, ast.Tuple)) and len(v_.args[0].elts) == 2:
                for row in v_.args[0].elts:
                    if isinstance(row, ast.BinOp) and isinstance(row.op, ast.Add):
                        l_, r2_ = str(norm(row.left)), str(norm(row.right))
                        if l_.startswith(pn + "["):
                            adds[l_] = r2_
                        elif r2_.startswith(pn + "["):
                            adds[r2_] = l_
    if not adds and pn is not None:
        # broadcast form: pairs + np.array([[o1], [o2]])  (a column vector: row 0 + o1, row 1 + o2)
        for r_ in [x for x in sflow.stmts if isinstance(x, ast.Return) and isinstance(x.value, ast.Tuple) and len(x.value.elts) == 2]:
            v_ = sflow.resolve(r_.value.elts[0], at=r_, depth=2, stop=(pn, o1, o2, d1, d2))
            if isinstance(v_, ast.BinOp) and isinstance(v_.op, ast.Add):
                for arr_, vec_ in ((v_.left, v_.right), (v_.right, v_.left)):
                    if isinstance(vec_, ast.Call) and (dotted(vec_.func) or "").split(".")[-1] in ("array", "asarray") and len(vec_.args) == 1:
                        vec_ = vec_.args[0]
                    if str(norm(arr_)) == pn and isinstance(vec_, (ast.List, ast.Tuple)) and len(vec_.elts) == 2 \
                            and all(isinstance(e_, (ast.List, ast.Tuple)) and len(e_.elts) == 1 for e_ in vec_.elts):
                        adds["%s[0]" % pn] = str(norm(vec_.elts[0].elts[0]))
                        adds["%s[1]" % pn] = str(norm(vec_.elts[1].elts[0]))
    oka = adds == {"%s[0]" % pn: o1, "%s[1]" % pn: o2}
    ctx.ob("Collocator._spatial_search_bin.offsets", okc and oka, "search(%s); additions %s" % ([norm(a) for a in ss[0].args[:4]] if ss else None, adds),
           "chunk of field 2 searched as first dataset, offset of field 1 added to row 0; field 4 second, offset of field 3 to row 1", node=sb.node, func=sb)
    # producer side: field semantics
    P_o1, P_c1, P_o2, P_c2 = packed

    def val(name):
        st = defs.get(name)
        return flow.resolve(st.value, at=st) if st is not None else None
    v_o1, v_o2, v_c2 = val(P_o1), val(P_o2), val(P_c2)
    ctx.ob("Collocator._bin_pairs.chunk1", P_c1 == c1, "second field = %s" % P_c1, "the primary chunk itself", node=rets[0], func=bp)
    ctx.ob("Collocator._bin_pairs.offset1", v_o1 is not None and norm(v_o1) == "%s.index.searchsorted(%s)" % (prim, c1s),
           "offset1 = %s" % (norm(v_o1) if v_o1 is not None else None), "position of the chunk start in the primary's time index (searchsorted, left)",
           node=defs.get(P_o1, rets[0]), func=bp)
    # secondary slice bounds
    c2s_name = c2e_name = None
    sl_ok = False
    fact = None
    c2def = defs.get(P_c2)
    if c2def is not None and isinstance(c2def.value, ast.Subscript) and norm(c2def.value.value) == "%s.loc" % sec \
            and isinstance(c2def.value.slice, ast.Slice) and c2def.value.slice.step is None:
        lo, hi = c2def.value.slice.lower, c2def.value.slice.upper
        if lo is not None and hi is not None:
            c2s_name, c2e_name = norm(lo), norm(hi)
            sl_ok = True
        fact = norm(c2def.value)
    elif c2def is not None:
        fact = norm(c2def.value)
    ctx.ob("Collocator._bin_pairs.chunk2", sl_ok, "secondary chunk = %s" % fact,
           "secondary.loc[lower:upper] - label slicing, inclusive at both ends (a strict mask would drop points the offset counts)",
           node=c2def or rets[0], func=bp)
    if sl_ok:
        lo_form = linear_form(flow.resolve(defs[c2s_name].value if c2s_name in defs else ast.parse(c2s_name, mode="eval").body, at=rets[0]),
                              {c1s: "B", mi: "M"})
        hi_v = defs[c2e_name].value if c2e_name in defs else None
        hi_form = linear_form(hi_v, {"%s.index.max()" % c1: "X", mi: "M", c1s: "B"}) if hi_v is not None else None
        ctx.ob("Collocator._bin_pairs.bounds", lo_form == {"B": 1, "M": -1} and hi_form == {"X": 1, "M": 1},
               "lower = %s, upper = %s" % (lo_form, hi_form), "lower = bin start - max_interval, upper = last primary time of the bin + max_interval",
               node=c2def, func=bp)
        ctx.ob("Collocator._bin_pairs.offset2", v_o2 is not None and norm(defs[P_o2].value) == "%s.index.searchsorted(%s)" % (sec, c2s_name),
               "offset2 = %s" % norm(defs[P_o2].value) if P_o2 in defs else None,
               "searchsorted (left) of the very bound that starts the secondary slice", node=defs.get(P_o2, rets[0]), func=bp)
    # ... and the interval by which the secondary window is widened is the caller's max_interval - not the bin width (bin_factor * max_interval:
    # with bin_factor < 1 pairs with bin_factor*max_interval < |dt| < max_interval were never candidates)
    from ..calls import bind_args
    sb = ctx.func(COL, "Collocator.spatial_search_with_temporal_binning")
    sflow = Flow(sb)
    bcalls = calls_in(sb.node, "_bin_pairs")
    if not bcalls:
        raise AnalysisError("spatial_search_with_temporal_binning: the call of _bin_pairs was not found")
    mi_caller = "max_interval" if "max_interval" in sb.all_params else None
    if mi_caller is None:
        raise AnalysisError("spatial_search_with_temporal_binning has no max_interval parameter")
    handed = []
    for c_ in bcalls:
        b_ = bind_args(c_, bp)
        a_ = b_.get(mi)
        handed.append(str(norm(sflow.resolve(a_, at=c_, depth=3, stop=(mi_caller,)))).replace(" ", "") if a_ is not None else None)
    def is_interval(t_):
        return t_ in (mi_caller, "pd.Timedelta(%s)" % mi_caller, "pd.Timedelta(%s).to_timedelta64()" % mi_caller, "pd.to_timedelta(%s)" % mi_caller)
    if any(t_ is None for t_ in handed):
        raise AnalysisError("spatial_search_with_temporal_binning: _bin_pairs is called without its interval")
    ok_mi = all(is_interval(t_) for t_ in handed)
    if not ok_mi and not any("bin_factor" in t_ or "bin_duration" in t_ for t_ in handed if not is_interval(t_)):
        raise AnalysisError("spatial_search_with_temporal_binning: interval %s handed to _bin_pairs not understood" % handed)
    ctx.ob("Collocator.spatial_search_with_temporal_binning.interval", ok_mi, "_bin_pairs(..., %s=%s)" % (mi, handed),
           "the caller's max_interval itself (the width of the primary bins is bin_factor * max_interval, the widening of the secondary window is not)",
           node=bcalls[0], func=sb, witness=None if ok_mi else {"bin_factor": 0.5, "lost": "pairs with 0.5 * max_interval < |dt| < max_interval"})


def rule_reuse(ctx):
    ctx.rule("C04.cache", "T1", "the cached spatial index is reused only when _spatial_is_cached(lat, lon) holds for the points at hand")
    b = ctx.func(COL, "Collocator._build_spatial_index")
    flow = Flow(b)
    lat, lon = b.params[1], b.params[2]
    rets = [r_ for r_ in flow.stmts if isinstance(r_, ast.Return) and r_.value is not None and norm(r_.value) == "self.index"]
    if not rets:
        raise AnalysisError("_build_spatial_index: the path that reuses self.index was not found")
    from ..flow import facts_at
    bad = []
    for r_ in rets:
        fa = facts_at(r_)
        pos = [norm(flow.resolve(e_, at=e_, stop=(lat, lon))) for e_, tr_ in fa if tr_]
        if "self._spatial_is_cached(%s, %s)" % (lat, lon) not in pos:
            bad.append("return self.index under %s" % ([("" if tr_ else "not ") + str(norm(e_)) for e_, tr_ in fa] or "no condition"))
    ctx.ob("Collocator._build_spatial_index.reuse", not bad, "; ".join(bad) or "self.index returned only under self._spatial_is_cached(%s, %s)" % (lat, lon),
           "every reuse is guarded by the comparison of the cached points with the points at hand (no flag remembered from an earlier call replaces it)",
           node=rets[0], func=b)


def rule_cache(ctx):
    ctx.rule("C04.cache", "T1", "a cached spatial index is reused only for coordinates identical to the ones it was built from")
    f = ctx.func(COL, "Collocator._spatial_is_cached")
    lat, lon = f.params[1], f.params[2]
    first = f.body[0] if f.body else None
    # without a cached index the answer is False: every return reachable under `self.index is None` is decided False
    cflow = Flow(f)
    asm_none = {"self.index is None": True, "self.index is not None": False, "self.index": False, "not self.index": True}
    rets_n = [r_ for r_ in cflow.stmts if isinstance(r_, ast.Return) and cflow.live_under(r_, asm_none)]
    vals_n = [(True if r_.value is None else cflow.decide_under(r_.value, asm_none, at=r_)) for r_ in rets_n]
    vals_n = [None if (r_.value is None) else v_ for r_, v_ in zip(rets_n, vals_n)]
    okn = bool(rets_n) and all(v_ is False for v_ in vals_n)
    ctx.ob("Collocator._spatial_is_cached.none", okn, "returns reachable without a cached index: %s" % [str(norm(r_.value))[:50] if r_.value is not None else None for r_ in rets_n],
           "no cached index -> False (decided before an attribute of the missing index is touched)", node=first or f.node, func=f)
    cmp_calls = calls_in(f.node, ("allclose", "array_equal", "array_equiv"))
    pairs_ = sorted((norm(c.args[0]), norm(c.args[1])) for c in cmp_calls if len(c.args) >= 2)
    want = sorted([(lat, "self.index.lat"), (lon, "self.index.lon")])
    alt = sorted([("self.index.lat", lat), ("self.index.lon", lon)])
    rets = [s for s in walk_no_nested(f.node) if isinstance(s, ast.Return) and calls_in(s.value, ("allclose", "array_equal")) ]
    conj = bool(rets) and all(not any(isinstance(n, (ast.Or, ast.BitOr)) for n in ast.walk(r.value)) for r in rets)
    ctx.ob("Collocator._spatial_is_cached.both", pairs_ in (want, alt) and conj, "comparisons: %s" % pairs_,
           "latitudes AND longitudes are each compared with those of the cached index", node=cmp_calls[0] if cmp_calls else f.node, func=f)
    tolerant = [str(norm(c.func)) for c in cmp_calls if (dotted(c.func) or "").split(".")[-1] in ("allclose", "isclose")]
    ctx.ob("Collocator._spatial_is_cached.exact", bool(cmp_calls) and not tolerant, "comparison functions: %s" % [str(norm(c.func)) for c in cmp_calls],
           "exact equality (np.array_equal): np.allclose accepts points that moved by up to ~1e-5 relative (100 m in longitude), they are then searched in the index of "
           "the old positions", node=cmp_calls[0] if cmp_calls else f.node, func=f,
           witness=None if (cmp_calls and not tolerant) else {"call 1": "primary at lat 80.0", "call 2": "same object, primary moved 0.0005 deg (55 m) north", "result": "None instead of 5 pairs"})
    # shapes: np.allclose broadcasts - a differently sized point set with equal values would match
    txt = " ".join(norm(r.value) for r in rets)
    uses_equal = any((dotted(c.func) or "").endswith("array_equal") for c in cmp_calls)
    shape_checked = uses_equal
    for n in walk_no_nested(f.node):
        if isinstance(n, ast.Compare) and len(n.ops) == 1 and isinstance(n.ops[0], (ast.Eq, ast.NotEq)):
            sides = [norm(n.left), norm(n.comparators[0])]
            if all(("shape" in x or ".size" in x or "len(" in x) for x in sides) and any(lat in x or lon in x for x in sides) \
                    and any("self.index" in x for x in sides):
                if isinstance(n.ops[0], ast.Eq):
                    shape_checked = True
                else:
                    g = parent(n)
                    while g is not None and not isinstance(g, ast.If):
                        g = parent(g)
                    if g is not None and isinstance(g.body[-1], ast.Return) and norm(g.body[-1].value) == "False":
                        shape_checked = True
    ctx.ob("Collocator._spatial_is_cached.shape", shape_checked, "return %s" % txt[:160],
           "the comparison also requires equal shapes (np.allclose broadcasts: a cached index of N equal points would be reused for "
           "1 point, or vice versa, and the returned indices then address the wrong array)", node=rets[0] if rets else f.node, func=f)


def rule_interval(ctx):
    ctx.rule("C04.interval", "T5", "stored interval = |time1 - time2| in seconds")
    f = ctx.func(COL, "Collocator._get_intervals")
    a, b = f.params[0], f.params[1]
    rets = [s for s in f.body if isinstance(s, ast.Return)]
    t = norm(rets[0].value).replace(" ", "") if rets else ""
    ok = t in ("np.abs(%s-%s).astype('timedelta64[s]')" % (a, b), "np.abs(%s-%s).astype('timedelta64[s]')" % (b, a),
               "np.abs((%s-%s)).astype('timedelta64[s]')" % (a, b))
    ctx.ob("Collocator._get_intervals", ok, "return %s" % (norm(rets[0].value) if rets else None), "abs(time1 - time2) as timedelta64[s]", node=f.node, func=f)


def rule_grid(ctx):
    """Scan-line x scan-position input is stacked to one `collocation` MultiIndex.  xarray refuses to overwrite a MultiIndex coordinate with
    plain labels ("would corrupt the following index"): it has to be dropped (its levels are saved first) before the coordinate is relabelled."""
    ctx.rule("C04.grid", "T1 api", "_create_return: the stacked MultiIndex is dropped before `collocation` gets plain labels")
    f = ctx.func(COL, "Collocator._create_return")
    flow = Flow(f)
    relabel = [st for st in flow.stmts if isinstance(st, ast.Assign) and isinstance(st.targets[0], ast.Subscript)
               and str(norm(st.targets[0].slice)).strip("'\"") == "collocation" and calls_in(st.value, "arange")]
    if len(relabel) != 1:
        raise AnalysisError("_create_return: the statement that relabels the collocation coordinate was not found")
    flags = [st for st in flow.stmts if isinstance(st, ast.Assign) and isinstance(st.targets[0], ast.Name) and "MultiIndex" in str(norm(st.value))]
    if not flags:
        ctx.ob("Collocator._create_return.multiindex", True, "no MultiIndex handling (inputs are flattened otherwise)", "nothing to drop", node=relabel[0], func=f)
        return
    flag = flags[0].targets[0].id
    drops = []
    for st in flow.stmts:
        if isinstance(st, ast.Assign) and any((c_.func.attr if isinstance(c_.func, ast.Attribute) else (dotted(c_.func) or "")) in ("drop_vars", "reset_index", "drop_indexes", "reset_coords") and
                                              any("collocation" in str(norm(a_)) for a_ in list(c_.args) + [k_.value for k_ in c_.keywords]) for c_ in calls_in(st.value)):
            from ..flow import guard_chain
            gc = guard_chain(st)
            under_flag = any(str(norm(t_)) == flag and pol_ for t_, pol_ in gc)
            if under_flag and flow._order(st) < flow._order(relabel[0]):
                drops.append(st)
    ctx.ob("Collocator._create_return.multiindex", bool(drops), "under `%s` before the relabelling: %s" % (flag, [str(norm(d_))[:70] for d_ in drops] or "nothing is dropped"),
           "the MultiIndex coordinate is dropped (drop_vars('collocation') / reset_index) before output[name]['collocation'] = np.arange(...): every gridded input raised "
           "ValueError (cannot set or update variable(s) 'collocation', which would corrupt the following index)", node=relabel[0], func=f,
           witness=None if drops else {"primary": "time(scnline), lat/lon(scnline, scnpos)", "collocate": "ValueError as soon as one pair exists"})


def rule_thresholds(ctx):
    """Thresholds as numbers: the number is the count of seconds, fraction included.  A spatial-only search (max_interval=None) still
    honours [start, end] and answers "no pair" with None."""
    ctx.rule("C04.thresholds", "T5", "a numeric max_interval keeps its fraction; the spatial-only mode keeps the period and the empty answer")
    from .C16 import ob_time_resolution
    ob_time_resolution(ctx)
    rule_fraction(ctx)
    rule_spatial_only(ctx)


def rule_fraction(ctx, rule=None):
    if rule is not None:
        ctx.rule(rule, "T5", "a numeric max_interval is that number of seconds, fraction included")
    tu = "typhon/utils/timeutils.py"
    f = ctx.func(tu, "to_timedelta")
    obj = f.params[0]
    flow = Flow(f)
    # the value handed to timedelta(**{numbers_as: V}) on the path of a number
    tds = [c for c in calls_in(f.node, "timedelta") if any(k.arg is None and isinstance(k.value, ast.Dict) and len(k.value.values) == 1 for k in c.keywords)]
    if len(tds) != 1:
        raise AnalysisError("to_timedelta: the construction timedelta(**{numbers_as: value}) was not found")
    v = [k.value.values[0] for k in tds[0].keywords if k.arg is None][0]
    v = flow.resolve(v, at=tds[0], depth=2, stop=(obj,))
    outcomes = {}
    for integral in (True, False):
        asm = {"isinstance(%s, Integral)" % obj: integral, "isinstance(%s, (int, np.integer))" % obj: integral, "isinstance(%s, int)" % obj: integral,
               "float(%s).is_integer()" % obj: integral}
        e = flow.resolve_under(v, asm, at=tds[0], stop=(obj,))
        outcomes[integral] = str(norm(e)).replace(" ", "")
    keeps = outcomes[False] in ("float(%s)" % obj, obj)
    truncates = outcomes[False] in ("int(%s)" % obj, "int(float(%s))" % obj, "%s//1" % obj, "math.floor(%s)" % obj, "round(%s)" % obj, "int(round(%s))" % obj)
    if not keeps and not truncates:
        raise AnalysisError("to_timedelta: value %s handed to timedelta for a non-integral number not understood" % outcomes[False])
    ctx.ob("to_timedelta.fraction", keeps, "non-integral number -> timedelta(**{numbers_as: %s}); integral -> %s" % (outcomes[False], outcomes[True]),
           "float(obj) (or obj itself): max_interval=10.5 means 10.5 seconds - int() made it 10 and lost the pairs with 10 s <= |dt| < 10.5 s that '10.5 s' reports",
           node=tds[0], func=f, witness=None if keeps else {"max_interval": 10.5, "|dt|": "10.0 s", "reported": False, "with '10.5 s'": True})


def rule_spatial_only(ctx):
    # no_pairs: the rows are used as index arrays
    g = ctx.func(COL, "Collocator.no_pairs")
    rets = [r for r in walk_no_nested(g.node) if isinstance(r, ast.Return) and r.value is not None]
    if len(rets) != 1 or not isinstance(rets[0].value, ast.Call):
        raise AnalysisError("no_pairs: single returned array not found")
    c = rets[0].value
    kw = {k.arg: str(norm(k.value)) for k in c.keywords}
    d = (dotted(c.func) or "").split(".")[-1]
    dt = kw.get("dtype", str(norm(c.args[1])) if d in ("array", "asarray", "empty", "zeros") and len(c.args) > 1 else None)
    if d not in ("array", "asarray", "empty", "zeros"):
        raise AnalysisError("no_pairs: %s not understood" % norm(c)[:60])
    int_ok = dt in ("int", "np.int64", "np.intp", "np.int_", "'int'", "'int64'", "np.int32", "'intp'")
    ctx.ob("Collocator.no_pairs", int_ok, "%s" % norm(c), "an INTEGER 2 x 0 array: its rows index the time arrays of a search without match (a float array raised IndexError "
           "where None is promised)", node=rets[0], func=g, witness=None if int_ok else {"collocate": "max_interval=None, no point within max_distance", "raises": "IndexError"})
    # _prepare_data: the common period is selected whenever something can limit it - an interval OR a period given by the user
    h = ctx.func(COL, "Collocator._prepare_data")
    cc = calls_in(h.node, "_get_common_time_period")
    if len(cc) != 1:
        raise AnalysisError("_prepare_data: the call of _get_common_time_period was not found")
    from ..flow import guard_chain
    from ..order import Interp
    gc_all = guard_chain(enclosing_stmt(cc[0]), implicit=True)
    mi_, st_, en_ = "max_interval", "start", "end"
    # (guards on the sizes of the datasets are a separate matter, decided below)
    def about_size(t_):
        return any(isinstance(n_, ast.Attribute) and n_.attr == "size" for n_ in ast.walk(t_)) or any(isinstance(n_, ast.Call) and dotted(n_.func) == "len" for n_ in ast.walk(t_))
    gc = [(t_, pol) for t_, pol in gc_all if not about_size(t_)]
    empties = [(t_, pol) for t_, pol in gc_all if about_size(t_)]
    # a dataset without any point: the extremes of its times do not exist (np.min of nothing raises) - it collocates with nothing
    P_, S_ = h.params[1], h.params[2]
    ok_empty = False
    for t_, pol in empties:
        tt_ok = True
        for pe, se in itertools.product((False, True), repeat=2):
            env_ = {}
            for who, e_ in ((P_, pe), (S_, se)):
                for sz in ("%s['time'].size" % who, "%s.time.size" % who, "%s.time.values.size" % who, "len(%s.time)" % who, "len(%s['time'])" % who):
                    env_[sz] = 0 if e_ else 2
                    env_["not %s" % sz] = e_
                    env_["%s == 0" % sz] = e_
            try:
                v_ = bool(Interp(env_).ev(t_))
            except AnalysisError as e2_:
                raise AnalysisError("_prepare_data: size guard %s outside the model: %s" % (norm(t_)[:60], e2_))
            # the call is reached iff the guard evaluates to `pol`: it must not be reached when either dataset is empty
            if (v_ == pol) != (not (pe or se)):
                tt_ok = False
        ok_empty = ok_empty or tt_ok
    ctx.ob("Collocator._prepare_data.empty", ok_empty, "size guards in front of the period selection: %s" % ([("%s" if pol else "not (%s)") % norm(t_) for t_, pol in empties] or "none"),
           "a dataset without any point returns (None, None) before the extremes of its times are taken: an empty file made the worker of collocate_filesets raise "
           "(ValueError: zero-size array to reduction operation minimum) and the collocations of the files queued behind it were lost", node=cc[0], func=h,
           witness=None if ok_empty else {"files": "hourly, one of them without points", "processes": 1, "reported": "2 of 6 pairs"})
    A, B, C_ = "%s is not None" % mi_, "%s > datetime.min" % st_, "%s < datetime.max" % en_
    wrong = None
    for a, b, c3 in itertools.product((False, True), repeat=3):
        env = {A: a, "%s is None" % mi_: not a, B: b, "datetime.min < %s" % st_: b, "%s != datetime.min" % st_: b, C_: c3, "datetime.max > %s" % en_: c3, "%s != datetime.max" % en_: c3,
               "%s == datetime.min" % st_: not b, "%s == datetime.max" % en_: not c3}
        try:
            reached = all(bool(Interp(env).ev(t_)) == pol for t_, pol in gc)
        except AnalysisError as e_:
            raise AnalysisError("_prepare_data: condition of the period selection outside the model: %s" % e_)
        if (a or b or c3) and not reached and wrong is None:
            wrong = {"max_interval given": a, "start given": b, "end given": c3, "period selected": reached}
    ctx.ob("Collocator._prepare_data.period", wrong is None, "period selected under: %s" % ([("%s" if pol else "not (%s)") % norm(t_) for t_, pol in gc] or "always"),
           "whenever max_interval, start or end is given: a spatial-only search (max_interval=None) is limited to [start, end] as well", node=cc[0], func=h, witness=wrong)

    # ... and the selection is what brings both datasets into time order (the temporal pre-binning relies on it): it is made for both
    # datasets whenever the period was computed, from the period sorted by time
    hflow = Flow(h)
    base_chain = [(str(norm(t_)), pol) for t_, pol in guard_chain(enclosing_stmt(cc[0]))]
    for who in (P_, S_):
        sels = [st2 for st2 in hflow.stmts if isinstance(st2, ast.Assign) and len(st2.targets) == 1 and norm(st2.targets[0]) == who
                and isinstance(st2.value, ast.Call) and isinstance(st2.value.func, ast.Attribute) and st2.value.func.attr in ("sel", "isel", "reindex")
                and norm(st2.value.func.value) == who]
        if len(sels) != 1:
            raise AnalysisError("_prepare_data: expected one selection `%s = %s.sel(...)` of the common period, found %d" % (who, who, len(sels)))
        own = [(str(norm(t_)), pol) for t_, pol in guard_chain(sels[0])]
        extra = [("%s" if pol else "not (%s)") % t_ for t_, pol in own if (t_, pol) not in base_chain]
        src = hflow.resolve(sels[0].value, at=sels[0], depth=4, stop=(P_, S_))
        by_time = any(isinstance(n_, ast.Call) and isinstance(n_.func, ast.Attribute) and n_.func.attr == "sortby" for n_ in ast.walk(src))
        ctx.ob("Collocator._prepare_data.sorted[%s]" % who, not extra and by_time,
               "%s%s; indexer sorted by time: %s" % (norm(sels[0])[:80], (" only if %s" % extra) if extra else " (unconditional)", by_time),
               "selected with the time-sorted period whenever the period was computed: skipping the selection ('everything lies inside') also skips the "
               "ordering by time that the searchsorted offsets and .loc slices of the temporal binning need", node=sels[0], func=h)


def run(ctx):
    for r in (rule_empty, rule_temporal, rule_window, rule_nan, rule_swap, rule_offsets, rule_cache, rule_interval, rule_reuse, rule_grid, rule_thresholds):
        ctx.attempt(r, ctx)
    from ..early import rule_early_table
    rule_early_table(ctx, "C04.answer", [
        (COL, "Collocator.spatial_search", ("query",), "the index query", ()),
        (COL, "Collocator.collocate", ("_spatial_search_with_temporal_binning", "spatial_search", "_temporal_check", "_prepare_data"), "the search", ()),
        (COL, "Collocator._spatial_search_bin", ("spatial_search",), "the search of the bin",
         [("(self.no_pairs, self.no_distances)", ["data1.empty or data2.empty"])]),      # a bin without points on one side has no pairs
    ])
