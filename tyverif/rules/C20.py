"""C20 - SRTM30 elevation mosaics are seamless and match the tiles cell by cell.

Table rule for the tiling (T3); order model of the rectangle-overlap predicate (T4); constants
and grid construction (T3+T5); cache guard (T1 + boolean model); orientation and mask pairing
in the mosaic assembly (T6); exact rational index model of get_native_grids and of the
longitude normalisation of get_tiles (T4b).  Float rounding at cell edges, KD-tree
interpolation and the download are not decided.
"""
import ast
import itertools
from fractions import Fraction
from ..core import AnalysisError, norm, dotted, calls_in, walk_no_nested, parent, enclosing_stmt, const_value
from ..flow import Flow, conjuncts, guard_chain
from ..order import Interp, eval_function
from ..ratinterp import Rat
from .C06 import fold

TOPO = "typhon/topography.py"
EXPECT = {"C20.args": 3, "C20.tiles": 3, "C20.overlap": 2, "C20.consts": 4, "C20.cache": 3, "C20.orient": 5, "C20.cover": 2, "C20.lonnorm": 2}


def _tiles(ctx):
    mod = ctx.mod(TOPO)
    t = mod.table("_tiles", scope="SRTM30")
    rows = []
    for e in t.elts:
        if not (isinstance(e, ast.Tuple) and len(e.elts) == 5):
            raise AnalysisError("_tiles row of unexpected form")
        rows.append((const_value(e.elts[0]),) + tuple(fold(x) for x in e.elts[1:]))
    return t, rows


def rule_tiles(ctx):
    ctx.rule("C20.tiles", "T3", "the tiles partition [-60, 90] x [-180, 180]: 27 tiles of 50 x 40 degrees, each name encodes its west and north edge")
    t, rows = _tiles(ctx)
    f = ctx.func(TOPO, "SRTM30.get_tiles")
    sizes = [(r[3] - r[1], r[4] - r[2]) for r in rows]
    ctx.ob("SRTM30._tiles.size", len(rows) == 27 and all(s == (50.0, 40.0) for s in sizes), "%d tiles; sizes %s" % (len(rows), sorted(set(sizes))), "27 tiles of 50 deg (lat) x 40 deg (lon)", node=t, func=f)
    # partition: every 10-degree cell of the covered area lies in exactly one tile
    bad = []
    for la in range(-60, 90, 10):
        for lo in range(-180, 180, 20):
            n = sum(1 for r in rows if r[1] <= la and la + 10 <= r[3] and r[2] <= lo and lo + 20 <= r[4])
            if n != 1:
                bad.append((la, lo, n))
    ctx.ob("SRTM30._tiles.partition", not bad, "cells covered other than once: %s" % (bad[:4] or "none"), "no gap, no overlap over [-60, 90] x [-180, 180]", node=t, func=f)
    wrong = []
    for name, la0, lo0, la1, lo1 in rows:
        want = "%s%03d%s%02d" % ("w" if lo0 < 0 else "e", abs(int(lo0)), "n" if la1 > 0 else "s", abs(int(la1)))
        if name != want:
            wrong.append((name, want))
    ctx.ob("SRTM30._tiles.names", not wrong, "names not matching their west/north edge: %s" % (wrong or "none"), "e.g. w180n90 = west edge -180, north edge 90", node=t, func=f)


def rule_overlap(ctx):
    ctx.rule("C20.overlap", "T4", "_do_overlap == open-interior intersection of two rectangles")
    f = ctx.func(TOPO, "_do_overlap")
    bad = None
    n = 0
    vals = range(4)
    other_yes = (0, 2, 1, 3)      # the other axis overlapping / not overlapping
    other_no = (0, 1, 2, 3)
    for axis in (0, 1):
        for a0, a1, b0, b1 in itertools.product(vals, repeat=4):
            if not (a0 < a1 and b0 < b1):
                continue
            for oth, oth_ov in ((other_yes, True), (other_no, False)):
                if axis == 0:
                    r1 = (a0, oth[0], a1, oth[1])
                    r2 = (b0, oth[2], b1, oth[3])
                else:
                    r1 = (oth[0], a0, oth[1], a1)
                    r2 = (oth[2], b0, oth[3], b1)
                got = bool(eval_function(f, [r1, r2]))
                want = (max(a0, b0) < min(a1, b1)) and oth_ov
                n += 1
                if got != want:
                    bad = {"rect_1": r1, "rect_2": r2, "returned": got, "expected": want}
    ctx.models.append({"rule": "C20.overlap", "cases": n, "domain": "end points 0..3 per axis, other axis overlapping / disjoint", "exhaustive": True})
    ctx.ob("_do_overlap", bad is None, "return %s" % norm(f.body[-1].value), "both axes: max(lo) < min(hi) (touching edges do not overlap)", node=f.node, func=f, witness=bad)
    g = ctx.func(TOPO, "SRTM30.get_tiles")
    c = calls_in(g.node, "_do_overlap")
    if len(c) != 1 or len(c[0].args) != 2:
        raise AnalysisError("get_tiles: expected one _do_overlap(roi, tile bounds) call")
    gflow = Flow(g)
    roi = gflow.resolve(c[0].args[0], at=c[0], depth=1, stop=tuple(g.params))
    ok_roi = isinstance(roi, ast.Tuple) and [norm(e) for e in roi.elts] == [g.params[0], g.params[1], g.params[2], g.params[3]]
    if not ok_roi and isinstance(roi, ast.Tuple) and len(roi.elts) == 4:
        # an edge kept under another name after its normalisation: it derives from the parameter of its position and from no other
        def params_behind(e_, at_, seen_=()):
            out_ = set()
            for n_ in ast.walk(e_):
                if isinstance(n_, ast.Name) and isinstance(n_.ctx, ast.Load):
                    ds_ = gflow.defs(n_.id, at_)
                    if "param" in ds_ and n_.id in g.params:
                        out_.add(n_.id)
                    for d_ in ds_:
                        if d_ != "param" and isinstance(d_, ast.Assign) and id(d_) not in seen_:
                            out_ |= params_behind(d_.value, d_, seen_ + (id(d_),))
            return out_
        ok_roi = all(params_behind(e_, enclosing_stmt(c[0])) == {g.params[i_]} for i_, e_ in enumerate(roi.elts))
    # the second rectangle: elements 1..4 of the table row, in table order
    tb = gflow.resolve(c[0].args[1], at=c[0], depth=1)
    row = None          # how the row variable is bound: the target of the loop / comprehension over SRTM30._tiles
    for n_ in walk_no_nested(g.node):
        if isinstance(n_, ast.For) and norm(n_.iter).endswith("_tiles"):
            row = n_.target
        if isinstance(n_, ast.comprehension) and norm(n_.iter).endswith("_tiles"):
            row = n_.target
    if row is None:
        raise AnalysisError("get_tiles: iteration over SRTM30._tiles not found")
    pos = {}            # name -> position in the row (or ('rest', first position))
    def bind(t_, src_pos=None):
        if isinstance(t_, (ast.Tuple, ast.List)):
            for i_, e_ in enumerate(t_.elts):
                if isinstance(e_, ast.Starred) and isinstance(e_.value, ast.Name):
                    pos[e_.value.id] = ("rest", i_, len(t_.elts) - i_ - 1)
                elif isinstance(e_, ast.Name):
                    pos[e_.id] = i_
    if isinstance(row, ast.Name):
        un = [st for st in walk_no_nested(g.node) if isinstance(st, ast.Assign) and isinstance(st.targets[0], (ast.Tuple, ast.List)) and norm(st.value) == row.id]
        if len(un) > 1:
            raise AnalysisError("get_tiles: the table row is unpacked more than once")
        if un:
            bind(un[0].targets[0])
    else:
        bind(row)
    ok_tb = False
    if isinstance(tb, ast.Tuple) and len(tb.elts) == 4 and all(isinstance(e, ast.Name) for e in tb.elts):
        ok_tb = [pos.get(e.id) for e in tb.elts] == [1, 2, 3, 4]
    elif isinstance(tb, ast.Tuple) and len(tb.elts) == 4 and isinstance(row, ast.Name) and all(
            isinstance(e, ast.Subscript) and isinstance(e.value, ast.Name) and e.value.id == row.id and isinstance(e.slice, ast.Constant) for e in tb.elts):
        ok_tb = [e.slice.value for e in tb.elts] == [1, 2, 3, 4]
    elif isinstance(tb, ast.Call) and dotted(tb.func) in ("tuple", "list") and len(tb.args) == 1 and isinstance(tb.args[0], ast.Name):
        ok_tb = pos.get(tb.args[0].id) == ("rest", 1, 0)
    elif isinstance(tb, ast.Name):
        ok_tb = pos.get(tb.id) == ("rest", 1, 0)
    elif isinstance(tb, ast.Subscript) and isinstance(row, ast.Name) and norm(tb) == "%s[1:]" % row.id:
        ok_tb = True
    else:
        raise AnalysisError("get_tiles: second rectangle %s of _do_overlap not understood" % norm(tb))
    ctx.ob("SRTM30.get_tiles.call", ok_roi and ok_tb, "%s  [row positions of the tile rectangle: %s]" % (norm(c[0]), [pos.get(getattr(e, "id", None)) for e in getattr(tb, "elts", [])] or "rest of the row"),
           "rectangles passed as (lat_min, lon_min, lat_max, lon_max), the tile row unpacked in table order", node=c[0], func=g)


def _consts(ctx):
    mod = ctx.mod(TOPO)
    env = {}
    for nm in ("_tile_height", "_tile_width"):
        env[nm] = Fraction(fold(mod.table(nm, scope="SRTM30"))).limit_denominator(10 ** 6)
    r = Rat({"_tile_height": env["_tile_height"], "_tile_width": env["_tile_width"]})
    for nm in ("_dlat", "_dlon"):
        env[nm] = r.ev(mod.table(nm, scope="SRTM30"))
    return env


def rule_consts(ctx):
    ctx.rule("C20.consts", "T3+T5", "cell sizes x tile dimensions = tile extents; grids have tile-dimension many cell centres; tiles are read as big-endian int16 (height, width)")
    k = _consts(ctx)
    f = ctx.func(TOPO, "SRTM30.get_grids")
    ctx.ob("SRTM30.cell_size", k["_dlat"] * k["_tile_height"] == 50 and k["_dlon"] * k["_tile_width"] == 40,
           "_dlat * _tile_height = %s, _dlon * _tile_width = %s" % (k["_dlat"] * k["_tile_height"], k["_dlon"] * k["_tile_width"]), "50 and 40 degrees (30 arc seconds per cell)", node=f.node, func=f)
    gflow = Flow(f)
    rets_g = [r_ for r_ in gflow.stmts if isinstance(r_, ast.Return)]
    ub = [st for st in gflow.stmts if isinstance(st, ast.Assign) and isinstance(st.targets[0], ast.Tuple) and len(st.targets[0].elts) == 4
          and calls_in(st.value, "get_bounds")]
    if len(rets_g) != 1 or not isinstance(rets_g[0].value, ast.Tuple) or len(rets_g[0].value.elts) != 2 or len(ub) != 1:
        raise AnalysisError("get_grids: bounds unpacking / (lat_grid, lon_grid) return not found")
    b0, b1, b2, b3 = [norm(e) for e in ub[0].targets[0].elts]
    lat_e, lon_e = [norm(gflow.resolve(e, at=rets_g[0], depth=4, stop=(b0, b1, b2, b3))).replace(" ", "") for e in rets_g[0].value.elts]
    A = {"lat_grid": [lat_e], "lon_grid": [lon_e]}
    okg = lat_e == "np.linspace(%s+0.5*SRTM30._dlat,%s-0.5*SRTM30._dlat,SRTM30._tile_height)[::-1]" % (b0, b2) \
        and lon_e == "np.linspace(%s+0.5*SRTM30._dlon,%s-0.5*SRTM30._dlon,SRTM30._tile_width)" % (b1, b3)
    ctx.ob("SRTM30.get_grids", okg, "lat: %s; lon: %s" % (A.get("lat_grid"), A.get("lon_grid")),
           "cell centres from edge + d/2 to edge - d/2: latitude descending (reversed), longitude ascending", node=f.node, func=f)
    g = ctx.func(TOPO, "SRTM30.get_tile")
    ff = calls_in(g.node, "fromfile")
    okt = False
    if ff:
        kw = {x.arg: norm(x.value).replace('"', "'") for x in ff[0].keywords}
        rs = parent(parent(ff[0]))
        okt = False
        if isinstance(rs, ast.Call) and norm(rs.func).endswith(".reshape"):
            gfl = Flow(g)
            shp = [gfl.resolve(a_, at=rs, depth=2) for a_ in rs.args]
            if len(shp) == 1 and isinstance(shp[0], (ast.Tuple, ast.List)):
                shp = list(shp[0].elts)
            okt = kw.get("dtype") in ("np.dtype('>i2')", "'>i2'") and [norm(a_) for a_ in shp] == ["SRTM30._tile_height", "SRTM30._tile_width"]
    ctx.ob("SRTM30.get_tile.read", okt, "%s" % (norm(parent(parent(ff[0])))[:110] if ff else None), "np.fromfile(..., dtype='>i2').reshape(_tile_height, _tile_width)", node=ff[0] if ff else g.node, func=g)
    b = ctx.func(TOPO, "SRTM30.get_bounds")
    # the row of the table whose name matches, without its name: elements 1..4 in table order (spelled as an unpacking, as subscripts or as a slice)
    bflow = Flow(b)
    brets = [r_ for r_ in walk_no_nested(b.node) if isinstance(r_, ast.Return) and r_.value is not None]
    if len(brets) != 1:
        raise AnalysisError("get_bounds: not one return")
    bv = bflow.resolve(brets[0].value, at=brets[0], depth=4)
    if isinstance(bv, ast.Call) and norm(bv.func) == "tuple" and len(bv.args) == 1:
        bv = bv.args[0]
    row_txt = None
    if isinstance(bv, ast.Tuple) and len(bv.elts) == 4 and all(isinstance(e_, ast.Subscript) and isinstance(e_.slice, ast.Constant) for e_ in bv.elts) \
            and len({norm(e_.value) for e_ in bv.elts}) == 1:
        idx = [e_.slice.value for e_ in bv.elts]
        row_txt = str(norm(bv.elts[0].value))
    elif isinstance(bv, ast.Subscript) and isinstance(bv.slice, ast.Slice) and bv.slice.step is None:
        lo_ = bv.slice.lower.value if isinstance(bv.slice.lower, ast.Constant) else None
        hi_ = bv.slice.upper.value if isinstance(bv.slice.upper, ast.Constant) else (5 if bv.slice.upper is None else None)
        if lo_ is None or hi_ is None:
            raise AnalysisError("get_bounds: slice %s of the row not understood" % norm(bv.slice))
        idx = list(range(lo_, hi_))
        row_txt = str(norm(bv.value))
    else:
        raise AnalysisError("get_bounds: the returned value %s is not four elements of the matching row" % str(norm(bv))[:80])
    okrow = row_txt.replace(" ", "") in ("[tfortinSRTM30._tilesift[0]==name][0]", "[tfortinSRTM30._tilesifname==t[0]][0]", "next((tfortinSRTM30._tilesift[0]==name))")
    if not okrow and "_tiles" not in row_txt:
        raise AnalysisError("get_bounds: the row %s does not come from the tile table" % row_txt[:80])
    okb = idx == [1, 2, 3, 4] and okrow
    ctx.ob("SRTM30.get_bounds", okb, "elements %s of %s" % (idx, row_txt[:80]), "the four bounds of the row whose name matches, in table order", node=b.node, func=b)


def rule_cache(ctx):
    ctx.rule("C20.cache", "T1", "a tile is downloaded only if the file that is subsequently read does not exist")
    # the cache directory is ONE absolute directory for every request: "~" is expanded by expanduser (expandvars leaves it as it is and the
    # cache becomes the relative directory ./~/.cache/... of whatever the current directory happens to be)
    dp = ctx.func(TOPO, "_get_data_path")
    homes = [c_ for c_ in calls_in(dp.node, ("expanduser", "expandvars")) if c_.args and isinstance(c_.args[0], ast.Constant) and str(c_.args[0].value).startswith("~")]
    if not homes:
        hh = [c_ for c_ in calls_in(dp.node, ("home",))]
        if not hh and "HOME" not in ast.unparse(dp.node):
            raise AnalysisError("_get_data_path: how the home directory of the default cache path is found was not understood")
    bad_home = [str(norm(c_)) for c_ in homes if (dotted(c_.func) or "").split(".")[-1] == "expandvars"]
    ctx.ob("_get_data_path.home", not bad_home, "home directory from: %s" % ([str(norm(c_)) for c_ in homes] or "Path.home() / $HOME"),
           "os.path.expanduser('~'): one absolute cache directory (with expandvars('~') a directory named '~' is created under the current directory, and after a chdir "
           "the cached tile is downloaded again)", node=homes[0] if homes else dp.node, func=dp,
           witness=None if not bad_home else {"TYPHON_DATA_PATH / XDG_CACHE_HOME": "unset", "cache directory": "./~/.cache/typhon/topography"})
    f = ctx.func(TOPO, "SRTM30.get_tile")
    dl = calls_in(f.node, "download_tile")
    ff = calls_in(f.node, "fromfile")
    if not dl or not ff:
        raise AnalysisError("get_tile: download / read calls not found")
    P = norm(ff[0].args[0])
    from ..flow import guard_chain
    g = parent(enclosing_stmt(dl[0]))
    while g is not None and not isinstance(g, (ast.If, ast.FunctionDef)):
        g = parent(g)
    ok = False
    fact = "download is unconditional"
    chain = guard_chain(enclosing_stmt(dl[0]), implicit=True)
    if chain:
        fact = "download under: %s" % [("" if p_ else "not ") + str(norm(t_)) for t_, p_ in chain]
        atoms = sorted(set(str(norm(c)) for t_, _ in chain for c in calls_in(t_, "exists")))
        want_atom = "os.path.exists(%s)" % P
        if want_atom not in atoms and isinstance(ff[0].args[0], ast.Name):
            # the name read below is bound to the same path on every way to the read: that path is what the test looks at
            fl_ = Flow(f)
            dvals = {str(norm(d_.value)) for d_ in fl_.defs(ff[0].args[0].id, enclosing_stmt(ff[0])) if d_ != "param" and isinstance(d_, ast.Assign)
                     and len(d_.targets) == 1 and isinstance(d_.targets[0], ast.Name)}
            if len(dvals) == 1 and len(fl_.defs(ff[0].args[0].id, enclosing_stmt(ff[0]))) >= 1 \
                    and all(d_ != "param" and isinstance(d_, ast.Assign) for d_ in fl_.defs(ff[0].args[0].id, enclosing_stmt(ff[0]))):
                want_atom = "os.path.exists(%s)" % dvals.pop()
        if isinstance(ff[0].args[0], ast.Name):
            # the file read after a download is the file download_tile stores: on the way from the download to the read the name read is
            # not left pointing at another candidate (a lower-case fall-back tried before the download)
            fl2_ = Flow(f)
            rd_ = enclosing_stmt(ff[0])
            alld_ = [d_ for d_ in fl2_.defs(ff[0].args[0].id, rd_) if d_ != "param" and isinstance(d_, ast.Assign)]
            vals_ = {str(norm(d_.value)) for d_ in alld_}
            if len(vals_) > 1:
                dst_ = enclosing_stmt(dl[0])
                after_dl = [d_ for d_ in alld_ if fl2_._order(d_) > fl2_._order(dst_)]
                canonical = [v_ for v_ in vals_ if ".upper()" in v_]
                ok_after = bool(after_dl) and all(str(norm(d_.value)) in canonical for d_ in after_dl)
                ctx.ob("SRTM30.get_tile.read_downloaded", ok_after, "the name read is bound to %d different paths: %s; re-bound after the download: %s" % (
                    len(vals_), sorted(v_[:60] for v_ in vals_), [str(norm(d_.value))[:50] for d_ in after_dl] or "no"),
                    "after download_tile(name) the file read is <NAME>.DEM, the file it stores - whatever other spelling was probed before",
                    node=rd_, func=f, witness=None if ok_after else {"cache": "empty", "first request": "FileNotFoundError", "second request": "succeeds"})
        tt_ok = want_atom in atoms
        if tt_ok:
            for vals in itertools.product([False, True], repeat=len(atoms)):
                env = dict(zip(atoms, vals))
                got = all(bool(Interp(env).ev(t_)) == p_ for t_, p_ in chain)
                if got != (not env[want_atom]):
                    tt_ok = False
        ok = tt_ok
    ctx.ob("SRTM30.get_tile.guard", ok, fact, "download iff `not os.path.exists(<the file read below>)` - independent of any other file (an extracted tile without its archive is cached)",
           node=g if isinstance(g, ast.If) else dl[0], func=f)
    flow = Flow(f)
    ok2 = flow._order(enclosing_stmt(ff[0])) > flow._order(enclosing_stmt(dl[0])) and not guard_chain(enclosing_stmt(ff[0]), implicit=True)
    if not ok2 and len(ff) > 1:
        # cache hit returned first (`if exists: return read`), then download and read: every read in front of the download stands under
        # `exists(<its file>)`, and one read follows the download under no further condition of its own
        before = [c_ for c_ in ff if flow._order(enclosing_stmt(c_)) < flow._order(enclosing_stmt(dl[0]))]
        after = [c_ for c_ in ff if flow._order(enclosing_stmt(c_)) > flow._order(enclosing_stmt(dl[0]))]
        hit_ok = all(any(str(norm(t_)) == "os.path.exists(%s)" % norm(c_.args[0]) and p_ for t_, p_ in guard_chain(enclosing_stmt(c_))) for c_ in before)
        same_file = len({str(norm(c_.args[0])) for c_ in ff}) == 1
        ok2 = bool(after) and hit_ok and same_file and any(not guard_chain(enclosing_stmt(c_)) or
                                                             [str(norm(t_)) for t_, _p in guard_chain(enclosing_stmt(c_))] == [str(norm(t_)) for t_, _p in guard_chain(enclosing_stmt(dl[0]))]
                                                             for c_ in after)
    ctx.ob("SRTM30.get_tile.order", ok2 and norm(dl[0].args[0]) == f.params[0], "read of %s after the guard: %s" % (P, ok2), "the read follows the (possible) download of the same tile", node=ff[0], func=f)


def rule_orient(ctx):
    ctx.rule("C20.orient", "T5/T6", "mosaic assembly: block bounds mask the tile grid, tile bounds mask the block grid, half-open intervals, latitude with latitude")
    f = ctx.func(TOPO, "SRTM30.elevation")
    flow = Flow(f)
    loop = [st for st in flow.stmts if isinstance(st, ast.For)]
    if not loop:
        raise AnalysisError("elevation: loop over the tiles not found")
    lp = loop[0]
    if not isinstance(lp.target, ast.Name):
        raise AnalysisError("elevation: loop variable is not a name")
    t = lp.target.id
    # roles, read from the calls
    gn = calls_in(f.node, "get_native_grids")
    gt = calls_in(f.node, "get_tiles")
    if len(gn) != 1 or len(gt) != 1:
        raise AnalysisError("elevation: get_native_grids / get_tiles calls not found")
    gt_args = list(gt[0].args)
    if len(gt_args) == 1 and isinstance(gt_args[0], ast.Starred):
        # get_tiles(*block): the four bounds are the elements of the unpacked tuple
        gt_args = []
        for k_ in range(4):
            e_ = ast.copy_location(ast.Subscript(value=gt[0].args[0].value, slice=ast.Constant(value=k_), ctx=ast.Load()), gt[0].args[0])
            ast.fix_missing_locations(e_)
            e_._parent = gt[0]
            gt_args.append(e_)
    if len(gt_args) != 4 or gt[0].keywords:
        raise AnalysisError("elevation: get_tiles is not called with the four block bounds")
    gst = enclosing_stmt(gn[0])
    if not (isinstance(gst, ast.Assign) and isinstance(gst.targets[0], ast.Tuple) and len(gst.targets[0].elts) == 2):
        raise AnalysisError("elevation: native grids are not unpacked into (lats, lons)")
    LD, OD = [norm(e) for e in gst.targets[0].elts]
    stores = [st for st in walk_no_nested(lp) if isinstance(st, ast.Assign) and isinstance(st.targets[0], ast.Subscript)]
    if len(stores) != 1 or not isinstance(stores[0].value, ast.Subscript):
        raise AnalysisError("elevation: expected one store `block[mask_d] = tile[mask_s]` in the loop")
    st0 = stores[0]
    # everything below is expressed in the native grid (LD, OD), the tile t and the block: the bounds handed to get_tiles by their values
    outer = tuple({LD, OD, t} | {norm(st0.targets[0].value)})
    B = [str(norm(flow.resolve(a_, at=gt[0], depth=6, stop=outer))) for a_ in gt_args]
    D = flow.resolve(st0.targets[0].slice, at=st0, depth=6, stop=outer)
    S = flow.resolve(st0.value.slice, at=st0, depth=6, stop=outer)
    src = flow.resolve(st0.value.value, at=st0, depth=2, stop=outer)
    G = ["SRTM30.get_grids(%s)[%d]" % (t, k) for k in (0, 1)]
    T = ["SRTM30.get_bounds(%s)[%d]" % (t, k) for k in range(4)]

    def rect(lo0, x0, hi0, lo1, x1, hi1):
        return "((%s <= %s) & (%s < %s)).reshape(-1, 1) & ((%s <= %s) & (%s < %s)).reshape(1, -1)" % (lo0, x0, x0, hi0, lo1, x1, x1, hi1)
    class _Col(ast.NodeTransformer):
        """x[:, np.newaxis] -> x.reshape(-1, 1) and x[np.newaxis, :] -> x.reshape(1, -1): the same column / row of a 1-d axis mask"""
        def visit_Subscript(self, n):
            n = self.generic_visit(n)
            sl = n.slice
            if isinstance(sl, ast.Tuple) and len(sl.elts) == 2:
                kinds = []
                for e_ in sl.elts:
                    if isinstance(e_, ast.Slice) and e_.lower is None and e_.upper is None and e_.step is None:
                        kinds.append("all")
                    elif (isinstance(e_, ast.Constant) and e_.value is None) or str(norm(e_)) in ("np.newaxis", "numpy.newaxis"):
                        kinds.append("new")
                    else:
                        kinds.append("?")
                if kinds in (["all", "new"], ["new", "all"]):
                    shp = [-1, 1] if kinds[0] == "all" else [1, -1]
                    return ast.copy_location(ast.Call(func=ast.Attribute(value=n.value, attr="reshape", ctx=ast.Load()),
                                                      args=[ast.parse(str(k_), mode="eval").body for k_ in shp], keywords=[]), n)
            return n
    D = ast.fix_missing_locations(_Col().visit(D))
    S = ast.fix_missing_locations(_Col().visit(S))
    want_s = rect(B[0], G[0], B[2], B[1], G[1], B[3])
    want_d = rect(T[0], LD, T[2], T[1], OD, T[3])
    ok_s = norm(S) == want_s
    ok_d = norm(D) == want_d
    ctx.ob("SRTM30.elevation.masks", ok_s and ok_d, "source mask: %s; destination mask: %s" % (norm(S)[:160], norm(D)[:160]),
           "source mask: block bounds on the tile grid; destination mask: tile bounds on the block grid; lower edge inclusive, upper exclusive; "
           "latitude along axis 0, longitude along axis 1", node=st0, func=f)
    blk = norm(st0.targets[0].value)
    rets = [r_ for r_ in flow.stmts if isinstance(r_, ast.Return)]
    ok_a = norm(src) == "SRTM30.get_tile(%s)" % t and bool(rets) and isinstance(rets[-1].value, ast.Tuple) \
        and [norm(e) for e in rets[-1].value.elts] == [LD, OD, blk]
    ctx.ob("SRTM30.elevation.assign", ok_a, "%s with tile = %s; returns %s" % (norm(st0)[:60], norm(src), norm(rets[-1].value) if rets else None),
           "block[mask_d] = SRTM30.get_tile(t)[mask_s]; (lats, lons, block) returned", node=st0, func=f)
    # every tile is processed: nothing leaves the loop early
    # ... except a tile whose destination mask is empty (no cell of the block lies in it): skipping that one changes nothing
    dname = st0.targets[0].slice.id if isinstance(st0.targets[0].slice, ast.Name) else None
    jumps = []
    harmless = []
    EMPTY = () if dname is None else ("not%s.any()" % dname, "notnp.any(%s)" % dname, "%s.sum()==0" % dname, "notnp.count_nonzero(%s)" % dname)
    SOME = () if dname is None else ("%s.any()" % dname, "np.any(%s)" % dname, "%s.sum()>0" % dname, "np.count_nonzero(%s)" % dname, "%s.sum()!=0" % dname)

    def nonempty_guard(test, pol):
        """the branch taken exactly when the destination mask has a cell"""
        t_ = str(norm(test)).replace(" ", "")
        return (pol and t_ in SOME) or (not pol and t_ in EMPTY)
    for n in walk_no_nested(lp):
        if isinstance(n, (ast.Break, ast.Return)):
            jumps.append(str(norm(n)))
        elif isinstance(n, ast.Continue):
            g_ = parent(n)
            t_ = str(norm(g_.test)).replace(" ", "") if isinstance(g_, ast.If) and len(g_.body) == 1 and not g_.orelse else None
            if t_ in EMPTY:
                harmless.append(t_)
            else:
                jumps.append("continue under %s" % (t_ or "?"))
    # the store itself may sit under `if mask.any():` (the same skip, written as a positive branch); any other condition on it is not modelled
    for test_, pol_ in guard_chain(st0, stop=lp, implicit=True):
        if nonempty_guard(test_, pol_):
            if str(norm(test_)).replace(" ", "") in SOME:
                harmless.append(str(norm(test_)))
        else:
            raise AnalysisError("elevation: the store into the block is conditional on %s" % str(norm(test_))[:60])
    it = lp.iter
    if isinstance(it, ast.Name):
        sd_ = flow.single_def_value(it.id, lp)
        it = sd_[0] if sd_ else it
    ctx.ob("SRTM30.elevation.all_tiles", not jumps and it is gt[0], "loop over %s; early exits: %s; skipped when the destination mask is empty: %s" % (
        norm(lp.iter), jumps or "none", bool(harmless)),
           "every tile named by get_tiles contributes its part of the block (no break / continue, except for a tile with an empty destination mask)", node=lp, func=f)
    # a tile is fetched (possibly downloaded) only when it contributes a cell: the bounds handed to get_tiles are cell centres +- half a
    # cell and carry round-off, so a rectangle that touches a tile border exactly lists the neighbour across the border
    gtile = [c_ for c_ in calls_in(lp, "get_tile")]
    if len(gtile) != 1:
        raise AnalysisError("elevation: the fetch of the tile (get_tile) inside the loop was not found")
    guarded_fetch = any(nonempty_guard(test_, pol_) for test_, pol_ in guard_chain(enclosing_stmt(gtile[0]), stop=lp, implicit=True))
    ctx.ob("SRTM30.elevation.fetch_needed", guarded_fetch, "get_tile is reached %s" % ("only after `if not %s.any(): continue`" % dname if guarded_fetch else "for every listed tile"),
           "a tile whose destination mask is empty is skipped BEFORE it is fetched: no download (and no failure offline) for a neighbour that contributes nothing",
           node=gtile[0], func=f, witness=None if guarded_fetch else {"cache": "only W020N40", "elevation": "(-10, 10, -9, 11)", "downloads": "w020s10"})
    # snapped bounds and inputs of the loop
    from ..canon import canon_text as _ct
    bv = [_ct(flow.resolve(a_, at=gt[0], depth=6, stop=(LD, OD))).replace(" ", "") for a_ in gt_args]
    want_b = ["np.min(%s)-0.5*SRTM30._dlat" % LD, "np.min(%s)-0.5*SRTM30._dlon" % OD, "np.max(%s)+0.5*SRTM30._dlat" % LD, "np.max(%s)+0.5*SRTM30._dlon" % OD]
    bdef = [d_ for d_ in flow.defs(blk, lp) if d_ != "param" and not any(d_ is x for x in ast.walk(lp))]
    okp = bv == [_ct(w_).replace(" ", "") for w_ in want_b] and len(bdef) == 1 and _ct(bdef[0].value).replace(" ", "") == _ct("np.zeros(%s.shape+%s.shape)" % (LD, OD)).replace(" ", "")
    ctx.ob("SRTM30.elevation.block", okp, "block bounds: %s; block = %s" % (bv, norm(bdef[0].value) if len(bdef) == 1 else None),
           "block bounds = outer cell edges of the native grid (centre -/+ half a cell); block of shape lats x lons, zero filled", node=gt[0], func=f)


def rule_cover(ctx):
    ctx.rule("C20.cover", "T4b", "get_native_grids returns exactly the cells meeting the open rectangle (aligned and unaligned edges, both axes)")
    f = ctx.func(TOPO, "SRTM30.get_native_grids")
    k = _consts(ctx)
    d_lat, d_lon = k["_dlat"], k["_dlon"]
    ar = [c for c in calls_in(f.node, "arange")]
    if len(ar) != 2:
        raise AnalysisError("get_native_grids: expected two np.arange(...) index ranges")
    # which arange belongs to latitude / longitude: by the returned grid it flows into
    flow = Flow(f)
    rets = [r_ for r_ in flow.stmts if isinstance(r_, ast.Return)]
    if len(rets) != 1 or not isinstance(rets[0].value, ast.Tuple) or len(rets[0].value.elts) != 2:
        raise AnalysisError("get_native_grids: does not return (lat_grid, lon_grid)")

    def feeds(expr):
        seen, todo = set(), [n_.id for n_ in ast.walk(expr) if isinstance(n_, ast.Name)]
        while todo:
            nm = todo.pop()
            if nm in seen:
                continue
            seen.add(nm)
            for st in flow.stmts:
                tg = st.targets[0] if isinstance(st, ast.Assign) else (st.target if isinstance(st, ast.AugAssign) else None)
                if isinstance(tg, ast.Name) and tg.id == nm:
                    todo.extend(n_.id for n_ in ast.walk(st.value) if isinstance(n_, ast.Name))
        return seen

    def target_of(c_):
        st = enclosing_stmt(c_)
        tg = st.targets[0] if isinstance(st, ast.Assign) else (st.target if isinstance(st, ast.AugAssign) else None)
        return tg.id if isinstance(tg, ast.Name) else None
    f_lat, f_lon = feeds(rets[0].value.elts[0]), feeds(rets[0].value.elts[1])
    lat_ar = [c_ for c_ in ar if target_of(c_) in f_lat and target_of(c_) not in f_lon]
    lon_ar = [c_ for c_ in ar if target_of(c_) in f_lon and target_of(c_) not in f_lat]
    if len(lat_ar) != 1 or len(lon_ar) != 1:
        raise AnalysisError("get_native_grids: cannot attribute the index ranges to the axes")
    st_lat = enclosing_stmt(lat_ar[0])
    st_lon = enclosing_stmt(lon_ar[0])
    # lattice phase of the grids: closed form of each returned grid with the index range replaced by a symbol k
    from ..flow import straight_env
    closed = straight_env(f.node)

    def phase(elt, d_name, d_val):
        e_ = closed.get(elt.id) if isinstance(elt, ast.Name) else elt
        if e_ is None:
            raise AnalysisError("get_native_grids: no closed form for the returned grid %s" % norm(elt))
        cnt = [0]

        class R_(ast.NodeTransformer):
            def visit_Call(self, n_):
                if (dotted(n_.func) or "").split(".")[-1] == "arange":
                    cnt[0] += 1
                    return ast.Name(id="_k_", ctx=ast.Load())
                return self.generic_visit(n_)
        from ..core import clone
        e2 = R_().visit(clone(e_))
        if cnt[0] != 1:
            raise AnalysisError("get_native_grids: grid %s is not built from one index range" % norm(elt))
        out = []
        for kk in (0, 1, 5):
            out.append(Rat({"_k_": Fraction(kk), d_name: d_val}).ev(e2))
        return out
    pl = phase(rets[0].value.elts[0], "SRTM30._dlat", d_lat)
    lat_ok = pl == [90 + d_lat / 2, 90 + d_lat / 2 - d_lat, 90 + d_lat / 2 - 5 * d_lat]
    po = phase(rets[0].value.elts[1], "SRTM30._dlon", d_lon)
    lon_ok = po == [-180 + d_lon / 2, -180 + d_lon / 2 + d_lon, -180 + d_lon / 2 + 5 * d_lon]
    den = 8 if ctx.tier == "thorough" else 4
    fr = [Fraction(k_, den) for k_ in range(den)]
    pts = [Fraction(n) + x for n in range(2, 8 if ctx.tier == "thorough" else 6) for x in fr]
    bad_lat = bad_lon = None
    n = 0
    for u, v in itertools.product(pts, repeat=2):
        if not u < v:
            continue
        n += 1
        # latitude: u = (90 - lat_max)/d, v = (90 - lat_min)/d ; row k spans (k-1, k) in these units
        lat_max, lat_min = 90 - u * d_lat, 90 - v * d_lat
        r = Rat({"lat_min": lat_min, "lat_max": lat_max, "lon_min": Fraction(0), "lon_max": Fraction(1), "SRTM30._dlat": d_lat, "SRTM30._dlon": d_lon})
        r.run(f.body, stop=st_lat)
        lo, hi = r.ev(lat_ar[0].args[0]), r.ev(lat_ar[0].args[1])
        got = set(range(int(lo), int(hi)))
        want = set(kk for kk in range(0, 12) if kk > u and kk - 1 < v)
        if got != want and bad_lat is None:
            bad_lat = {"(90-lat_max)/dlat": str(u), "(90-lat_min)/dlat": str(v), "rows returned": sorted(got), "rows meeting the rectangle": sorted(want)}
        # longitude: p = (lon_max+180)/d, q = (lon_min+180)/d ; column j spans (j, j+1)
        q, p = u, v
        lon_min, lon_max = -180 + q * d_lon, -180 + p * d_lon
        r = Rat({"lat_min": Fraction(0), "lat_max": Fraction(1), "lon_min": lon_min, "lon_max": lon_max, "SRTM30._dlat": d_lat, "SRTM30._dlon": d_lon})
        r.run(f.body, stop=st_lon)
        lo, hi = r.ev(lon_ar[0].args[0]), r.ev(lon_ar[0].args[1])
        got = set(range(int(lo), int(hi)))
        want = set(j for j in range(0, 12) if j < p and j + 1 > q)
        if got != want and bad_lon is None:
            bad_lon = {"(lon_min+180)/dlon": str(q), "(lon_max+180)/dlon": str(p), "columns returned": sorted(got), "columns meeting the rectangle": sorted(want)}
    ctx.models.append({"rule": "C20.cover", "cases": 2 * n, "domain": "edges at n + {0, 1/4, 1/2, 3/4} cells, exact rationals", "exhaustive": True})
    ctx.ob("SRTM30.get_native_grids.lat", bad_lat is None and lat_ok, "rows %s .. %s; grid phase ok: %s" % (norm(lat_ar[0].args[0]), norm(lat_ar[0].args[1]), lat_ok),
           "row k (centre 90 + d/2 - k d) is returned iff its cell (90 - k d, 90 - (k-1) d) meets (lat_min, lat_max)", node=st_lat, func=f, witness=bad_lat)
    ctx.ob("SRTM30.get_native_grids.lon", bad_lon is None and lon_ok, "columns %s .. %s; grid phase ok: %s" % (norm(lon_ar[0].args[0]), norm(lon_ar[0].args[1]), lon_ok),
           "column j (centre -180 + d/2 + j d) is returned iff its cell (-180 + j d, -180 + (j+1) d) meets (lon_min, lon_max)", node=st_lon, func=f, witness=bad_lon)


def rule_lonnorm(ctx):
    ctx.rule("C20.lonnorm", "T4b", "get_tiles: the longitude normalisation is the identity on [-180, 180) for the west and on (-180, 180] for the east edge")
    f = ctx.func(TOPO, "SRTM30.get_tiles")
    loop = [st for st in f.body if calls_in(st, "_do_overlap")]
    if not loop:
        raise AnalysisError("get_tiles: the statement that tests the tiles with _do_overlap was not found")
    vals = [Fraction(x) for x in range(-180, 181, 20)] + [Fraction(-1799, 10), Fraction(1799, 10), Fraction(1, 2), Fraction(-1, 2)]
    bad_w = bad_e = None
    for x in vals:
        r = Rat({"lon_min": x, "lon_max": x, "lat_min": Fraction(0), "lat_max": Fraction(1)})
        r.run(f.body, stop=loop[0])
        w, e = r.env.get("lon_min"), r.env.get("lon_max")
        # what the overlap test is actually handed: (lat_min, WEST, lat_max, EAST) - the normalised values may live under other names
        oc = calls_in(loop[0], "_do_overlap")
        rect = None
        for a_ in (oc[0].args if oc else []):
            a2 = a_
            if isinstance(a2, ast.Name) and a2.id in r.env and isinstance(r.env[a2.id], tuple) and len(r.env[a2.id]) == 4:
                rect = r.env[a2.id]
            elif isinstance(a2, (ast.Tuple, ast.List)) and len(a2.elts) == 4 and all(not isinstance(x_, ast.Starred) for x_ in a2.elts):
                try:
                    rect = tuple(r.ev(x_) for x_ in a2.elts)
                except Exception:
                    rect = None
            if rect is not None:
                break
        if rect is not None and rect[0] == 0 and rect[2] == 1:
            w, e = rect[1], rect[3]
        if w is None or e is None:
            raise AnalysisError("get_tiles: the normalised longitudes handed to the overlap test could not be evaluated (lon = %s)" % x)
        if -180 <= x < 180 and w != x and bad_w is None:
            bad_w = {"lon_min": str(x), "normalised to": str(w)}
        if -180 < x <= 180 and e != x and bad_e is None:
            bad_e = {"lon_max": str(x), "normalised to": str(e)}
    ctx.models.append({"rule": "C20.lonnorm", "cases": 2 * len(vals), "domain": "multiples of 20 degrees in [-180, 180] plus unaligned samples", "exhaustive": False})
    ctx.ob("SRTM30.get_tiles.west", bad_w is None, "lon_min normalisation", "identity on [-180, 180): a rectangle starting at the date line (-180) keeps its west edge", node=f.node, func=f, witness=bad_w)
    ctx.ob("SRTM30.get_tiles.east", bad_e is None, "lon_max normalisation", "identity on (-180, 180]: a rectangle ending at +180 keeps its east edge", node=f.node, func=f, witness=bad_e)


def run(ctx):
    for r in (rule_tiles, rule_overlap, rule_consts, rule_cache, rule_orient, rule_cover, rule_lonnorm):
        ctx.attempt(r, ctx)
    # the caller's arguments (arrays, filter / fill dictionaries) are not modified: an in-place update makes the next call on the same objects wrong
    from ..purity import rule_pure as _rule_args
    ctx.attempt(_rule_args, ctx, "C20.args", [('typhon/topography.py', 'SRTM30.elevation'), ('typhon/topography.py', 'SRTM30.get_native_grids'), ('typhon/topography.py', 'SRTM30.get_tiles')], "the caller's arguments are not modified in place")
