"""C20 - SRTM30 elevation mosaics are seamless and match the tiles cell by cell.

Table rule for the tiling (T3); order model of the rectangle-overlap predicate (T4); constants
and grid construction (T3+T5); cache guard (T1 + boolean model); orientation and mask pairing
in the mosaic assembly (T6); exact rational index model of get_native_grids and of the
longitude normalisation of get_tiles (T4b).  Float rounding at cell edges, KD-tree
interpolation and the download are not decided.
"""
import ast
import itertools
from fractions import Fraction
from ..core import AnalysisError, norm, dotted, calls_in, walk_no_nested, parent, enclosing_stmt, const_value
from ..flow import Flow, conjuncts
from ..order import Interp, eval_function
from ..ratinterp import Rat
from .C06 import fold

TOPO = "typhon/topography.py"
EXPECT = {"C20.tiles": 3, "C20.overlap": 2, "C20.consts": 4, "C20.cache": 2, "C20.orient": 5, "C20.cover": 2, "C20.lonnorm": 2}


def _tiles(ctx):
    mod = ctx.mod(TOPO)
    t = mod.table("_tiles", scope="SRTM30")
    rows = []
    for e in t.elts:
        if not (isinstance(e, ast.Tuple) and len(e.elts) == 5):
            raise AnalysisError("_tiles row of unexpected form")
        rows.append((const_value(e.elts[0]),) + tuple(fold(x) for x in e.elts[1:]))
    return t, rows


def rule_tiles(ctx):
    ctx.rule("C20.tiles", "T3", "the tiles partition [-60, 90] x [-180, 180]: 27 tiles of 50 x 40 degrees, each name encodes its west and north edge")
    t, rows = _tiles(ctx)
    f = ctx.func(TOPO, "SRTM30.get_tiles")
    sizes = [(r[3] - r[1], r[4] - r[2]) for r in rows]
    ctx.ob("SRTM30._tiles.size", len(rows) == 27 and all(s == (50.0, 40.0) for s in sizes), "%d tiles; sizes %s" % (len(rows), sorted(set(sizes))), "27 tiles of 50 deg (lat) x 40 deg (lon)", node=t, func=f)
    # partition: every 10-degree cell of the covered area lies in exactly one tile
    bad = []
    for la in range(-60, 90, 10):
        for lo in range(-180, 180, 20):
            n = sum(1 for r in rows if r[1] <= la and la + 10 <= r[3] and r[2] <= lo and lo + 20 <= r[4])
            if n != 1:
                bad.append((la, lo, n))
    ctx.ob("SRTM30._tiles.partition", not bad, "cells covered other than once: %s" % (bad[:4] or "none"), "no gap, no overlap over [-60, 90] x [-180, 180]", node=t, func=f)
    wrong = []
    for name, la0, lo0, la1, lo1 in rows:
        want = "%s%03d%s%02d" % ("w" if lo0 < 0 else "e", abs(int(lo0)), "n" if la1 > 0 else "s", abs(int(la1)))
        if name != want:
            wrong.append((name, want))
    ctx.ob("SRTM30._tiles.names", not wrong, "names not matching their west/north edge: %s" % (wrong or "none"), "e.g. w180n90 = west edge -180, north edge 90", node=t, func=f)


def rule_overlap(ctx):
    ctx.rule("C20.overlap", "T4", "_do_overlap == open-interior intersection of two rectangles")
    f = ctx.func(TOPO, "_do_overlap")
    bad = None
    n = 0
    vals = range(4)
    other_yes = (0, 2, 1, 3)      # the other axis overlapping / not overlapping
    other_no = (0, 1, 2, 3)
    for axis in (0, 1):
        for a0, a1, b0, b1 in itertools.product(vals, repeat=4):
            if not (a0 < a1 and b0 < b1):
                continue
            for oth, oth_ov in ((other_yes, True), (other_no, False)):
                if axis == 0:
                    r1 = (a0, oth[0], a1, oth[1])
                    r2 = (b0, oth[2], b1, oth[3])
                else:
                    r1 = (oth[0], a0, oth[1], a1)
                    r2 = (oth[2], b0, oth[3], b1)
                got = bool(eval_function(f, [r1, r2]))
                want = (max(a0, b0) < min(a1, b1)) and oth_ov
                n += 1
                if got != want:
                    bad = {"rect_1": r1, "rect_2": r2, "returned": got, "expected": want}
    ctx.models.append({"rule": "C20.overlap", "cases": n, "domain": "end points 0..3 per axis, other axis overlapping / disjoint", "exhaustive": True})
    ctx.ob("_do_overlap", bad is None, "return %s" % norm(f.body[-1].value), "both axes: max(lo) < min(hi) (touching edges do not overlap)", node=f.node, func=f, witness=bad)
    g = ctx.func(TOPO, "SRTM30.get_tiles")
    c = calls_in(g.node, "_do_overlap")
    ok = bool(c) and [norm(a).replace(" ", "") for a in c[0].args] == ["(lat_min,lon_min,lat_max,lon_max)", "(lat_min_1,lon_min_1,lat_max_1,lon_max_1)"]
    un = [st for st in walk_no_nested(g.node) if isinstance(st, ast.Assign) and isinstance(st.targets[0], ast.Tuple) and norm(st.value) == "t"]
    ok = ok and bool(un) and [norm(e) for e in un[0].targets[0].elts] == ["name", "lat_min_1", "lon_min_1", "lat_max_1", "lon_max_1"]
    ctx.ob("SRTM30.get_tiles.call", ok, "%s" % (norm(c[0]) if c else None), "rectangles passed as (lat_min, lon_min, lat_max, lon_max), the tile row unpacked in table order", node=c[0] if c else g.node, func=g)


def _consts(ctx):
    mod = ctx.mod(TOPO)
    env = {}
    for nm in ("_tile_height", "_tile_width"):
        env[nm] = Fraction(fold(mod.table(nm, scope="SRTM30"))).limit_denominator(10 ** 6)
    r = Rat({"_tile_height": env["_tile_height"], "_tile_width": env["_tile_width"]})
    for nm in ("_dlat", "_dlon"):
        env[nm] = r.ev(mod.table(nm, scope="SRTM30"))
    return env


def rule_consts(ctx):
    ctx.rule("C20.consts", "T3+T5", "cell sizes x tile dimensions = tile extents; grids have tile-dimension many cell centres; tiles are read as big-endian int16 (height, width)")
    k = _consts(ctx)
    f = ctx.func(TOPO, "SRTM30.get_grids")
    ctx.ob("SRTM30.cell_size", k["_dlat"] * k["_tile_height"] == 50 and k["_dlon"] * k["_tile_width"] == 40,
           "_dlat * _tile_height = %s, _dlon * _tile_width = %s" % (k["_dlat"] * k["_tile_height"], k["_dlon"] * k["_tile_width"]), "50 and 40 degrees (30 arc seconds per cell)", node=f.node, func=f)
    A = {}
    for st in f.body:
        if isinstance(st, ast.Assign) and isinstance(st.targets[0], ast.Name):
            A.setdefault(st.targets[0].id, []).append(norm(st.value).replace(" ", ""))
    okg = A.get("lat_grid") == ["np.linspace(start,stop,SRTM30._tile_height)[::-1]"] and A.get("lon_grid") == ["np.linspace(start,stop,SRTM30._tile_width)"] \
        and A.get("start") == ["lat_min+0.5*SRTM30._dlat", "lon_min+0.5*SRTM30._dlon"] and A.get("stop") == ["lat_max-0.5*SRTM30._dlat", "lon_max-0.5*SRTM30._dlon"]
    ctx.ob("SRTM30.get_grids", okg, "lat: %s; lon: %s" % (A.get("lat_grid"), A.get("lon_grid")),
           "cell centres from edge + d/2 to edge - d/2: latitude descending (reversed), longitude ascending", node=f.node, func=f)
    g = ctx.func(TOPO, "SRTM30.get_tile")
    ff = calls_in(g.node, "fromfile")
    okt = False
    if ff:
        kw = {x.arg: norm(x.value).replace('"', "'") for x in ff[0].keywords}
        rs = parent(parent(ff[0]))
        okt = kw.get("dtype") in ("np.dtype('>i2')", "'>i2'") and isinstance(rs, ast.Call) and norm(rs.func).endswith(".reshape") \
            and [norm(a) for a in rs.args] == ["SRTM30._tile_height", "SRTM30._tile_width"]
    ctx.ob("SRTM30.get_tile.read", okt, "%s" % (norm(parent(parent(ff[0])))[:110] if ff else None), "np.fromfile(..., dtype='>i2').reshape(_tile_height, _tile_width)", node=ff[0] if ff else g.node, func=g)
    b = ctx.func(TOPO, "SRTM30.get_bounds")
    okb = [norm(s).replace(" ", "") for s in b.body][-2:] == ["_,lat_min,lon_min,lat_max,lon_max=tile", "return(lat_min,lon_min,lat_max,lon_max)"]
    ctx.ob("SRTM30.get_bounds", okb, "%s" % [norm(s) for s in b.body][-2:], "the row's four bounds in table order", node=b.node, func=b)


def rule_cache(ctx):
    ctx.rule("C20.cache", "T1", "a tile is downloaded only if the file that is subsequently read does not exist")
    f = ctx.func(TOPO, "SRTM30.get_tile")
    dl = calls_in(f.node, "download_tile")
    ff = calls_in(f.node, "fromfile")
    if not dl or not ff:
        raise AnalysisError("get_tile: download / read calls not found")
    P = norm(ff[0].args[0])
    g = parent(enclosing_stmt(dl[0]))
    ok = False
    fact = "download is unconditional"
    if isinstance(g, ast.If) and enclosing_stmt(dl[0]) in g.body:
        fact = "if %s: download" % norm(g.test)
        atoms = sorted(set(norm(c) for c in calls_in(g.test, "exists")))
        want_atom = "os.path.exists(%s)" % P
        tt_ok = want_atom in atoms
        if tt_ok:
            for vals in itertools.product([False, True], repeat=len(atoms)):
                env = dict(zip(atoms, vals))
                got = bool(Interp(env).ev(g.test))
                if got != (not env[want_atom]):
                    tt_ok = False
        ok = tt_ok
    ctx.ob("SRTM30.get_tile.guard", ok, fact, "download iff `not os.path.exists(<the file read below>)` - independent of any other file (an extracted tile without its archive is cached)",
           node=g if isinstance(g, ast.If) else dl[0], func=f)
    flow = Flow(f)
    ok2 = all(flow.cfg.dominated_by(n, set(flow.cfg.nodes(g))) for n in flow.cfg.nodes(enclosing_stmt(ff[0]))) if isinstance(g, ast.If) else False
    ctx.ob("SRTM30.get_tile.order", ok2 and norm(dl[0].args[0]) == f.params[0], "read of %s after the guard: %s" % (P, ok2), "the read follows the (possible) download of the same tile", node=ff[0], func=f)


def rule_orient(ctx):
    ctx.rule("C20.orient", "T5/T6", "mosaic assembly: block bounds mask the tile grid, tile bounds mask the block grid, half-open intervals, latitude with latitude")
    f = ctx.func(TOPO, "SRTM30.elevation")
    flow = Flow(f)
    loop = [st for st in flow.stmts if isinstance(st, ast.For)]
    if not loop:
        raise AnalysisError("elevation: loop over the tiles not found")
    lp = loop[0]
    seq = [(norm(st.targets[0]), norm(st.value).replace(" ", "")) for st in lp.body if isinstance(st, ast.Assign)]
    d = {}
    for k, v in seq:
        d.setdefault(k, []).append(v)
    want_lat = ["np.logical_and(lat_min<=lats,lats<lat_max)", "np.logical_and(lat_min_s<=lats_d,lats_d<lat_max_s)"]
    want_lon = ["np.logical_and(lon_min<=lons,lons<lon_max)", "np.logical_and(lon_min_s<=lons_d,lons_d<lon_max_s)"]
    ctx.ob("SRTM30.elevation.masks", d.get("inds_lat") == want_lat and d.get("inds_lon") == want_lon, "inds_lat: %s; inds_lon: %s" % (d.get("inds_lat"), d.get("inds_lon")),
           "source mask: block bounds on the tile grid; destination mask: tile bounds on the block grid; lower edge inclusive, upper exclusive", node=lp, func=f)
    comb = "np.logical_and(inds_lat.reshape(-1,1),inds_lon.reshape(1,-1))"
    store = [norm(st).replace(" ", "") for st in lp.body if isinstance(st, ast.Assign) and isinstance(st.targets[0], ast.Subscript)]
    ctx.ob("SRTM30.elevation.assign", d.get("inds_s") == [comb] and d.get("inds_d") == [comb] and store == ["elevation[inds_d]=dem[inds_s]"],
           "inds_s/inds_d = %s / %s; %s" % (d.get("inds_s"), d.get("inds_d"), store), "2-D masks (lat x lon) and elevation[inds_d] = dem[inds_s]", node=lp, func=f)
    # order of the mask computations: source masks computed before they are overwritten by the destination masks
    order = [k for k, v in seq if k in ("inds_lat", "inds_lon", "inds_s", "inds_d")]
    ctx.ob("SRTM30.elevation.order", order == ["inds_lat", "inds_lon", "inds_s", "inds_lat", "inds_lon", "inds_d"], "%s" % order, "source masks combined before the names are reused for the destination", node=lp, func=f)
    # every tile is processed: nothing leaves the loop early
    jumps = [norm(n) for n in walk_no_nested(lp) if isinstance(n, (ast.Break, ast.Continue, ast.Return))]
    ctx.ob("SRTM30.elevation.all_tiles", not jumps and norm(lp.iter) == "tiles", "loop over %s; early exits: %s" % (norm(lp.iter), jumps or "none"),
           "every tile named by get_tiles contributes its part of the block (no break / continue)", node=lp, func=f)
    # snapped bounds and inputs of the loop
    pre = {norm(st.targets[0]): norm(st.value).replace(" ", "") for st in f.body if isinstance(st, ast.Assign) and isinstance(st.targets[0], ast.Name)}
    okp = pre.get("lat_min") == "lats_d.min()-0.5*SRTM30._dlat" and pre.get("lat_max") == "lats_d.max()+0.5*SRTM30._dlat" \
        and pre.get("lon_min") == "lons_d.min()-0.5*SRTM30._dlon" and pre.get("lon_max") == "lons_d.max()+0.5*SRTM30._dlon" \
        and pre.get("tiles") == "SRTM30.get_tiles(lat_min,lon_min,lat_max,lon_max)" and pre.get("elevation") == "np.zeros(lats_d.shape+lons_d.shape)"
    un = [st for st in lp.body if isinstance(st, ast.Assign) and isinstance(st.targets[0], ast.Tuple)]
    okp = okp and [norm(s).replace(" ", "") for s in un] == ["lats,lons=SRTM30.get_grids(t)", "lat_min_s,lon_min_s,lat_max_s,lon_max_s=SRTM30.get_bounds(t)"]
    ctx.ob("SRTM30.elevation.block", okp, "block bounds: %s" % {k: pre.get(k) for k in ("lat_min", "lat_max", "lon_min", "lon_max")},
           "block bounds = outer cell edges of the native grid (centre -/+ half a cell); tiles, grids and bounds of the same tile t", node=f.node, func=f)


def rule_cover(ctx):
    ctx.rule("C20.cover", "T4b", "get_native_grids returns exactly the cells meeting the open rectangle (aligned and unaligned edges, both axes)")
    f = ctx.func(TOPO, "SRTM30.get_native_grids")
    k = _consts(ctx)
    d_lat, d_lon = k["_dlat"], k["_dlon"]
    ar = [c for c in calls_in(f.node, "arange")]
    if len(ar) != 2:
        raise AnalysisError("get_native_grids: expected two np.arange(...) index ranges")
    # which arange belongs to latitude / longitude: by the statement that uses it
    lat_ar = [c for c in ar if "lat" in norm(enclosing_stmt(c).targets[0] if isinstance(enclosing_stmt(c), ast.Assign) else enclosing_stmt(c).target)]
    lon_ar = [c for c in ar if c not in lat_ar]
    if len(lat_ar) != 1 or len(lon_ar) != 1:
        raise AnalysisError("get_native_grids: cannot attribute the index ranges to the axes")
    # lattice phase of the grids
    st_lat = enclosing_stmt(lat_ar[0])
    lat_ok = norm(st_lat.value).replace(" ", "") == "90+0.5*SRTM30._dlat-%s*SRTM30._dlat" % norm(lat_ar[0]).replace(" ", "")
    st_lon = enclosing_stmt(lon_ar[0])
    lon0 = [st for st in f.body if isinstance(st, ast.Assign) and norm(st.targets[0]) == "lon_grid"]
    lon_ok = bool(lon0) and norm(lon0[0].value).replace(" ", "") == "-180+0.5*SRTM30._dlon" and isinstance(st_lon, ast.AugAssign) and isinstance(st_lon.op, ast.Add) \
        and norm(st_lon.value).replace(" ", "") == "%s*SRTM30._dlon" % norm(lon_ar[0]).replace(" ", "")
    den = 8 if ctx.tier == "thorough" else 4
    fr = [Fraction(k_, den) for k_ in range(den)]
    pts = [Fraction(n) + x for n in range(2, 8 if ctx.tier == "thorough" else 6) for x in fr]
    bad_lat = bad_lon = None
    n = 0
    for u, v in itertools.product(pts, repeat=2):
        if not u < v:
            continue
        n += 1
        # latitude: u = (90 - lat_max)/d, v = (90 - lat_min)/d ; row k spans (k-1, k) in these units
        lat_max, lat_min = 90 - u * d_lat, 90 - v * d_lat
        r = Rat({"lat_min": lat_min, "lat_max": lat_max, "lon_min": Fraction(0), "lon_max": Fraction(1), "SRTM30._dlat": d_lat, "SRTM30._dlon": d_lon})
        r.run(f.body, stop=st_lat)
        lo, hi = r.ev(lat_ar[0].args[0]), r.ev(lat_ar[0].args[1])
        got = set(range(int(lo), int(hi)))
        want = set(kk for kk in range(0, 12) if kk > u and kk - 1 < v)
        if got != want and bad_lat is None:
            bad_lat = {"(90-lat_max)/dlat": str(u), "(90-lat_min)/dlat": str(v), "rows returned": sorted(got), "rows meeting the rectangle": sorted(want)}
        # longitude: p = (lon_max+180)/d, q = (lon_min+180)/d ; column j spans (j, j+1)
        q, p = u, v
        lon_min, lon_max = -180 + q * d_lon, -180 + p * d_lon
        r = Rat({"lat_min": Fraction(0), "lat_max": Fraction(1), "lon_min": lon_min, "lon_max": lon_max, "SRTM30._dlat": d_lat, "SRTM30._dlon": d_lon})
        r.run(f.body, stop=st_lon)
        lo, hi = r.ev(lon_ar[0].args[0]), r.ev(lon_ar[0].args[1])
        got = set(range(int(lo), int(hi)))
        want = set(j for j in range(0, 12) if j < p and j + 1 > q)
        if got != want and bad_lon is None:
            bad_lon = {"(lon_min+180)/dlon": str(q), "(lon_max+180)/dlon": str(p), "columns returned": sorted(got), "columns meeting the rectangle": sorted(want)}
    ctx.models.append({"rule": "C20.cover", "cases": 2 * n, "domain": "edges at n + {0, 1/4, 1/2, 3/4} cells, exact rationals", "exhaustive": True})
    ctx.ob("SRTM30.get_native_grids.lat", bad_lat is None and lat_ok, "rows %s .. %s; grid phase ok: %s" % (norm(lat_ar[0].args[0]), norm(lat_ar[0].args[1]), lat_ok),
           "row k (centre 90 + d/2 - k d) is returned iff its cell (90 - k d, 90 - (k-1) d) meets (lat_min, lat_max)", node=st_lat, func=f, witness=bad_lat)
    ctx.ob("SRTM30.get_native_grids.lon", bad_lon is None and lon_ok, "columns %s .. %s; grid phase ok: %s" % (norm(lon_ar[0].args[0]), norm(lon_ar[0].args[1]), lon_ok),
           "column j (centre -180 + d/2 + j d) is returned iff its cell (-180 + j d, -180 + (j+1) d) meets (lon_min, lon_max)", node=st_lon, func=f, witness=bad_lon)


def rule_lonnorm(ctx):
    ctx.rule("C20.lonnorm", "T4b", "get_tiles: the longitude normalisation is the identity on [-180, 180) for the west and on (-180, 180] for the east edge")
    f = ctx.func(TOPO, "SRTM30.get_tiles")
    loop = [st for st in f.body if isinstance(st, ast.For)]
    if not loop:
        raise AnalysisError("get_tiles: loop over the tiles not found")
    vals = [Fraction(x) for x in range(-180, 181, 20)] + [Fraction(-1799, 10), Fraction(1799, 10), Fraction(1, 2), Fraction(-1, 2)]
    bad_w = bad_e = None
    for x in vals:
        r = Rat({"lon_min": x, "lon_max": x, "lat_min": Fraction(0), "lat_max": Fraction(1)})
        r.run(f.body, stop=loop[0])
        w, e = r.env.get("lon_min"), r.env.get("lon_max")
        if -180 <= x < 180 and w != x and bad_w is None:
            bad_w = {"lon_min": str(x), "normalised to": str(w)}
        if -180 < x <= 180 and e != x and bad_e is None:
            bad_e = {"lon_max": str(x), "normalised to": str(e)}
    ctx.models.append({"rule": "C20.lonnorm", "cases": 2 * len(vals), "domain": "multiples of 20 degrees in [-180, 180] plus unaligned samples", "exhaustive": False})
    ctx.ob("SRTM30.get_tiles.west", bad_w is None, "lon_min normalisation", "identity on [-180, 180): a rectangle starting at the date line (-180) keeps its west edge", node=f.node, func=f, witness=bad_w)
    ctx.ob("SRTM30.get_tiles.east", bad_e is None, "lon_max normalisation", "identity on (-180, 180]: a rectangle ending at +180 keeps its east edge", node=f.node, func=f, witness=bad_e)


def run(ctx):
    for r in (rule_tiles, rule_overlap, rule_consts, rule_cache, rule_orient, rule_cover, rule_lonnorm):
        ctx.attempt(r, ctx)
