"""C10 - parallel map / imap / collect / align process each file once and keep file order.

The property quantifies over schedules; what is decided is the discipline that makes the
answer schedule-independent: imap's in-flight container is a FIFO whose every removal is
`popleft().result()`, bounded by an inductive loop invariant, flushed after the submissions;
only order-preserving executor APIs are used; the 11-tuple of worker arguments is packed and
unpacked field by field in one order; only the read is inside the warning-downgrading try; collect
drops exactly None contents; align pulls a secondary only when not cached, compares its name,
decrements once per use and evicts at zero, and never skips a primary's secondaries.
Executor behaviour and actual completion orders are not decided.
"""
import ast
import itertools
from ..core import AnalysisError, norm, dotted, calls_in, walk_no_nested, parent, enclosing_stmt
from ..flow import Flow, lexically_inside
from ..order import Interp, Model
from ..cfg import stmt_before, EXIT, RAISE, ENTRY

FILESET = "typhon/files/fileset.py"
EXPECT = {"C10.fifo": 3, "C10.bound": 1 + 2, "C10.flush": 1, "C10.ordered": 2, "C10.args": 3, "C10.errwrap": 2, "C10.collect": 4, "C10.align": 9, "C10.filenames": 1}


def _queue_name(f):
    for st in walk_no_nested(f.node):
        if isinstance(st, ast.Assign) and isinstance(st.targets[0], ast.Name) and isinstance(st.value, ast.Call) \
                and (dotted(st.value.func) or "").split(".")[-1] in ("deque", "list", "Queue") and not st.value.args:
            return st.targets[0].id, st
        if isinstance(st, ast.Assign) and isinstance(st.targets[0], ast.Name) and isinstance(st.value, ast.List) and not st.value.elts:
            return st.targets[0].id, st
    raise AnalysisError("imap: in-flight container not found")


def rule_fifo(ctx):
    ctx.rule("C10.fifo", "T1 typestate", "imap: in-flight futures form a FIFO; every yielded value is .result() of the removed head; "
             "submissions follow worker_args")
    f = ctx.func(FILESET, "FileSet.imap")
    q, qdef = _queue_name(f)
    ins, rem, other = [], [], []
    for c in calls_in(f.node):
        if isinstance(c.func, ast.Attribute) and norm(c.func.value) == q:
            m = c.func.attr
            if m == "append":
                ins.append(c)
            elif m == "popleft" or (m == "pop" and c.args and norm(c.args[0]) == "0"):
                rem.append(c)
            else:
                other.append(norm(c))
    # any other way of taking elements out / looking into the queue (indexing, iteration, del, remove)
    for n in walk_no_nested(f.node):
        if isinstance(n, ast.Subscript) and norm(n.value) == q:
            other.append(norm(n))
        if isinstance(n, (ast.For, ast.comprehension)) and norm(n.iter) == q:
            other.append("iteration over %s" % q)
        if isinstance(n, ast.Delete) and any(q in norm(t) for t in n.targets):
            other.append(norm(n))
    ctx.ob("FileSet.imap.fifo", bool(ins) and bool(rem) and not other,
           "inserts: %s; removals: %s; other accesses: %s" % (sorted(set(norm(c.func) for c in ins)), sorted(set(norm(c.func) for c in rem)), other or "none"),
           "append at one end, popleft()/pop(0) at the other, and nothing else touches the queue (no picking of finished futures)", node=qdef, func=f)
    ys = [n for n in walk_no_nested(f.node) if isinstance(n, ast.Yield)]
    yflow = Flow(f)

    def head_of(e, at):
        """the removal call an expression denotes (directly, or through a temporary bound to it)"""
        if isinstance(e, ast.Name):
            r_ = yflow.single_def_value(e.id, at)
            return r_[0] if r_ is not None else e
        return e
    bad = [norm(y.value) if y.value is not None else None for y in ys
           if not (isinstance(y.value, ast.Call) and isinstance(y.value.func, ast.Attribute) and y.value.func.attr == "result"
                   and not y.value.args and any(head_of(y.value.func.value, y) is r_ for r_ in rem))]
    ctx.ob("FileSet.imap.yield", bool(ys) and not bad, "%d yields; not of the form <removed head>.result(): %s" % (len(ys), bad or "none"),
           "every yield delivers the result of the future just removed from the head", node=ys[0] if ys else f.node, func=f)
    loops = [st for st in walk_no_nested(f.node) if isinstance(st, ast.For)]
    ok = False
    fact = None
    fflow = Flow(f)
    if loops:
        lp = loops[0]
        sub = [c for c in calls_in(lp, "submit")]
        fact = "for %s in %s: ... %s" % (norm(lp.target), norm(lp.iter), [norm(c) for c in sub])
        # worker_args comes from _configure_pool_and_worker_args (third result)
        cfgc = calls_in(f.node, "_configure_pool_and_worker_args")
        st = enclosing_stmt(cfgc[0]) if cfgc else None
        third = norm(st.targets[0].elts[2]) if st is not None and isinstance(st, ast.Assign) and isinstance(st.targets[0], ast.Tuple) else None
        ok = len(sub) == 1 and norm(lp.iter) == third and [norm(a) for a in sub[0].args] == ["self._call_map_function", norm(lp.target)] \
            and norm(sub[0]) in [norm(fflow.resolve(a, at=c, depth=2, stop=(norm(lp.target),))) for c in ins for a in c.args]
    ctx.ob("FileSet.imap.submit", ok, fact, "one submit(self._call_map_function, args) per element of worker_args, in order, appended to the queue", node=loops[0] if loops else f.node, func=f)


def rule_bound(ctx):
    ctx.rule("C10.bound", "T4", "loop invariant len(queue) <= workers is inductive; the head is only removed from a non-empty queue")
    f = ctx.func(FILESET, "FileSet.imap")
    q, _ = _queue_name(f)
    flow = Flow(f)
    loops = [st for st in flow.stmts if isinstance(st, ast.For)]
    if not loops:
        raise AnalysisError("imap: submission loop not found")
    lp = loops[0]
    # guard of the removal inside the loop
    pops = [c for c in calls_in(lp) if isinstance(c.func, ast.Attribute) and norm(c.func.value) == q and c.func.attr in ("popleft", "pop")]
    apps = [c for c in calls_in(lp) if isinstance(c.func, ast.Attribute) and norm(c.func.value) == q and c.func.attr == "append"]
    if not pops or not apps:
        raise AnalysisError("imap: pops/appends in the loop not found")
    # a task counts as in flight from the moment it is SUBMITTED: the submission of the next task stands behind the wait for the oldest
    # one (in the append itself, or bound to a name with no yield / .result() before it is appended)
    subs = [c for c in calls_in(lp, "submit")]
    early = []
    for c in subs:
        if any(c is x for a_ in apps for x in ast.walk(a_)):
            continue
        st_s = enclosing_stmt(c)
        if not (isinstance(st_s, ast.Assign) and isinstance(st_s.targets[0], ast.Name)):
            raise AnalysisError("imap: the submitted task %s is neither appended at once nor bound to a name" % norm(c)[:50])
        fut = st_s.targets[0].id
        app_st = [enclosing_stmt(a_) for a_ in apps if a_.args and norm(a_.args[0]) == fut]
        if not app_st:
            raise AnalysisError("imap: the future %s is never appended to the queue" % fut)
        between = [x for x in flow.stmts if flow._order(st_s) < flow._order(x) < flow._order(app_st[0]) and any(x is y for y in ast.walk(lp))]
        waits = [str(norm(x))[:50] for x in between for n_ in ast.walk(x) if isinstance(n_, (ast.Yield, ast.YieldFrom))
                 or (isinstance(n_, ast.Call) and isinstance(n_.func, ast.Attribute) and n_.func.attr == "result")]
        if waits:
            early.append("%s submitted before: %s" % (fut, waits[0]))
    ctx.ob("FileSet.imap.submit_after_wait", not early, "submissions in the loop: %d; ahead of the wait for the oldest task: %s" % (len(subs), early or "none"),
           "the next task is submitted only after the oldest one was consumed when the queue is full: otherwise max_workers + 1 tasks are in flight",
           node=subs[0] if subs else lp, func=f, witness=None if not early else {"max_workers": 2, "tasks started while no result was consumed": 3})
    g = parent(enclosing_stmt(pops[0]))
    kind = "if"
    if isinstance(g, ast.While):
        kind = "while"
    if not isinstance(g, (ast.If, ast.While)):
        raise AnalysisError("imap: removal is not guarded")
    wname = None
    for st in flow.stmts:
        if isinstance(st, ast.Assign) and norm(st.value).replace('"', "'") == "pool_args['max_workers']":
            wname = norm(st.targets[0])
    if wname is None:
        raise AnalysisError("imap: worker count not read from pool_args['max_workers']")
    test = flow.resolve(g.test, at=g, depth=2, stop=(q, wname))
    uncond_app = [c for c in apps if parent(enclosing_stmt(c)) is lp]

    def step(n, w):
        if kind == "if":
            if Interp({"len(%s)" % q: n, wname: w}).ev(test):
                if n < len(pops):
                    return None
                n -= len(pops)
        else:
            it = 0
            while Interp({"len(%s)" % q: n, wname: w}).ev(test):
                if n < 1:
                    return None
                n -= 1
                it += 1
                if it > 20:
                    return None
        return n + len(uncond_app)
    bad = None
    cases = 0
    for w in range(1, 17 if ctx.tier == "thorough" else 7):
        for n in range(0, w + 1):
            cases += 1
            n2 = step(n, w)
            if n2 is None or n2 > w:
                bad = {"len(queue)": n, "workers": w, "after one iteration": n2 if n2 is not None else "pop from an empty queue"}
                break
        if bad:
            break
    ctx.models.append({"rule": "C10.bound", "cases": cases, "domain": "workers 1..6, 0 <= len <= workers", "exhaustive": False})
    ctx.ob("FileSet.imap.invariant", bad is None, "%s %s: %d removal(s); then %d unconditional append(s)" % (kind, norm(test), len(pops), len(uncond_app)),
           "len(queue) <= workers before an iteration implies it afterwards (never more than max_workers submitted-but-unconsumed tasks)",
           node=g, func=f, witness=bad)
    # workers: None -> 1
    dfl = [st for st in flow.stmts if isinstance(st, ast.If) and norm(st.test) == "%s is None" % wname]
    okd = bool(dfl) and len(dfl[0].body) == 1 and norm(dfl[0].body[0]) == "%s = 1" % wname
    if not dfl:
        # the same default as an expression: 1 if W is None else W / W if W is not None else 1 / W or 1
        for n_ in ast.walk(f.node):
            if isinstance(n_, ast.IfExp):
                t_ = str(norm(n_.test))
                if (t_ == "%s is None" % wname and norm(n_.body) == "1" and norm(n_.orelse) == wname) \
                        or (t_ == "%s is not None" % wname and norm(n_.orelse) == "1" and norm(n_.body) == wname):
                    okd, dfl = True, [n_]
            elif isinstance(n_, ast.BoolOp) and isinstance(n_.op, ast.Or) and [str(norm(v_)) for v_ in n_.values] == [wname, "1"]:
                okd, dfl = True, [n_]
    ctx.ob("FileSet.imap.workers", okd, "%s" % (norm(dfl[0])[:60] if dfl else None), "max_workers None counts as 1 (at least one task in flight)", node=dfl[0] if dfl else f.node, func=f)


def rule_flush(ctx):
    ctx.rule("C10.flush", "T1", "after the submission loop every remaining future is consumed before the generator's normal exit")
    f = ctx.func(FILESET, "FileSet.imap")
    q, _ = _queue_name(f)
    flow = Flow(f)
    cfg = flow.cfg
    loops = [st for st in flow.stmts if isinstance(st, ast.For)]
    lp = loops[0]
    drain = [st for st in flow.stmts if isinstance(st, ast.While) and norm(st.test) in (q, "len(%s) > 0" % q, "len(%s)" % q, "%s != []" % q)
             and any(isinstance(c.func, ast.Attribute) and c.func.attr in ("popleft", "pop") for c in calls_in(st))
             and any(isinstance(n, ast.Yield) for n in walk_no_nested(st))]
    ok = False
    if drain:
        dn = set(cfg.nodes(drain[0]))
        # every normal path from the loop's exit to EXIT passes the drain header
        starts = [b for n in cfg.nodes(lp) for lab, b in cfg.succ[n] if lab == "F"]
        seen = set(s for s in starts if s not in dn)
        todo = list(seen)
        while todo:
            a = todo.pop()
            for lab, b in cfg.succ.get(a, []):
                if lab in ("exc", "gen") or b in dn or b in seen:
                    continue
                seen.add(b)
                todo.append(b)
        ok = EXIT not in seen and not any(s in dn for s in []) 
    ctx.ob("FileSet.imap.flush", ok, "drain loop after the submissions: %s" % ([norm(d.test) for d in drain] or "none"),
           "`while queue: yield queue.popleft().result()` lies on every normal path from the end of the submission loop to the exit", node=drain[0] if drain else lp, func=f)


def rule_ordered(ctx):
    ctx.rule("C10.ordered", "T2", "map/imap use only order-preserving executor APIs")
    for fname in ("map", "imap"):
        f = ctx.func(FILESET, "FileSet." + fname)
        bad = [norm(c.func) for c in calls_in(f.node) if (dotted(c.func) or "").split(".")[-1] in ("as_completed", "wait", "imap_unordered", "map_async", "apply_async")]
        fact = "unordered APIs: %s" % (bad or "none")
        ok = not bad
        if fname == "map":
            rets = [s for s in walk_no_nested(f.node) if isinstance(s, ast.Return)]
            okr = len(rets) == 1 and norm(Flow(f).resolve(rets[0].value, at=rets[0], depth=2, stop=("worker_args", "pool"))).replace(" ", "") \
                == "list(pool.map(self._call_map_function,worker_args))"
            fact += "; return %s" % (norm(rets[0].value) if rets else None)
            ok = ok and okr
        ctx.ob("FileSet.%s.ordered" % fname, ok, fact, "no as_completed / wait; map returns list(pool.map(self._call_map_function, worker_args))", node=f.node, func=f)


def rule_args(ctx):
    ctx.rule("C10.args", "T6", "the worker tuple is packed and unpacked field by field in one order; find() supplies the files only when none were given")
    p = ctx.func(FILESET, "FileSet._configure_pool_and_worker_args")
    u = ctx.func(FILESET, "FileSet._call_map_function")
    gen = [n for n in walk_no_nested(p.node) if isinstance(n, ast.GeneratorExp) and isinstance(n.elt, ast.Tuple)]
    if not gen:
        raise AnalysisError("_configure_pool_and_worker_args: worker tuple generator not found")
    packed = [norm(e) for e in gen[0].elt.elts]
    un = [st for st in u.body if isinstance(st, ast.Assign) and isinstance(st.targets[0], ast.Tuple) and norm(st.value) == u.params[0]]
    if not un:
        raise AnalysisError("_call_map_function does not unpack its argument")
    unpacked = [norm(e) for e in un[0].targets[0].elts]
    # roles: packed names are parameter names of the producer; the consumer's names must match position-wise
    # up to the two documented renamings (self -> fileset, file -> file_info)
    ren = {"self": "fileset", norm(gen[0].generators[0].target): "file_info"}
    want = [ren.get(x, x) for x in packed]
    ctx.ob("FileSet.worker_tuple", want == unpacked, "packed %s; unpacked %s" % (packed, unpacked), "same fields in the same order", node=un[0], func=u)
    ctx.ob("FileSet.worker_tuple.source", norm(gen[0].generators[0].iter) == "files" and not gen[0].generators[0].ifs, "one tuple per element of: %s" % norm(gen[0].generators[0].iter),
           "one worker tuple per selected file (no filtering)", node=gen[0], func=p)
    pflow = Flow(p)
    it_ = gen[0].generators[0].iter
    none_asm = {"files is None": True, "files is not None": False}
    given_asm = {"files is None": False, "files is not None": True}
    v_none = str(norm(pflow.resolve_under(it_, none_asm, at=gen[0], depth=2, stop=("find_args",)))).replace(" ", "")
    v_given = pflow.resolve_under(it_, given_asm, at=gen[0], depth=2, stop=("find_args",))
    # what the workers iterate over when files are given: the given iterable itself or an element-wise conversion of it
    src_given = v_given
    if isinstance(src_given, ast.GeneratorExp) and len(src_given.generators) == 1 and not src_given.generators[0].ifs:
        src_given = src_given.generators[0].iter
    elif isinstance(src_given, ast.Call) and dotted(src_given.func) == "map" and len(src_given.args) == 2:
        src_given = src_given.args[1]
    ok = v_none == "self.find(**find_args)" and str(norm(src_given)) == "files"
    ctx.ob("FileSet.selection", ok, "files is None -> %s; files given -> %s" % (v_none[:60], str(norm(v_given))[:70]),
           "`files is None` (identity test, not truthiness: an explicitly given EMPTY selection selects nothing) selects self.find(**find_args), given files are used as they are",
           node=gen[0], func=p)


def rule_filenames(ctx):
    """The worker wrapper tells a single file from a bundle by its type (FileInfo versus anything iterable).  A file NAME given through
    `files=` is iterable too: it has to become a FileInfo before the worker tuples are built."""
    ctx.rule("C10.filenames", "T1", "file names given through files= are converted to FileInfo before they reach the workers")
    p = ctx.func(FILESET, "FileSet._configure_pool_and_worker_args")
    flow = Flow(p)
    sel = [st for st in walk_no_nested(p.node) if isinstance(st, ast.If) and str(norm(st.test)) in ("files is None", "files is not None")
           and any(isinstance(x, ast.Assign) and str(norm(x.targets[0])) == "files" for x in ast.walk(st))]
    if len(sel) != 1:
        raise AnalysisError("_configure_pool_and_worker_args: the decision on `files is None` was not found")
    given = sel[0].orelse if str(norm(sel[0].test)) == "files is None" else sel[0].body
    conv = []
    for st in given:
        for c_ in calls_in(st):
            d_ = (dotted(c_.func) or "")
            if d_.startswith("self.") and d_.split(".")[-1] not in ("find",):
                conv.append(d_.split(".")[-1])
            if d_.split(".")[-1] == "get_info":
                conv.append("get_info")
            if d_ == "map" and c_.args and (dotted(c_.args[0]) or "").startswith("self."):
                conv.append(dotted(c_.args[0]).split(".")[-1])        # map(self._convert, files)
        for n_ in ast.walk(st):
            if isinstance(n_, ast.FunctionDef):
                conv.append(n_.name)
    ok = False
    how = None
    for name in conv:
        if name == "get_info":
            ok, how = True, "self.get_info"
            break
        try:
            h = ctx.func(FILESET, "FileSet." + name)
        except AnalysisError:
            continue
        txt = ast.unparse(h.node)
        if "get_info" in txt and ("str" in txt or "PathLike" in txt):
            ok, how = True, "self.%s -> get_info for str / os.PathLike" % name
            break
    if not ok and given:
        txt = " ".join(ast.unparse(st) for st in given)
        ok = "get_info" in txt and ("str" in txt or "PathLike" in txt)
        how = "inline conversion" if ok else None
    ctx.ob("FileSet.selection.file_names", ok, "caller-given files are converted by: %s" % (how or "nothing"),
           "every element of files= that is a str / os.PathLike becomes self.get_info(<name>) (a list of names stays a bundle of FileInfo): the docstrings allow file "
           "names; a string was iterated character by character as a 'bundle' (unbounded recursion of thread pools in collect, AttributeError in move)",
           node=sel[0], func=p, witness=None if ok else {"collect": "files=[<path strings>]", "observed": "RuntimeError: can't start new thread"})


def rule_errwrap(ctx):
    ctx.rule("C10.errwrap", "T1", "only the read is inside the try whose handler may downgrade to a warning; the handler re-raises unless error_to_warning")
    f = ctx.func(FILESET, "FileSet._call_map_function")
    tries = [st for st in walk_no_nested(f.node) if isinstance(st, ast.Try) and any(calls_in(h, ("warn",)) for h in st.handlers)]
    if not tries:
        raise AnalysisError("_call_map_function: no try with a warning handler")
    t = tries[0]
    user = [norm(c) for s in t.body for c in calls_in(s, "func")]
    reads = [norm(c.func) for s in t.body for c in calls_in(s, ("read", "collect"))]
    ctx.ob("FileSet._call_map_function.try_body", not user and bool(reads), "calls inside the try: reads %s, user function %s" % (reads, user or "none"),
           "the user function is called outside: its exceptions always reach the caller", node=t, func=f)
    h = t.handlers[0]
    ok = False
    fact = None
    from ..flow import arms
    split = [(st, arms(st, "error_to_warning", h.body)) for st in h.body if isinstance(st, ast.If)]
    split = [(st, a) for st, a in split if a is not None]
    if len(split) != 1:
        raise AnalysisError("_call_map_function: the handler does not branch once on error_to_warning")
    warn_arm, raise_arm = split[0][1]
    if not warn_arm or not raise_arm:
        ok = False
        fact = "one arm of the error_to_warning branch is empty"
    else:
        # the warned result: the local _return helper applied to "no result" for THIS file
        def none_for_this_file(v_):
            if not (isinstance(v_, ast.Call) and isinstance(v_.func, ast.Name)):
                return False
            helper = [n_ for n_ in f.node.body if isinstance(n_, ast.FunctionDef) and n_.name == v_.func.id]
            if len(helper) != 1 or v_.keywords:
                return str(norm(v_)) == "_return(file_info, None)"
            ps = [a_.arg for a_ in helper[0].args.args]
            if len(v_.args) != len(ps):
                return False
            bound = dict(zip(ps, v_.args))
            vals = [str(norm(x_)) for x_ in bound.values()]
            # every parameter but the result is handed the enclosing variable of the same name; the result is None
            res = [p_ for p_ in ps if str(norm(bound[p_])) == "None"]
            same = [p_ for p_ in ps if str(norm(bound[p_])) == p_]
            return len(res) == 1 and len(res) + len(same) == len(ps) and "file_info" in (same + [n_.id for n_ in ast.walk(helper[0]) if isinstance(n_, ast.Name)])
        ok = isinstance(warn_arm[-1], ast.Return) and none_for_this_file(warn_arm[-1].value) \
            and any(calls_in(s_, "warn") for s_ in warn_arm) and isinstance(raise_arm[-1], ast.Raise) and len(raise_arm) == 1 \
            and not any(calls_in(s_, "warn") for s_ in raise_arm)
        fact = "error_to_warning: warn; %s / otherwise: %s" % (norm(warn_arm[-1]), norm(raise_arm[-1]))
    ctx.ob("FileSet._call_map_function.handler", ok, fact, "warning + (file_info, None) only under error_to_warning; otherwise the exception is re-raised", node=h, func=f)


def rule_collect(ctx):
    ctx.rule("C10.collect", "T1", "collect drops exactly the None contents and keeps info/content aligned")
    f = ctx.func(FILESET, "FileSet.collect")
    from ..flow import iteration_constructs, const_str
    flow = Flow(f)
    mp = [c for c in calls_in(f.node, "map") if norm(c.func) == "self.map"]
    if len(mp) != 1:
        raise AnalysisError("collect: the call of self.map was not found")
    rs = enclosing_stmt(mp[0])
    rname = rs.targets[0].id if isinstance(rs, ast.Assign) and isinstance(rs.targets[0], ast.Name) else None
    its = [ic for ic in iteration_constructs(f.node) if (rname is not None and norm(ic["iter"]) == rname) or ic["iter"] is mp[0]]
    # the filter is the construct with a condition; plain projections of the filtered list (`[info for info, _ in kept]`) come after it
    filt = [ic for ic in its if ic["ifs"]]
    if len(filt) != 1 or len(filt[0]["elts"]) not in (1, 2):
        raise AnalysisError("collect: the filter over the results of map() was not found (%d candidates)" % len(its))
    ic = filt[0]
    proj = [x for x in its if x is not ic]
    for x in proj:
        ok_proj = isinstance(x["target"], ast.Tuple) and len(x["target"].elts) == 2 and len(x["elts"]) == 1 and str(norm(x["elts"][0])) in [str(norm(e_)) for e_ in x["target"].elts] \
            and flow._order(enclosing_stmt(x["node"])) > flow._order(enclosing_stmt(ic["node"]))
        if not ok_proj:
            raise AnalysisError("collect: iteration %s over the results is neither the filter nor a projection of the filtered pairs" % str(norm(x["node"]))[:60])
    if not (isinstance(ic["target"], ast.Tuple) and len(ic["target"].elts) == 2):
        raise AnalysisError("collect: results are not unpacked into (info, content)")
    info, content = [norm(e) for e in ic["target"].elts]
    ifs = [str(norm(i)) for i in ic["ifs"]]
    elt = ic["elts"][0]
    if len(ic["elts"]) == 2:
        # two accumulators filled under the one filter in the same iteration: info and content stay aligned
        elt = ast.Tuple(elts=sorted(ic["elts"], key=lambda e_: str(norm(e_)) != info), ctx=ast.Load())
    ok = ifs in (["%s is not None" % content], ["not %s is None" % content], ["not (%s is None)" % content]) \
        and isinstance(elt, (ast.List, ast.Tuple)) and [norm(e) for e in elt.elts] == [info, content]
    fact = "for %s in %s if %s -> %s" % (norm(ic["target"]), norm(ic["iter"]), ifs, norm(elt))
    ctx.ob("FileSet.collect.filter", ok, fact, "[[info, content] for info, content in results if content is not None] - falsy but valid contents ([] / 0 / empty dataset) are kept",
           node=ic["node"], func=f)

    tnames = set()

    # the filtered list may be EMPTY (every reader failed, no file found): it must not be split with `a, b = zip(*kept)`
    unz = []
    for st_ in flow.stmts:
        if isinstance(st_, ast.Assign) and isinstance(st_.targets[0], (ast.Tuple, ast.List)) and isinstance(st_.value, ast.Call) and dotted(st_.value.func) == "zip" \
                and any(isinstance(a_, ast.Starred) for a_ in st_.value.args):
            unz.append(st_)
    ctx.ob("FileSet.collect.empty", not unz, "tuple-unpacking of zip(*...): %s" % ([str(norm(u_))[:70] for u_ in unz] or "none"),
           "infos and contents are taken from the filtered pairs without `files, data = zip(*pairs)`: with nothing left that raised ValueError (not enough values to unpack) "
           "instead of returning []", node=unz[0] if unz else ic["node"], func=f, witness=None if not unz else {"collect": "error_to_warning=True, every reader fails", "raises": "ValueError"})

    def table(e, at, depth=0):
        """ordered entries of a keyword table: (key, value) or ('**', expr) for a spread of an unknown mapping"""
        if depth > 4:
            return None
        if isinstance(e, ast.Name):
            r_ = flow.single_def_value(e.id, at)
            if r_ is None:
                return [("**", e)]
            tnames.add(e.id)
            return table(r_[0], r_[1], depth + 1)
        if isinstance(e, ast.Dict):
            out = []
            for k_, v_ in zip(e.keys, e.values):
                if k_ is None:
                    sub = table(v_, at, depth + 1)
                    if sub is None:
                        return None
                    out += sub
                else:
                    ks = const_str(k_)
                    if ks is None:
                        return None
                    out.append((ks, v_))
            return out
        if isinstance(e, ast.Call) and dotted(e.func) == "dict":
            out = []
            for a_ in e.args:
                sub = table(a_, at, depth + 1)
                if sub is None:
                    return None
                out += sub
            for k_ in e.keywords:
                if k_.arg is None:
                    sub = table(k_.value, at, depth + 1)
                    if sub is None:
                        return None
                    out += sub
                else:
                    out.append((k_.arg, k_.value))
            return out
        return None
    spread = [k_.value for k_ in mp[0].keywords if k_.arg is None]
    if len(spread) != 1 or mp[0].args or len(mp[0].keywords) != 1:
        raise AnalysisError("collect: self.map is not called with one keyword table (**map_args)")
    ent = table(spread[0], mp[0])
    if ent is None:
        raise AnalysisError("collect: the keyword table handed to map() could not be read: %s" % norm(spread[0])[:80])
    last_spread = max([i_ for i_, (k_, _) in enumerate(ent) if k_ == "**"] or [-1])
    d = {}
    for i_, (k_, v_) in enumerate(ent):
        if k_ != "**":
            d[k_] = (i_, str(norm(v_)))
    want_tab = {"on_content": "True", "return_info": "True", "files": f.params[3], "start": f.params[1], "end": f.params[2]}
    # later changes of the table: a store to one of the forced keys is an entry of its own; wholesale updates are not modelled
    for st_ in flow.stmts:
        for n_ in walk_no_nested(st_) if not isinstance(st_, (ast.If, ast.For, ast.While, ast.With, ast.Try)) else []:
            if isinstance(n_, ast.Subscript) and isinstance(n_.ctx, (ast.Store, ast.Del)) and isinstance(n_.value, ast.Name) and n_.value.id in tnames:
                ks = const_str(n_.slice)
                if ks is None:
                    raise AnalysisError("collect: store into the keyword table under a computed key: %s" % norm(st_)[:80])
                if ks in want_tab:
                    d[ks] = (len(ent) + 1, str(norm(st_.value)) if isinstance(st_, ast.Assign) else "<deleted>")
            if isinstance(n_, ast.Call) and isinstance(n_.func, ast.Attribute) and isinstance(n_.func.value, ast.Name) and n_.func.value.id in tnames \
                    and n_.func.attr in ("update", "pop", "popitem", "clear"):
                raise AnalysisError("collect: the keyword table is changed by %s" % norm(n_)[:80])
    okm = all(k_ in d and d[k_][0] > last_spread and d[k_][1] == v_ for k_, v_ in want_tab.items())
    ctx.ob("FileSet.collect.map_args", okm, "%s" % [(k_, str(norm(v_))[:30]) for k_, v_ in ent], "on_content and return_info forced on (after the user's keywords); files/start/end forwarded",
           node=mp[0], func=f)
    g_ = ctx.func(FILESET, "FileSet.icollect")
    ys = [n for n in walk_no_nested(g_.node) if isinstance(n, ast.YieldFrom)]
    oky = len(ys) == 1 and isinstance(ys[0].value, ast.Call) and norm(ys[0].value.func) == "self.imap" and not ys[0].value.args \
        and len(ys[0].value.keywords) == 1 and ys[0].value.keywords[0].arg is None       # one **<arguments> - whatever the dictionary is called
    ctx.ob("FileSet.icollect", oky, "%s" % (norm(ys[0].value) if ys else None), "yield from self.imap(**map_args): same order, lazily", node=g_.node, func=g_)


def rule_align(ctx):
    ctx.rule("C10.align", "T1 typestate", "align: a secondary is pulled from the loader only if not cached, its name is compared, its usage "
             "counter is decremented once per use and it is evicted only at zero; no primary skips its secondaries")
    f = ctx.func(FILESET, "FileSet.align")
    flow = Flow(f)
    # the matches are used several times (zip(*matches), indexing): they must be a list whatever iterable the caller handed in, and the
    # split into primaries / secondaries must not be reached with no match at all
    mname = "matches" if "matches" in f.all_params else None
    if mname is not None:
        unz = [st_ for st_ in flow.stmts if isinstance(st_, ast.Assign) and isinstance(st_.targets[0], (ast.Tuple, ast.List)) and isinstance(st_.value, ast.Call)
               and dotted(st_.value.func) == "zip" and any(isinstance(a_, ast.Starred) and str(norm(a_.value)) == mname for a_ in st_.value.args)]
        if len(unz) != 1:
            raise AnalysisError("align: the split `primaries, secondaries = zip(*%s)` was not found" % mname)
        ds = flow.defs(mname, unz[0])
        as_list = all(d_ != "param" and isinstance(d_, ast.Assign) and isinstance(d_.value, ast.Call) and dotted(d_.value.func) in ("list", "sorted", "tuple") for d_ in ds)
        guards = [st_ for st_ in flow.stmts if isinstance(st_, ast.If) and str(norm(st_.test)) in ("not %s" % mname, "len(%s) == 0" % mname, "not len(%s)" % mname)
                  and any(isinstance(x, ast.Return) for x in st_.body)
                  and all(flow.cfg.dominated_by(n_, set(flow.cfg.nodes(st_))) for n_ in flow.cfg.nodes(unz[0]))]
        ctx.ob("FileSet.align.matches", as_list and bool(guards), "definitions of %s reaching the split: %s; emptiness guard: %s" % (
            mname, [("parameter" if d_ == "param" else str(norm(d_))[:60]) for d_ in ds], [str(norm(g_.test)) for g_ in guards] or "none"),
            "matches = list(...) on every path (a generator such as fileset.match(other) is exhausted by zip(*matches) and cannot be indexed) and `if not matches: return` "
            "before the split (zip(*[]) cannot be unpacked)", node=unz[0], func=f,
            witness=None if as_list and guards else {"align": "matches=a.match(other)", "raises": "TypeError: 'generator' object is not subscriptable"})
    # the loaders keep one content per requested file (None for an unreadable one): icollect.  collect() drops the None contents, every
    # later content then stands at the position of another file
    loaders = [c_ for c_ in calls_in(f.node) if isinstance(c_.func, ast.Attribute) and c_.func.attr in ("icollect", "collect", "imap", "map")
               and any(k_.arg == "files" for k_ in c_.keywords)]
    if loaders:
        dropping = [str(norm(c_.func)) for c_ in loaders if c_.func.attr in ("collect", "map")]
        ctx.ob("FileSet.align.loaders", not dropping, "files are loaded with: %s" % [str(norm(c_.func)) for c_ in loaders],
               "icollect (lazy, position-preserving) for the primaries and the secondaries; collect() removes the contents of unreadable files and shifts the rest",
               node=loaders[0], func=f, witness=None if not dropping else {"skip_errors": True, "unreadable": "primary 2 of 5", "content of primary 3": "yielded under the name of primary 2"})
    outer = [st for st in flow.stmts if isinstance(st, ast.For) and calls_in(st.iter, "enumerate")]
    if not outer:
        raise AnalysisError("align: primary loop not found")
    op = outer[0]
    inner = [st for st in op.body if isinstance(st, ast.For)]
    if not inner:
        raise AnalysisError("align: secondary loop not found")
    ip = inner[0]
    sv = norm(ip.target)
    # 1. nothing in the outer loop can skip the inner loop
    pre = op.body[:op.body.index(ip)]
    skips = [norm(n) for s in pre for n in walk_no_nested(s) if isinstance(n, (ast.Continue, ast.Break, ast.Return))]
    ctx.ob("FileSet.align.no_skip", not skips, "control transfers before the secondary loop: %s" % (skips or "none"),
           "every primary - also an unreadable one - walks through its secondaries so that the ordered loader stays in step", node=op, func=f)
    # 2. loader pulled only when not cached
    nx = [c for c in calls_in(ip, "next")]
    ok2 = False
    if nx:
        from ..flow import arms
        g = parent(enclosing_stmt(nx[0]))
        ab = arms(g, "%s not in cache" % sv) if isinstance(g, ast.If) else None
        if ab is not None:
            miss, hit_arm = ab
            ok2 = any(enclosing_stmt(nx[0]) is s_ for s_ in miss) and len(nx) == 1
            store = [s for s in miss if isinstance(s, ast.Assign) and norm(s.targets[0]) == "cache[%s]" % sv]
            hit = [s for s in hit_arm if isinstance(s, ast.Assign) and norm(s.value) == "cache[%s]" % sv]
            ok2 = ok2 and bool(store) and bool(hit)
    ctx.ob("FileSet.align.load_once", ok2, "next(loader) under: %s" % (norm(parent(enclosing_stmt(nx[0])).test) if nx and isinstance(parent(enclosing_stmt(nx[0])), ast.If) else None),
           "next(secondary_loader) only when the file is not cached; the loaded data is cached, a cached one is reused", node=nx[0] if nx else ip, func=f)
    # 3. name comparison raising AlignError
    cmpi = [st for st in walk_no_nested(ip) if isinstance(st, ast.If) and isinstance(st.test, ast.Compare) and isinstance(st.test.ops[0], ast.NotEq)
            and sv in norm(st.test) and any(isinstance(s, ast.Raise) for s in st.body)]
    ctx.ob("FileSet.align.name_check", bool(cmpi), "%s" % ([norm(c.test) for c in cmpi] or "no comparison of expected and loaded name"),
           "the loaded file is compared with the expected one (AlignError otherwise)", node=cmpi[0] if cmpi else ip, func=f)
    # 4. decrement once per iteration, before eviction and before any continue
    USE = "secondary_usage[%s]" % sv
    dec = [st for st in ip.body if isinstance(st, ast.AugAssign) and isinstance(st.op, ast.Sub) and norm(st.target) == USE and norm(st.value) == "1"]
    # spelled as a plain store: secondary_usage[f] = <secondary_usage[f] - 1> (possibly through a temporary)
    left_name = None
    for st in ip.body:
        if isinstance(st, ast.Assign) and len(st.targets) == 1 and norm(st.targets[0]) == USE:
            v_ = flow.resolve(st.value, at=st, depth=2, stop=(sv, "secondary_usage"))
            if str(norm(v_)).replace(" ", "") == "%s-1" % USE:
                dec.append(st)
                if isinstance(st.value, ast.Name):
                    left_name = st.value.id
    ok4 = False
    if not dec:
        raise AnalysisError("align: the decrement `secondary_usage[f] -= 1` was not found in the secondary loop")
    if len(dec) == 1:
        k = ip.body.index(dec[0])
        before = [n for s in ip.body[:k] for n in walk_no_nested(s) if isinstance(n, (ast.Continue, ast.Break))]
        zero_tests = ["not %s" % USE, "%s == 0" % USE, "%s <= 0" % USE] + (["not %s" % left_name, "%s == 0" % left_name, "%s <= 0" % left_name] if left_name else [])
        ev = [st for st in ip.body[k + 1:] if isinstance(st, ast.If) and norm(st.test) in zero_tests
              and any(isinstance(s, ast.Delete) and norm(s.targets[0]) == "cache[%s]" % sv for s in st.body)]
        other_del = [norm(n) for n in walk_no_nested(op) if isinstance(n, ast.Delete) and "cache" in norm(n) and not any(n in e.body for e in ev)]
        ok4 = not before and len(ev) == 1 and not other_del
    ctx.ob("FileSet.align.usage", ok4, "decrements per iteration: %d" % len(dec),
           "secondary_usage[f] -= 1 exactly once per use, on every iteration, followed by `if not secondary_usage[f]: del cache[f]` (only eviction)", node=dec[0] if dec else ip, func=f)
    # 6. what is iterated and yielded; the skip guard never drops a pair that was read successfully
    en = calls_in(op.iter, "enumerate")
    idx = norm(op.target.elts[0]) if isinstance(op.target, ast.Tuple) and en else None
    pdat = norm(op.target.elts[1]) if isinstance(op.target, ast.Tuple) and en else None
    okit = idx is not None and norm(ip.iter).replace(" ", "") in ("matches[%s][1]" % idx, "secondaries[%s]" % idx)
    ctx.ob("FileSet.align.secondaries_of", okit, "inner loop over %s" % norm(ip.iter), "the secondaries matched to primary i: matches[i][1]", node=ip, func=f)
    ys = [n for n in walk_no_nested(ip) if isinstance(n, ast.Yield)]
    if not ys or any(not isinstance(y_.value, ast.Tuple) or len(y_.value.elts) != 2 for y_ in ys):
        raise AnalysisError("align: expected `yield primary, secondary` in the secondary loop")
    # one yield, or one per value of return_info (each branch yields for itself)
    y_for = {}
    for v_ in (True, False):
        live = [y_ for y_ in ys if flow.live_under(enclosing_stmt(y_), {"return_info": v_})]
        if len(live) != 1:
            raise AnalysisError("align: %d yields are reachable with return_info=%s" % (len(live), v_))
        y_for[v_] = live[0]
    y = y_for[True]
    sdat = None
    for st_ in walk_no_nested(ip):
        if isinstance(st_, ast.Assign) and norm(st_.value) == "cache[%s]" % sv and isinstance(st_.targets[0], ast.Name):
            sdat = st_.targets[0].id
    if sdat is None or pdat is None:
        raise AnalysisError("align: names of the primary / secondary contents not found")
    zp = [st_ for st_ in flow.stmts if isinstance(st_, ast.Assign) and isinstance(st_.targets[0], ast.Tuple) and norm(st_.value).replace(" ", "") == "zip(*matches)"]
    prim = norm(zp[0].targets[0].elts[0]) if zp and len(zp[0].targets[0].elts) == 2 else "primaries"
    vals = {}
    for v_ in (True, False):
        vals[v_] = [norm(flow.resolve_under(e_, {"return_info": v_}, at=y_for[v_], depth=2, stop=(pdat, sdat, sv, idx, prim, "matches"))).replace(" ", "") for e_ in y_for[v_].value.elts]
    oky = vals[False] == [pdat, sdat] and vals[True][0] in ("[%s[%s],%s]" % (prim, idx, pdat), "[matches[%s][0],%s]" % (idx, pdat)) and vals[True][1] == "[%s,%s]" % (sv, sdat)
    ctx.ob("FileSet.align.yield", oky, "plain: %s; with return_info: %s" % (vals[False], vals[True]),
           "(primary content, secondary content), each paired with its own FileInfo under return_info", node=y, func=f)
    from ..flow import guard_chain
    yst = enclosing_stmt(y)
    skips = [st_ for st_ in ip.body if isinstance(st_, ast.If) and any(isinstance(n_, ast.Continue) for n_ in st_.body) and stmt_before(f.node, st_, yst)
             and any(isinstance(n_, ast.Name) and n_.id in (pdat, sdat) for n_ in ast.walk(st_.test))]
    bad = None
    # plain aliases of the two contents (`secondary_data = <content taken from the cache / loader>`)
    al_s, al_p = {sdat}, {pdat}
    for _ in range(3):
        for a_ in walk_no_nested(ip):
            if isinstance(a_, ast.Assign) and len(a_.targets) == 1 and isinstance(a_.targets[0], ast.Name) and isinstance(a_.value, ast.Name):
                if a_.value.id in al_s:
                    al_s.add(a_.targets[0].id)
                if a_.value.id in al_p:
                    al_p.add(a_.targets[0].id)
    skips = [st_ for st_ in ip.body if isinstance(st_, ast.If) and any(isinstance(n_, ast.Continue) for n_ in st_.body) and stmt_before(f.node, st_, yst)
             and any(isinstance(n_, ast.Name) and n_.id in (al_p | al_s) for n_ in ast.walk(st_.test))]
    for st_ in skips:
        for pv, sv_, sk in itertools.product((None, 1), (None, 1), (True, False)):
            try:
                env_ = {"skip_errors": sk}
                env_.update({n_: pv for n_ in al_p})
                env_.update({n_: sv_ for n_ in al_s})
                got = bool(Interp(env_).ev(st_.test))
            except AnalysisError as e_:
                raise AnalysisError("align: skip guard outside the model: %s" % e_)
            must_keep = pv is not None and sv_ is not None
            must_skip = sk and (pv is None or sv_ is None)
            if (must_keep and got) or (must_skip and not got):
                bad = {"primary content": pv, "secondary content": sv_, "skip_errors": sk, "skipped": got}
    for t_, pol in guard_chain(yst, stop=ip):
        for pv, sv_, sk in itertools.product((1,), (1,), (True, False)):
            try:
                if bool(Interp({pdat: pv, sdat: sv_, "skip_errors": sk, "return_info": True}).ev(t_)) != pol and \
                        bool(Interp({pdat: pv, sdat: sv_, "skip_errors": sk, "return_info": False}).ev(t_)) != pol:
                    bad = {"yield guarded by": norm(t_), "unreachable for readable files": True}
            except AnalysisError:
                pass
    ctx.ob("FileSet.align.skip", bad is None and len(skips) <= 1, "skip guards: %s" % [norm(s_.test) for s_ in skips],
           "a pair is skipped only if one of its contents is None (and always then under skip_errors); readable pairs are always yielded", node=skips[0] if skips else yst, func=f, witness=bad)
    # 5. usage counter counts every use; loader iterates the unique secondaries in order of first use
    A = {}
    for st in flow.stmts:
        if isinstance(st, ast.Assign) and isinstance(st.targets[0], ast.Name):
            A[st.targets[0].id] = st
    u = A.get("unique_secondaries")
    cnt = A.get("secondary_usage")
    ld = A.get("secondary_loader")
    same_gen = u is not None and cnt is not None and norm(u.value.args[0]) == norm(cnt.value.args[0]) if (u is not None and cnt is not None and isinstance(u.value, ast.Call) and isinstance(cnt.value, ast.Call) and u.value.args and cnt.value.args) else False
    ok5 = same_gen and dotted(u.value.func) == "unique" and dotted(cnt.value.func) == "Counter" and ld is not None \
        and "files=unique_secondaries" in norm(ld.value).replace(" ", "") and "return_info=True" in norm(ld.value).replace(" ", "")
    ctx.ob("FileSet.align.bookkeeping", ok5, "unique: %s; counter: %s; loader: %s" % tuple(norm(x.value)[:70] if x is not None else None for x in (u, cnt, ld)),
           "the loader reads unique(all secondaries in match order) with return_info; the counter counts the same sequence", node=u or f.node, func=f)


def run(ctx):
    for r in (rule_fifo, rule_bound, rule_flush, rule_ordered, rule_args, rule_errwrap, rule_collect, rule_align, rule_filenames):
        ctx.attempt(r, ctx)
