"""C14 - column integrals and hydrostatic conversions agree with their defining integrals.

T8 API resolution of the numpy names the integration chain needs; argument forwarding of
integrate_column (T7); the two IWV forms as terms over an opaque bilinear integral (T5); the
CRH construction including a small shape model of its level loop (T6); pressure2height as
[0, cumsum(-dp / (rho_mean g))] (T5+T6); ISA table sanity (T3).  Quadrature accuracy and the
convergence of the two IWV forms are not decided.
"""
import ast
import sympy as sp
from ..core import AnalysisError, norm, dotted, calls_in, walk_no_nested, parent, enclosing_stmt, const_value
from ..flow import Flow
from ..alg import Sym, is_zero, Unsupported
from .. import apiscan
from .C06 import fold

MATH = "typhon/math/common.py"
ATM = "typhon/physics/atmosphere.py"
EXPECT = {"C14.api": 1, "C14.argorder": 2, "C14.iwv": 3, "C14.crh": 5, "C14.p2h": 4, "C14.isa": 5, "C14.pure": 4}


def rule_api(ctx):
    ctx.rule("C14.api", "T8", "every numpy/scipy name used by the integration chain exists in the installed library")
    targets = [(MATH, "integrate_column"), (ATM, "integrate_water_vapor"), (ATM, "pressure2height"), (ATM, "standard_atmosphere"),
               (ATM, "column_relative_humidity"), (ATM, "density")]
    names = {}
    guarded = {}
    for rel, fn in targets:
        f = ctx.func(rel, fn)
        mod = ctx.mod(rel)
        for k, nodes in apiscan.library_names(f, mod).items():
            names.setdefault(k, []).append((f, nodes[0]))
            for nd in nodes:
                alt = _or_getattr_alternative(nd, mod)
                if alt:
                    guarded.setdefault(k, set()).add(alt)
                else:
                    guarded.setdefault(k, set()).add(None)
        # names reached through getattr(lib, "name", default) count as optional: nothing to resolve
    alts = sorted({a for s in guarded.values() for a in s if a})
    info = apiscan.resolve(sorted(set(names) | set(alts)))
    unknown = {k: v for k, v in info.items() if v.get("exists") is None}
    if unknown:
        raise AnalysisError("API resolution failed: %s" % unknown)
    missing = {}
    for k in names:
        if info[k].get("exists"):
            continue
        # needed only on the path where every guarding alternative is absent
        if guarded.get(k) and None not in guarded[k] and all(info[a].get("exists") for a in guarded[k]):
            continue
        missing[k] = [u[0].qualname for u in names[k]]
    first = names[sorted(missing)[0]][0] if missing else None
    ctx.ob("integration.api", not missing, "library names used: %d (+%d fall-back alternatives); missing: %s" % (len(names), len(alts), missing or "none"),
           "all exist in the installed numpy/scipy (np.trapz was removed in numpy 2.x in favour of np.trapezoid)",
           node=first[1] if first else None, func=first[0] if first else ctx.func(MATH, "integrate_column"))
    ctx.extra["api_names_resolved"] = len(info)


def _or_getattr_alternative(node, mod):
    """node is `lib.name` used as `getattr(lib, "alt", None) or lib.name` -> canonical 'library.alt'"""
    p = parent(node)
    if isinstance(p, ast.BoolOp) and isinstance(p.op, ast.Or) and p.values and p.values[-1] is node:
        first = p.values[0]
        if isinstance(first, ast.Call) and dotted(first.func) == "getattr" and len(first.args) >= 3 \
                and isinstance(first.args[1], ast.Constant) and isinstance(first.args[0], ast.Name):
            head = first.args[0].id
            lib = mod.imports.get(head)
            if lib:
                return "%s.%s" % (lib, first.args[1].value)
    # if hasattr(lib, "alt"): ... else: <node>      /    lib.alt if hasattr(lib, "alt") else <node>
    def has_attr(test):
        """(canonical 'library.alt', polarity under which alt EXISTS) for a hasattr test, else None"""
        pol = True
        while isinstance(test, ast.UnaryOp) and isinstance(test.op, ast.Not):
            test, pol = test.operand, not pol
        if isinstance(test, ast.Call) and dotted(test.func) == "hasattr" and len(test.args) == 2 and isinstance(test.args[0], ast.Name) \
                and isinstance(test.args[1], ast.Constant) and mod.imports.get(test.args[0].id):
            return "%s.%s" % (mod.imports[test.args[0].id], test.args[1].value), pol
        return None
    from ..flow import guard_chain
    st = enclosing_stmt(node)
    for test, taken in guard_chain(st, implicit=True):
        h = has_attr(test)
        if h is not None and h[1] != taken:
            return h[0]
        # v = getattr(lib, "alt", None); if not v / if v is None: <node>
        t_, pol_ = test, taken
        while isinstance(t_, ast.UnaryOp) and isinstance(t_.op, ast.Not):
            t_, pol_ = t_.operand, not pol_
        if isinstance(t_, ast.Compare) and len(t_.ops) == 1 and isinstance(t_.comparators[0], ast.Constant) and t_.comparators[0].value is None:
            if isinstance(t_.ops[0], ast.Is):
                t_, pol_ = t_.left, not pol_
            elif isinstance(t_.ops[0], ast.IsNot):
                t_ = t_.left
        if isinstance(t_, ast.Call) and dotted(t_.func) == "getattr" and len(t_.args) >= 3 and not pol_ and isinstance(t_.args[0], ast.Name) \
                and isinstance(t_.args[1], ast.Constant) and mod.imports.get(t_.args[0].id):
            return "%s.%s" % (mod.imports[t_.args[0].id], t_.args[1].value)      # if getattr(lib, "alt", None) is None: <node>
        if isinstance(t_, ast.Name) and not pol_:
            # reached when the name is falsy / None: what was it bound to?
            fn_ = st
            while fn_ is not None and not isinstance(fn_, (ast.FunctionDef, ast.AsyncFunctionDef)):
                fn_ = parent(fn_)
            if fn_ is not None:
                for a_ in ast.walk(fn_):
                    if isinstance(a_, ast.Assign) and len(a_.targets) == 1 and isinstance(a_.targets[0], ast.Name) and a_.targets[0].id == t_.id \
                            and isinstance(a_.value, ast.Call) and dotted(a_.value.func) == "getattr" and len(a_.value.args) >= 3 \
                            and isinstance(a_.value.args[0], ast.Name) and isinstance(a_.value.args[1], ast.Constant) and mod.imports.get(a_.value.args[0].id):
                        return "%s.%s" % (mod.imports[a_.value.args[0].id], a_.value.args[1].value)
                    # try: v = lib.alt   except AttributeError: v = None
                    if isinstance(a_, ast.Try) and any(h_.type is not None and "AttributeError" in norm(h_.type) for h_ in a_.handlers):
                        for b_ in a_.body:
                            if isinstance(b_, ast.Assign) and len(b_.targets) == 1 and isinstance(b_.targets[0], ast.Name) and b_.targets[0].id == t_.id \
                                    and isinstance(b_.value, ast.Attribute) and isinstance(b_.value.value, ast.Name) and mod.imports.get(b_.value.value.id):
                                return "%s.%s" % (mod.imports[b_.value.value.id], b_.value.attr)
    child, q = node, parent(node)
    while q is not None and not isinstance(q, ast.stmt):
        if isinstance(q, ast.IfExp):
            h = has_attr(q.test)
            if h is not None:
                in_body = any(x is child for x in ast.walk(q.body))
                if h[1] != in_body:
                    return h[0]
        child, q = q, parent(q)
    # try: f = lib.alt  except AttributeError: f = <node>
    q = parent(st)
    while q is not None and not isinstance(q, ast.ExceptHandler) and not isinstance(q, (ast.FunctionDef, ast.AsyncFunctionDef)):
        q = parent(q)
    if isinstance(q, ast.ExceptHandler) and q.type is not None and "AttributeError" in norm(q.type):
        t = parent(q)
        for x in ast.walk(ast.Module(body=t.body, type_ignores=[])):
            if isinstance(x, ast.Attribute) and isinstance(x.value, ast.Name) and mod.imports.get(x.value.id) and x.value.id == dotted(node).split(".")[0]:
                return "%s.%s" % (mod.imports[x.value.id], x.attr)
    return None


def rule_argorder(ctx):
    ctx.rule("C14.argorder", "T7", "integrate_column(y, x, axis) forwards y -> y, x -> x, axis -> axis of the trapezoidal routine, unchanged")
    f = ctx.func(MATH, "integrate_column")
    y, x, axis = f.params[:3]
    flow = Flow(f)
    rets = [s for s in flow.stmts if isinstance(s, ast.Return)]
    if not rets or not all(isinstance(r.value, ast.Call) for r in rets):
        raise AnalysisError("integrate_column does not return calls of the integration routine")
    def plain(e_):
        """the argument behind conversions that numpy's routine applies itself: asanyarray(v), `None if v is None else asanyarray(v)`"""
        while True:
            if isinstance(e_, ast.Call) and (dotted(e_.func) or "").split(".")[-1] in ("asanyarray", "asarray") and len(e_.args) == 1 and not e_.keywords:
                e_ = e_.args[0]
            elif isinstance(e_, ast.IfExp) and isinstance(e_.body, ast.Constant) and e_.body.value is None and isinstance(e_.test, ast.Compare) \
                    and len(e_.test.ops) == 1 and isinstance(e_.test.ops[0], ast.Is) and norm(e_.test.comparators[0]) == "None" \
                    and norm(plain(e_.orelse)) == norm(e_.test.left):
                e_ = e_.test.left
            elif isinstance(e_, ast.IfExp) and isinstance(e_.orelse, ast.Constant) and e_.orelse.value is None and isinstance(e_.test, ast.Compare) \
                    and len(e_.test.ops) == 1 and isinstance(e_.test.ops[0], ast.IsNot) and norm(e_.test.comparators[0]) == "None" \
                    and norm(plain(e_.body)) == norm(e_.test.left):
                e_ = e_.test.left
            else:
                return e_
    # extra returns: a variant that integrates with a scalar spacing instead of the coordinate
    same_shape = len(rets) > 1 and len({(len(r.value.args), tuple(sorted(k.arg or "" for k in r.value.keywords))) for r in rets}) == 1 \
        and len({tuple(norm(a_) for a_ in r.value.args) + tuple(norm(k.value) for k in r.value.keywords) for r in rets}) == 1
    if same_shape and not all(any(t_ in norm(r.value.func) for t_ in ("trapezoid", "trapz")) for r in rets):
        raise AnalysisError("integrate_column: one of the integration routines selected is not the trapezoidal rule: %s" % [norm(r.value.func) for r in rets])
    for r in rets[:-1]:
        kw_ = {k.arg: norm(plain(k.value)) for k in r.value.keywords}
        passes_x = (len(r.value.args) > 1 and norm(plain(r.value.args[1])) == x) or kw_.get("x") == x
        if not passes_x:
            guards = []
            n_ = parent(r)
            while n_ is not None and not isinstance(n_, ast.FunctionDef):
                if isinstance(n_, ast.If):
                    guards.append(norm(n_.test))
                n_ = parent(n_)
            approx = any(g for g in guards if any(a in g for a in ("allclose", "isclose")))
            if approx:
                ctx.ob("integrate_column.forward", False, "additional return %s under %s" % (norm(r.value), guards),
                       "every path integrates over the caller's coordinate x; an approximate uniformity test (allclose: absolute tolerance 1e-8) "
                       "must not replace it by a scalar spacing", node=r, func=f)
                return
            raise AnalysisError("integrate_column: return %s does not pass the coordinate" % norm(r.value))
    rets = rets[-1:]
    c = rets[0].value
    callee = flow.resolve(c.func, at=rets[0])
    ctxt = norm(callee)
    if isinstance(callee, ast.Name) and flow.defs(callee.id, rets[0]) not in ([], ["param"]):
        # selected on several paths: every candidate must be the trapezoidal rule
        def leaves(name, at, depth=0):
            out = []
            for d_ in flow.defs(name, at):
                if d_ == "param":
                    continue
                v_ = flow._def_value(d_, name)
                if v_ is None:
                    out.append(None)
                elif isinstance(v_, ast.Constant) and v_.value is None:
                    continue            # "not available": the other candidate is used then
                elif isinstance(v_, ast.Name) and depth < 3 and flow.defs(v_.id, d_) not in ([], ["param"]):
                    out.extend(leaves(v_.id, d_, depth + 1))
                else:
                    out.append(v_)
            return out
        vals = leaves(callee.id, rets[0])
        if any(v is None for v in vals) or not vals:
            raise AnalysisError("integrate_column: integration routine bound in an unrecognised way")
        ctxt = " | ".join(sorted({norm(v) for v in vals}))
        is_trap = all(any(t in norm(v) for t in ("trapezoid", "trapz")) for v in vals)
    else:
        is_trap = any(t in ctxt for t in ("trapezoid", "trapz"))
    ctx.ob("integrate_column.routine", is_trap, "integrates with %s" % ctxt, "numpy's trapezoidal rule (np.trapezoid / np.trapz)", node=c, func=f)
    a = [norm(plain(v)) for v in c.args]
    kw = {k.arg: norm(plain(k.value)) for k in c.keywords}
    sig = ["y", "x", "dx", "axis"]          # numpy.trapezoid(y, x=None, dx=1.0, axis=-1)
    bound_ = dict(zip(sig, a))
    if any(k is None for k in kw) or any(k not in sig for k in kw) or any(k in bound_ for k in kw) or len(a) > 4:
        raise AnalysisError("integrate_column: call %s does not bind to trapezoid(y, x, dx, axis)" % norm(c))
    bound_.update(kw)
    ok = bound_.get("y") == y and bound_.get("x") == x and bound_.get("axis") == axis and "dx" not in bound_
    # the forwarded names are the unmodified parameters
    unmod = all(flow.defs(n, rets[0]) == ["param"] for n in (y, x, axis))
    ctx.ob("integrate_column.forward", ok and unmod, "%s(%s%s); parameters re-bound before the call: %s" % (
        ctxt[:30], ", ".join(a), "".join(", %s=%s" % kv for kv in kw.items()), [n for n in (y, x, axis) if flow.defs(n, rets[0]) != ["param"]]),
        "trapezoid(y, x, axis=axis) with the caller's y, x and axis (axes are not exchanged: the result keeps the remaining axes in order)",
        node=c, func=f)
    dfl = f.defaults()
    ctx.counters["integrate_column.defaults"] = 1
    if not (norm(dfl.get(x, ast.Constant(0))) == "None" and norm(dfl.get(axis, ast.Constant(1))) == "0"):
        ctx.ob("integrate_column.defaults", False, "defaults x=%s axis=%s" % (norm(dfl.get(x)) if x in dfl else None, norm(dfl.get(axis)) if axis in dfl else None),
               "x=None (unit spacing), axis=0", node=f.node, func=f)


def rule_iwv(ctx):
    ctx.rule("C14.iwv", "T5", "IWV: hydrostatic = -I(q(vmr), p)/g; general = I(vmr p/(R_v T), z); both-or-neither of T, z")
    I = sp.Function("I")
    AX = sp.Symbol("axis", integer=True)
    ev = Sym(ctx.repo, hooks={"integrate_column": lambda y_, x_=None, axis=0: I(y_, x_, sp.sympify(axis))})
    vmr, p, T, z = sp.symbols("vmr p T z", positive=True)
    f = ctx.func(ATM, "integrate_water_vapor")
    g = ev.const.get("earth_standard_gravity")
    q = Sym(ctx.repo).call(ATM, "vmr2specific_humidity", vmr)
    hyd = ev.call(ATM, "integrate_water_vapor", vmr, p, axis=AX)
    v = _same_I(hyd, -I(q, p, AX) / g, I)
    ctx.ob("integrate_water_vapor.hydrostatic", bool(v), "hydrostatic branch = %s" % hyd, "-I(vmr2specific_humidity(vmr), p, axis) / g (the caller's axis)", node=f.node, func=f)
    Rv = ev.const.get("gas_constant_water_vapor")
    gen = ev.call(ATM, "integrate_water_vapor", vmr, p, T, z, axis=AX)
    ok = _same_I(gen, I(vmr * p / (Rv * T), z, AX), I)
    ctx.ob("integrate_water_vapor.general", ok, "general branch = %s" % gen, "I(vmr * p / (R_v T), z, axis) with the gas constant of WATER VAPOUR and the caller's axis", node=f.node, func=f)
    # both-or-neither
    mixed = []
    for a in ((T, None), (None, z)):
        try:
            ev.call(ATM, "integrate_water_vapor", vmr, p, a[0], a[1])
            mixed.append("accepted T=%s z=%s" % a)
        except Unsupported as e:
            if "raises" not in str(e):
                raise AnalysisError(str(e))
    ctx.ob("integrate_water_vapor.both_or_neither", not mixed, "one of T, z missing: %s" % (mixed or "raises"), "ValueError", node=f.node, func=f)
    ctx.models.append({"rule": "C14.iwv", "cases": 4, "identity": "two branches + two mixed calls"})


def _same_I(a, b, I):
    """compare terms containing the opaque integral atom: same prefactor and argument-wise equal"""
    a, b = sp.simplify(a), sp.simplify(b)
    ia = list(a.atoms(I)) if hasattr(a, "atoms") else []
    ib = list(b.atoms(I))
    if len(ia) != 1 or len(ib) != 1:
        return False
    ca = sp.simplify(a / ia[0])
    cb = sp.simplify(b / ib[0])
    if ca.has(I) or cb.has(I) or sp.simplify(ca - cb) != 0:
        return False
    return all(sp.simplify(x - y) == 0 for x, y in zip(ia[0].args, ib[0].args)) and len(ia[0].args) == len(ib[0].args)


def rule_crh(ctx):
    ctx.rule("C14.crh", "T6", "CRH = IWV(vmr(q)) / IWV(vmr(q_s)), q_s level-wise from the mixed-phase saturation pressure, same axis; "
             "the level loop runs over the integration axis")
    f = ctx.func(ATM, "column_relative_humidity")
    qn, pn, tn, axn = f.params[:4]
    flow = Flow(f)
    A = {}
    for st in flow.stmts:
        if isinstance(st, ast.Assign) and isinstance(st.targets[0], ast.Name):
            A.setdefault(st.targets[0].id, []).append(st)
    rets = [s for s in flow.stmts if isinstance(s, ast.Return)]
    if not rets:
        raise AnalysisError("column_relative_humidity: no return")
    # names of arrays that are allocated and then filled (kept symbolic: their content is decided by the level loop below)
    filled = tuple(n_ for n_, sts in A.items() if any(isinstance(st.value, ast.Call) and (dotted(st.value.func) or "").split(".")[-1] in ("zeros", "empty", "zeros_like", "empty_like")
                                                      for st in sts))
    stop_ = (qn, pn, tn, axn) + filled
    r = flow.resolve(rets[-1].value, at=rets[-1], depth=4, stop=stop_)
    from ..calls import bind_args
    iwv = ctx.func(ATM, "integrate_water_vapor")
    ok_ratio = False
    fact = norm(r)
    qs_arg = None
    ok_src_num = False
    if isinstance(r, ast.BinOp) and isinstance(r.op, ast.Div) and all(isinstance(x_, ast.Call) and dotted(x_.func) == "integrate_water_vapor" for x_ in (r.left, r.right)):
        bn, bd = bind_args(r.left, iwv), bind_args(r.right, iwv)
        same = all(norm(bn.get(k_)) == norm(bd.get(k_)) for k_ in iwv.params[1:] if bn.get(k_) is not None or bd.get(k_) is not None)
        ok_ratio = same and norm(bn.get(iwv.params[1])) == pn and norm(bn.get("axis")) == axn and norm(bn.get("T")) == "None" and norm(bn.get("z")) == "None"
        vn, vd = bn.get(iwv.params[0]), bd.get(iwv.params[0])
        ok_src_num = norm(vn) == "specific_humidity2vmr(%s)" % qn
        if isinstance(vd, ast.Call) and dotted(vd.func) == "specific_humidity2vmr" and len(vd.args) == 1:
            base_ = vd.args[0]
            while isinstance(base_, ast.Call) and isinstance(base_.func, ast.Attribute) and base_.func.attr in ("swapaxes", "transpose", "reshape", "view"):
                base_ = base_.func.value        # a view of the filled array
            if isinstance(base_, ast.Name):
                qs_arg = base_
        fact = "%s / %s" % (norm(r.left).replace(" ", ""), norm(r.right).replace(" ", ""))
    else:
        raise AnalysisError("column_relative_humidity: the result %s is not a ratio of two integrate_water_vapor(...) calls" % norm(r)[:100])
    ctx.ob("column_relative_humidity.ratio", ok_ratio, "crh = %s" % fact, "IWV(vmr, p, axis) / IWV(vmr_s, p, axis): same pressure and axis in both integrals", node=rets[-1], func=f)
    es = [st for sts in A.values() for st in sts if isinstance(st.value, ast.Call) and (dotted(st.value.func) or "").startswith("e_eq_")]
    ok_src = ok_src_num and qs_arg is not None and len(es) == 1 and norm(es[0].value) == "e_eq_mixed_mk(%s)" % tn
    ctx.ob("column_relative_humidity.sources", ok_src, "numerator vmr(q): %s; denominator vmr of %s; es = %s" % (ok_src_num, norm(qs_arg) if qs_arg is not None else None, [norm(e_.value) for e_ in es]),
           "vmr(q), vmr(q_s), e_s from the MIXED-phase saturation pressure of t", node=rets[-1], func=f)
    vs = None
    loops = [st for st in flow.stmts if isinstance(st, ast.For)]
    ok_fill = False
    bound = None
    if loops:
        lp = loops[0]
        iv = norm(lp.target)
        esname = None
        if len(lp.body) == 1 and isinstance(lp.body[0], ast.Assign) and isinstance(lp.body[0].value, ast.Call) \
                and dotted(lp.body[0].value.func) == "water_vapor_pressure2specific_humidity" and len(lp.body[0].value.args) == 2 \
                and not lp.body[0].value.keywords:
            st0 = lp.body[0]
            a0, a1 = st0.value.args
            tgt0 = st0.targets[0]
            from ..flow import elementwise
            eb = elementwise(lp.target, lp.iter) or {}
            if isinstance(a0, ast.Name) and a0.id in eb and isinstance(eb[a0.id], ast.Subscript):
                a0 = eb[a0.id]                       # `for i, e in enumerate(es)`: e is es[i]
                iv = next((k_ for k_, v_ in eb.items() if norm(v_) == "_i"), iv)
                a0 = ast.Subscript(value=a0.value, slice=ast.Name(id=iv, ctx=ast.Load()), ctx=ast.Load())
            if isinstance(a0, ast.Subscript) and isinstance(tgt0, ast.Subscript) and isinstance(tgt0.value, ast.Name):
                esname = a0.value.id if isinstance(a0.value, ast.Name) else a0.value          # a name, or the expression iterated over
                # the pressure of level i: the pressure argument itself or an array derived from it (asarray / swapaxes), indexed by i
                pname = None
                if isinstance(a1, ast.Subscript) and isinstance(a1.value, ast.Name) and norm(a1.slice) == iv:
                    cand = a1.value.id
                    src_p = cand
                    seen_ = set()
                    while src_p != pn and src_p not in seen_:
                        seen_.add(src_p)
                        vals_ = [flow._def_value(d_, src_p) for d_ in flow.defs(src_p, lp) if d_ != "param"]
                        roots = set()
                        for v_ in vals_:
                            b_ = v_
                            while isinstance(b_, ast.Call) and (isinstance(b_.func, ast.Attribute) and b_.func.attr in ("swapaxes", "transpose", "copy") or dotted(b_.func) in ("np.asarray", "np.array", "np.moveaxis", "np.swapaxes")):
                                b_ = b_.func.value if isinstance(b_.func, ast.Attribute) and b_.func.attr in ("swapaxes", "transpose", "copy") else b_.args[0]
                            roots.add(norm(b_) if b_ is not None else None)
                        roots.discard(src_p)
                        if len(roots) != 1:
                            break
                        src_p = str(list(roots)[0])
                    if src_p == pn:
                        pname = cand
                ok_fill = norm(a0.slice) == iv and norm(tgt0.slice) == iv and pname is not None
                # the level-wise input is the saturation pressure, the output is what becomes q_s
                src = flow.resolve(ast.Name(id=esname, ctx=ast.Load()), at=lp, depth=1)
        if esname is None:
            raise AnalysisError("column_relative_humidity: loop body is not `qs[i] = water_vapor_pressure2specific_humidity(es[i], p[i])`")
        rc = lp.iter
        if isinstance(rc, ast.Call) and dotted(rc.func) == "range":
            bound = rc.args[-1] if len(rc.args) <= 2 else None
        elif isinstance(rc, ast.Call) and dotted(rc.func) == "enumerate" and len(rc.args) == 1 and norm(rc.args[0]) == (esname if isinstance(esname, str) else norm(esname)):
            bound = ast.parse("len(%s)" % norm(rc.args[0]), mode="eval").body          # one pass per element along the first axis
    ctx.ob("column_relative_humidity.levelwise", ok_fill, "loop body: %s" % ([norm(s) for s in loops[0].body] if loops else None),
           "qs[i] = water_vapor_pressure2specific_humidity(es[i], p[i]) for every level i", node=loops[0] if loops else f.node, func=f)
    # shape model of the loop bound
    if not loops or bound is None:
        raise AnalysisError("column_relative_humidity: level loop / bound not found")
    bad = []
    badp = []
    for ndim, axis in ((1, 0), (2, 0), (2, 1), (3, 2)):
        got, want, first = _shape_model(f, loops[0], bound, ndim, axis, axn, esname)
        if got != want or first != want:
            bad.append({"ndim": ndim, "axis": axis, "loop bound": "size of original axis %s" % got if isinstance(got, int) else str(got),
                        "axis 0 of es in the loop": first, "required": "size of original axis %d" % want})
        if pname is not None and ndim > 1:
            _, _, pfirst = _shape_model(f, loops[0], bound, ndim, axis, axn, pname)
            if pfirst != want:
                badp.append({"ndim": ndim, "axis": axis, "axis 0 of the pressure array indexed in the loop": pfirst, "required": "original axis %d (the levels)" % want})
    ctx.models.append({"rule": "C14.crh", "cases": 4, "domain": "(ndim, axis) in (1,0),(2,0),(2,1),(3,2)", "exhaustive": False})
    # what is converted to vmr_s is the array filled by the level loop
    tname = loops[0].body[0].targets[0].value.id
    vs_arg = qs_arg
    vs = rets[-1]
    feeds = False
    if isinstance(vs_arg, ast.Name):
        feeds = vs_arg.id == tname or any(d_ != "param" and any(isinstance(n_, ast.Name) and n_.id == tname for n_ in ast.walk(d_.value))
                                            for d_ in flow.defs(vs_arg.id, vs) if hasattr(d_, "value"))
        if not feeds:
            # the loop fills a VIEW of it: <filled> = <vs_arg>.swapaxes(...)
            for d_ in flow.defs(tname, loops[0]):
                if d_ != "param" and hasattr(d_, "value") and isinstance(d_.value, ast.Call) and isinstance(d_.value.func, ast.Attribute) \
                        and d_.value.func.attr in ("swapaxes", "transpose", "view", "reshape") and norm(d_.value.func.value) == vs_arg.id:
                    feeds = True
    ctx.ob("column_relative_humidity.qs_used", feeds, "saturation vmr from %s; level loop fills %s" % (norm(vs_arg) if vs_arg is not None else None, tname),
           "the saturation vmr is computed from the level-wise q_s", node=vs or f.node, func=f)
    ctx.ob("column_relative_humidity.pressure_axis", not badp, "pressure of level i taken from %s[i]; mismatches: %s" % (pname, badp or "none"),
           "a pressure array of the same rank as q is indexed along the level axis (swapped to the front like es and qs), not along its axis 0",
           node=loops[0], func=f, witness=badp[0] if badp else None)
    ctx.ob("column_relative_humidity.levels", not bad, "loop bound %s; mismatches: %s" % (norm(bound), bad or "none"),
           "the loop runs over exactly the levels along `axis` (es.shape[axis]), the axis that was swapped to the front", node=loops[0], func=f,
           witness=bad[0] if bad else None)


def _shape_model(f, loop, bound, ndim, axis, axn, esname="es"):
    """Interpret the statements before `loop` on arrays whose shape is a permutation of the
    axis labels 0..ndim-1; returns (label the loop bound measures, wanted label, label in front of es)."""
    env = {"__ndim__": ndim}
    ident = tuple(range(ndim))

    def ev(n):
        t = norm(n)
        if isinstance(n, ast.Name):
            if n.id == axn:
                return ("int", axis)
            return env.get(n.id, ("unknown", t))
        if isinstance(n, ast.Constant) and isinstance(n.value, int):
            return ("int", n.value)
        if isinstance(n, ast.Call):
            d = dotted(n.func) or ""
            if d == "len" and len(n.args) == 1:
                v = ev(n.args[0])
                if v[0] == "arr":
                    return ("size", v[1][0]) if v[1] else ("unknown", t)
                if v[0] == "shape":
                    return ("int", len(v[1]))
                return ("unknown", t)
            if d == "list" and len(n.args) == 1:
                return ev(n.args[0])
            if isinstance(n.func, ast.Attribute) and n.func.attr == "swapaxes" and len(n.args) == 2:
                v = ev(n.func.value)
                a, b = ev(n.args[0]), ev(n.args[1])
                if v[0] == "arr" and a[0] == b[0] == "int":
                    p_ = list(v[1])
                    p_[a[1]], p_[b[1]] = p_[b[1]], p_[a[1]]
                    return ("arr", tuple(p_))
                return ("unknown", t)
            if d.split(".")[-1] in ("zeros", "empty", "ones", "full") and n.args:
                v = ev(n.args[0])
                if v[0] == "shape":
                    return ("arr", v[1])
            if d in ("np.asarray", "np.array", "np.asanyarray") and n.args:
                v = ev(n.args[0])
                if v[0] == "arr":
                    return v
            if d in ("e_eq_mixed_mk", "specific_humidity2vmr", "np.asarray", "np.array"):
                return ("arr", ident)
            return ("unknown", t)
        if isinstance(n, ast.Attribute) and n.attr == "ndim":
            v = ev(n.value)
            if v[0] == "arr":
                return ("int", len(v[1]))
        if isinstance(n, ast.Attribute) and n.attr == "shape":
            v = ev(n.value)
            if v[0] == "arr":
                return ("shape", v[1])
            if isinstance(n.value, ast.Name) and n.value.id in f.params:
                return ("shape", ident)
        if isinstance(n, ast.Subscript):
            v = ev(n.value)
            k = ev(n.slice) if not isinstance(n.slice, ast.Slice) else None
            if v[0] == "arr" and k and k[0] == "int":
                return ("arr", v[1][1:])       # X[k]: one element along the first axis
            if v[0] == "shape" and k and k[0] == "int":
                return ("size", v[1][k[1]])
        if isinstance(n, ast.Compare) and len(n.ops) == 1 and isinstance(n.ops[0], (ast.Eq, ast.NotEq, ast.Gt, ast.GtE, ast.Lt, ast.LtE)):
            l, r = ev(n.left), ev(n.comparators[0])
            if l[0] == r[0] == "int":
                import operator as _op
                fn_ = {ast.Eq: _op.eq, ast.NotEq: _op.ne, ast.Gt: _op.gt, ast.GtE: _op.ge, ast.Lt: _op.lt, ast.LtE: _op.le}[type(n.ops[0])]
                return ("bool", fn_(l[1], r[1]))
        return ("unknown", t)

    def run(stmts):
        for st in stmts:
            if st is loop:
                return True
            if isinstance(st, ast.Assign) and isinstance(st.targets[0], ast.Name):
                env[st.targets[0].id] = ev(st.value)
            elif isinstance(st, ast.If):
                c = ev(st.test)
                if c[0] == "bool":
                    if run(st.body if c[1] else st.orelse):
                        return True
                else:
                    raise AnalysisError("column_relative_humidity: undecidable test %s in the shape model" % norm(st.test))
        return False
    for p_ in f.params:
        env[p_] = ("arr", ident)
    run(f.body)
    b = ev(bound)
    e = env.get(esname, ("unknown",)) if isinstance(esname, str) else ev(esname)
    first = e[1][0] if e[0] == "arr" and e[1] else None
    got = b[1] if b[0] == "size" else str(b)
    return got, axis, first


def rule_p2h(ctx):
    ctx.rule("C14.p2h", "T5+T6", "pressure2height = [0, cumsum(-dp / (rho_mean g))], rho_mean of adjacent levels; default T from the "
             "standard atmosphere addressed by pressure")
    f = ctx.func(ATM, "pressure2height")
    pn, tn = f.params[:2]
    flow = Flow(f)
    A = {}
    for st in flow.stmts:
        if isinstance(st, ast.Assign) and isinstance(st.targets[0], ast.Name):
            A.setdefault(st.targets[0].id, []).append(st)
    # the temperature the densities are computed with: the caller's, or - when none is given - the standard atmosphere addressed by pressure
    dcalls = calls_in(f.node, "density")
    if len(dcalls) != 1 or len(dcalls[0].args) < 2:
        raise AnalysisError("pressure2height: the call density(p, T) was not found")
    got_T = {}
    for none_ in (True, False):
        asm = {"%s is None" % tn: none_, "%s is not None" % tn: not none_}
        got_T[none_] = str(norm(flow.resolve_under(dcalls[0].args[1], asm, at=dcalls[0], stop=(pn,) + (() if none_ else (tn,))))).replace(" ", "").replace('"', "'")
    first = f.body[0]
    ok_d = got_T[True] == "standard_atmosphere(%s,coordinates='pressure')" % pn and got_T[False] == tn
    ctx.ob("pressure2height.default_T", ok_d, "density(p, T) with T = %s when none is given, %s otherwise" % (got_T[True][:70], got_T[False][:40]),
           "T = standard_atmosphere(p, coordinates='pressure') when no temperature is given", node=dcalls[0], func=f)
    # layer mean density and the increment, element model of one layer between the levels 0 and 1: the argument of cumsum is evaluated with
    # diff(p) -> dp, density(p, T)[:-1] -> r0, density(p, T)[1:] -> r1 (temporaries looked through, any spelling the algebra understands)
    cs = calls_in(f.node, "cumsum")
    ok_z = ok_r = False
    fact = None
    seen = {"diff": [], "density": []}
    if cs:
        from ..canon import canon
        cc = canon(cs[0])          # x.cumsum() and np.cumsum(x) alike
        if not cc.args:
            raise AnalysisError("pressure2height: cumsum without an argument")
        arg = flow.resolve_join(cc.args[0], at=cs[0], depth=5, stop=(pn, tn))
        fact = norm(arg)
        P, T_, dp, r0, r1 = sp.symbols("P T dp r0 r1", positive=True)

        class _Levels:
            pass
        RHO = _Levels()

        def h_diff(*a_, **k_):
            seen["diff"].append(a_)
            if a_ != (P,) or k_:
                raise Unsupported("np.diff of something else than the pressure levels")
            return dp

        def h_density(*a_, **k_):
            seen["density"].append(a_)
            if a_ != (P, T_) or k_:
                raise Unsupported("density(...) not of (p, T)")
            return RHO

        def h_sub(base, n_, ev_, env_, func_, depth_):
            if base is RHO and isinstance(n_.slice, ast.Slice) and n_.slice.step is None:
                lo, hi = n_.slice.lower, n_.slice.upper
                if lo is None and hi is not None and norm(hi) == "-1":
                    return r0
                if hi is None and lo is not None and norm(lo) == "1":
                    return r1
            return NotImplemented
        def h_half(*a_, **k_):
            # typhon.math.interpolate_halflevels: summary (x[1:] + x[:-1]) / 2 along axis 0, valid for the body read here
            hf = ctx.func("typhon/math/common.py", "interpolate_halflevels")
            body = [s_ for s_ in hf.body if not (isinstance(s_, ast.Expr) and isinstance(s_.value, ast.Constant))]
            txt = str(norm(body[0])).replace(" ", "") if len(body) == 1 else ""
            x_ = hf.params[0]
            if txt != "return(np.take(%s,range(1,np.shape(%s)[axis]),axis=axis)+np.take(%s,range(0,np.shape(%s)[axis]-1),axis=axis))/2" % (x_, x_, x_, x_):
                raise Unsupported("interpolate_halflevels is not the mean of adjacent levels this rule has a summary for")
            if len(a_) != 1 or a_[0] is not RHO or any(k_x != "axis" or v_x != 0 for k_x, v_x in k_.items()):
                raise Unsupported("interpolate_halflevels of something else than the level densities")
            return (r0 + r1) / 2
        ev = Sym(ctx.repo, hooks={"diff": h_diff, "density": h_density, "subscript": h_sub, "interpolate_halflevels": h_half})
        g = ev.const.get("earth_standard_gravity")
        try:
            term = ev.expr(arg, {pn: P, tn: T_}, f, 0)
        except Unsupported as e:
            raise AnalysisError("pressure2height: %s" % e)
        if isinstance(term, (tuple, _Levels)):
            raise AnalysisError("pressure2height: the argument of cumsum is not an element-wise expression")
        ok_z = sp.simplify(term + dp / ((r0 + r1) / 2 * g)) == 0
        # the pieces: the density of the levels enters as a mean of the two adjacent levels (symmetric, equal to the common value when both
        # agree), the pressure enters through its difference
        ok_r = bool(seen["diff"]) and bool(seen["density"]) and sp.simplify(term - term.subs({r0: r1, r1: r0}, simultaneous=True)) == 0 \
            and sp.simplify(term.subs(r1, r0) + dp / (r0 * g)) == 0
    ctx.ob("pressure2height.layers", ok_r, "increment %s with dp = np.diff(p), rho = density(p, T)" % fact,
           "rho = density(p, T); layer mean = (rho[:-1] + rho[1:])/2; dp = diff(p)", node=cs[0] if cs else f.node, func=f)
    ctx.ob("pressure2height.increment", ok_z, "cumsum(%s)" % fact, "cumsum(-dp / (rho_layer * g)): height increases as pressure decreases", node=cs[0] if cs else f.node, func=f)
    # leading zero, float result
    rets = [s for s in flow.stmts if isinstance(s, ast.Return)]
    r = rets[-1].value if rets else None
    ok_h = False
    why = ""
    if isinstance(r, ast.Call) and (dotted(r.func) or "").split(".")[-1] in ("hstack", "concatenate", "append", "r_") and r.args:
        a0 = r.args[0]
        if isinstance(a0, (ast.List, ast.Tuple)) and len(a0.elts) == 2 and norm(a0.elts[0]) in ("0", "0.0", "[0]", "[0.0]"):
            zdef = flow.resolve(a0.elts[1], at=rets[-1], depth=1)
            ok_h = bool(calls_in(zdef, "cumsum"))
    elif isinstance(r, ast.Name):
        alloc = A.get(r.id, [None])[0]
        if alloc is not None and isinstance(alloc.value, ast.Call):
            d = (dotted(alloc.value.func) or "").split(".")[-1]
            kws = {k.arg: norm(k.value) for k in alloc.value.keywords}
            if d in ("zeros_like", "empty_like", "full_like") and "float" not in kws.get("dtype", ""):
                why = " [allocated with %s: inherits the dtype of its argument - integer pressures truncate the heights]" % norm(alloc.value)
            elif d in ("zeros", "empty") or "float" in kws.get("dtype", ""):
                stores = [st for st in flow.stmts if isinstance(st, ast.Assign) and isinstance(st.targets[0], ast.Subscript)
                          and norm(st.targets[0]).replace(" ", "") == "%s[1:]" % r.id and calls_in(st.value, "cumsum")]
                ok_h = bool(stores) and d == "zeros"
    ctx.ob("pressure2height.start", ok_h, "return %s%s" % (norm(r) if r is not None else None, why),
           "[0, z_1, z_2, ...]: a leading 0 followed by the cumulative sum, as floating point whatever the dtype of p", node=rets[-1] if rets else f.node, func=f)


def rule_isa(ctx):
    ctx.rule("C14.isa", "T3", "ISA tables: equal length, heights increase, pressures decrease; the pressure branch takes the log of table and argument")
    f = ctx.func(ATM, "standard_atmosphere")
    # the tables by their roles in interp1d(X, Y)(Z): Y = <temperatures> + constants.K, X = <heights> in height coordinates and
    # log(<pressures>) in pressure coordinates (whatever the tables are called and wherever they are written down)
    flow = Flow(f)
    ips = [c for c in calls_in(f.node, "interp1d") if len(c.args) >= 2]
    if not ips:
        raise AnalysisError("standard_atmosphere: interp1d(x, y) call not found")

    def eval_point(ipc):
        outer = parent(ipc)
        if isinstance(outer, ast.Call) and outer.func is ipc and outer.args:
            return outer.args[0], outer
        st_ = enclosing_stmt(ipc)
        if isinstance(st_, ast.Assign) and isinstance(st_.targets[0], ast.Name):
            calls_ = [c for c in calls_in(f.node) if isinstance(c.func, ast.Name) and c.func.id == st_.targets[0].id and c.args]
            if len(calls_) == 1:
                return calls_[0].args[0], calls_[0]
        raise AnalysisError("standard_atmosphere: the evaluation point of the interpolator was not found")
    cn = f.params[1]
    z0 = f.params[0]

    def literal(e):
        """the numbers of np.array([...]) / a plain list"""
        if isinstance(e, ast.Call) and dotted(e.func) in ("np.array", "np.asarray", "numpy.array", "numpy.asarray") and e.args:
            e = e.args[0]
        if isinstance(e, (ast.List, ast.Tuple)) and e.elts:
            try:
                return [fold(x) if not (isinstance(x, ast.UnaryOp) and isinstance(x.op, ast.UAdd)) else fold(x.operand) for x in e.elts]
            except Exception:
                return None
        return None
    under = {}
    for mode in ("pressure", "height"):
        assume = {}
        for m2 in ("pressure", "height"):
            for q_ in ("'", '"'):
                assume["%s == %s%s%s" % (cn, q_, m2, q_)] = (m2 == mode)
                assume["%s != %s%s%s" % (cn, q_, m2, q_)] = (m2 != mode)
        live_ = [c for c in ips if flow.live_under(enclosing_stmt(c), assume)]
        if len(live_) != 1:
            raise AnalysisError("standard_atmosphere: %d interp1d calls can be reached in %s coordinates" % (len(live_), mode))
        ip = live_
        zarg, at_ = eval_point(ip[0])
        under[mode] = (flow.resolve_under(ip[0].args[0], assume, at=ip[0], stop=(z0,)), flow.resolve_under(zarg, assume, at=at_, stop=()),
                       flow.resolve_under(ip[0].args[1], assume, at=ip[0], stop=(z0,)))
    tabs = {}
    xh, xp = under["height"][0], under["pressure"][0]
    tabs["h"] = literal(xh)
    logp = isinstance(xp, ast.Call) and dotted(xp.func) in ("np.log", "numpy.log", "math.log") and len(xp.args) == 1
    tabs["p"] = literal(xp.args[0]) if logp else literal(xp)
    yv = under["height"][2]
    kelvin = isinstance(yv, ast.BinOp) and isinstance(yv.op, ast.Add) and "constants.K" in (str(norm(yv.left)), str(norm(yv.right)))
    if kelvin:
        tabs["temp"] = literal(yv.right if str(norm(yv.left)) == "constants.K" else yv.left)
    else:
        tabs["temp"] = None
    if str(norm(under["height"][2])) != str(norm(under["pressure"][2])):
        raise AnalysisError("standard_atmosphere: the interpolated temperatures differ between the two coordinates")
    if any(v is None for v in tabs.values()):
        raise AnalysisError("standard_atmosphere: tables of heights, pressures, temperatures (+ constants.K) not found in interp1d(X, Y): %s" % sorted(k for k, v in tabs.items() if v is None))
    h, p, t = tabs["h"], tabs["p"], tabs["temp"]
    ctx.ob("standard_atmosphere.lengths", len(h) == len(p) == len(t) and len(h) >= 2, "lengths h/p/temp = %d/%d/%d" % (len(h), len(p), len(t)), "equal", node=f.node, func=f)
    mono = all(a < b for a, b in zip(h, h[1:])) and all(a > b for a, b in zip(p, p[1:])) and all(x > 0 for x in p)
    ctx.ob("standard_atmosphere.monotone", mono, "h %s, p %s" % ("increasing" if all(a < b for a, b in zip(h, h[1:])) else "NOT increasing",
                                                                 "decreasing" if all(a > b for a, b in zip(p, p[1:])) else "NOT decreasing"),
           "heights strictly increase, pressures strictly decrease and are positive (interp1d over log p is well defined)", node=f.node, func=f)
    # the three tables describe ONE atmosphere: between adjacent levels the temperature is linear in height, and the tabulated
    # pressures obey the barometric relation of such a layer (this is how the standard atmosphere is defined) - a mistyped digit in any
    # of the tables makes the level addressed by height and the level addressed by pressure different levels
    if len(h) == len(p) == len(t) and mono:
        import math
        g0, R_air = 9.80665, 287.053
        dev = []
        for i in range(len(h) - 1):
            T1, T2, dh = t[i] + 273.15, t[i + 1] + 273.15, h[i + 1] - h[i]
            if T1 <= 0 or T2 <= 0:
                dev.append((i, float("inf")))
                continue
            L = (T2 - T1) / dh
            p2 = p[i] * math.exp(-g0 * dh / (R_air * T1)) if abs(L) < 1e-12 else p[i] * (T2 / T1) ** (-g0 / (R_air * L))
            dev.append((i, p2 / p[i + 1] - 1))
        worst = max(dev, key=lambda x: abs(x[1]))
        ctx.ob("standard_atmosphere.hydrostatic", abs(worst[1]) <= 2e-3,
               "largest relative deviation of a tabulated pressure from the barometric relation of its layer: %.2e (level %d, %s m)" % (worst[1], worst[0] + 1, h[worst[0] + 1]),
               "|p_table / p_barometric - 1| <= 2e-3 for every layer (today's table: 5e-4; a transposed digit: 2e-2)", node=f.node, func=f,
               witness=None if abs(worst[1]) <= 2e-3 else {"level": worst[0] + 1, "height": h[worst[0] + 1], "pressure in table": p[worst[0] + 1],
                                                            "relative deviation": worst[1]})
    # the interpolation interp1d(X, T)(Z): in pressure coordinates both X and Z are logarithms, in height coordinates neither
    def shape(e, tab):
        e2 = e
        logd = isinstance(e2, ast.Call) and dotted(e2.func) in ("np.log", "numpy.log", "math.log") and len(e2.args) == 1
        inner = e2.args[0] if logd else e2
        what = tab if literal(inner) is not None else str(norm(inner)).replace(" ", "")
        return "np.log(%s)" % what if logd else what
    got = {"pressure": (shape(xp, "p"), shape(under["pressure"][1], "?")), "height": (shape(xh, "h"), shape(under["height"][1], "?"))}
    ok = got["pressure"] == ("np.log(p)", "np.log(%s)" % z0) and got["height"] == ("h", z0)
    # the coordinate is used as the caller gave it: every definition of it that reaches the interpolation is the parameter itself or a
    # conversion that keeps the value (asarray / astype(float)) - a rescaling on some condition ("looks like hPa") reads the table elsewhere
    rescaled = []
    chain_defs, todo_, seen_ = [], [enclosing_stmt(c_) for c_ in ips], set()
    while todo_:
        at_d = todo_.pop()
        for d_ in flow.defs(z0, at_d):
            if d_ == "param" or id(d_) in seen_:
                continue
            seen_.add(id(d_))
            chain_defs.append(d_)
            todo_.append(d_)            # the definitions that reach this one (z = f(z))
    for d_ in chain_defs:
        v_ = flow._def_value(d_, z0) if isinstance(d_, ast.Assign) else (ast.BinOp(left=d_.target, op=d_.op, right=d_.value) if isinstance(d_, ast.AugAssign) else None)
        t_ = str(norm(v_)).replace(" ", "") if v_ is not None else "?"
        keeps = t_ == z0 or t_ in ("np.asarray(%s)" % z0, "np.asarray(%s,dtype=float)" % z0, "np.asanyarray(%s)" % z0, "np.array(%s)" % z0, "np.array(%s,dtype=float)" % z0,
                       "%s.astype(float)" % z0, "np.atleast_1d(%s)" % z0, "np.float64(%s)" % z0, "float(%s)" % z0,
                       "np.log(%s)" % z0, "numpy.log(%s)" % z0)        # (the logarithm of the pressure branch is decided below)
        if not keeps:
            rescaled.append(str(norm(d_))[:60])
    ctx.ob("standard_atmosphere.argument", not rescaled, "re-definitions of %s in front of the interpolation: %s" % (z0, rescaled or "none (or value-preserving conversions)"),
           "the height / pressure is used as given (Pa stays Pa: a guessed unit conversion applies twice to genuine Pa values of the upper atmosphere)",
           node=ips[0], func=f)
    ctx.ob("standard_atmosphere.pressure_branch", ok, "pressure: interp1d(%s, ..)(%s); height: interp1d(%s, ..)(%s)" % (got["pressure"] + got["height"]),
           "z_ref = log(p table) and z = log(z): both sides of the interpolation in log-pressure; plain heights otherwise",
           node=ip[0], func=f)


def run(ctx):
    for r in (rule_api, rule_argorder, rule_iwv, rule_crh, rule_p2h, rule_isa):
        ctx.attempt(r, ctx)
    from ..purity import rule_pure
    ctx.attempt(rule_pure, ctx, "C14.pure", [(MATH, "integrate_column"), (ATM, "integrate_water_vapor"), (ATM, "column_relative_humidity"), (ATM, "pressure2height")])
