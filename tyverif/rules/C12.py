"""C12 - compress/decompress round-trip any content and never leave debris.

Decided clauses (all structural): the format table, its users and the per-format branches
agree (T3); the temporary copy made by decompress is unlinked on every exit reachable after
its creation, and compress works inside a TemporaryDirectory (T1 all-exits); compress_as - the
only writer of the target - is not reachable from the exceptional exit of the yield and
nothing else touches the target (T1/T2); non-compression suffixes pass through untouched; the
zip member name written and the one read are the same function of the file name (T5/T6).
"""
import ast
from ..core import AnalysisError, norm, dotted, calls_in, walk_no_nested, parent, enclosing_stmt, const_value
from ..cfg import CFG, EXIT, RAISE, ENTRY
from ..flow import Flow

UTILS = "typhon/files/utils.py"
ADVERTISED = {"gz": "gzip.GzipFile", "bz2": "bz2.BZ2File", "zip": "zipfile.ZipFile", "xz": "lzma.LZMAFile"}
EXPECT = {"C12.names": 2, "C12.table": 8, "C12.cleanup": 3, "C12.commit": 3, "C12.passthrough": 2, "C12.zipname": 3, "C12.writer": 2}

WRITE_EFFECTS = {"remove", "unlink", "rename", "replace", "truncate", "mknod", "makedirs", "mkdir", "move",
                 "copy", "copy2", "copyfile", "rmtree", "touch", "write_text", "write_bytes", "rmdir", "symlink", "link"}


def table_entries(mod, name):
    """(key, value-text, node) for the dict literal and every later `name[K] = V`."""
    out = []
    lit = mod.table(name)
    from ..flow import dict_entries
    ent = dict_entries(lit)
    if ent is None and isinstance(lit, ast.Call) and isinstance(lit.func, ast.Name) and not lit.args and not lit.keywords:
        ent = _builder_entries(mod, lit.func.id)
    if ent is None:
        raise AnalysisError("%s is not a statically known table" % name)
    for k, v in ent:
        out.append((k, norm(v), v))
    for n in ast.walk(mod.tree):
        if isinstance(n, ast.Assign) and len(n.targets) == 1 and isinstance(n.targets[0], ast.Subscript) \
                and isinstance(n.targets[0].value, ast.Name) and n.targets[0].value.id == name:
            # only module level statements (possibly inside try/else/if), not inside functions
            if any(isinstance(a, (ast.FunctionDef, ast.ClassDef)) for a in _anc(n)):
                continue
            out.append((const_value(n.targets[0].slice), norm(n.value), n))
        if isinstance(n, ast.Call) and isinstance(n.func, ast.Attribute) and isinstance(n.func.value, ast.Name) and n.func.value.id == name \
                and n.func.attr in ("update", "setdefault") and not any(isinstance(a, (ast.FunctionDef, ast.ClassDef)) for a in _anc(n)):
            if n.func.attr == "setdefault" and len(n.args) == 2:
                out.append((const_value(n.args[0]), norm(n.args[1]), n))
            elif n.func.attr == "update":
                for k in n.keywords:
                    if k.arg is None:
                        raise AnalysisError("%s.update(**...) cannot be read as a table" % name)
                    out.append((k.arg, norm(k.value), n))
                for a in n.args:
                    if not isinstance(a, ast.Dict):
                        raise AnalysisError("%s.update(<non-literal>) cannot be read as a table" % name)
                    for k, v in zip(a.keys, a.values):
                        out.append((const_value(k), norm(v), n))
    return out


def _builder_entries(mod, fname):
    """entries of a table put together by a module-level builder function without parameters: a literal list of pairs / dict, entries
    added one by one (possibly under a condition - an optional format, like the try/else at module level), returned as is or through
    dict().  None when the body is anything else."""
    fns = [n for n in mod.tree.body if isinstance(n, ast.FunctionDef) and n.name == fname]
    if len(fns) != 1 or fns[0].args.args or fns[0].args.kwonlyargs or fns[0].args.vararg or fns[0].args.kwarg:
        return None
    tabs = {}
    result = []

    def pair(e):
        if isinstance(e, (ast.Tuple, ast.List)) and len(e.elts) == 2 and isinstance(const_value(e.elts[0]), str):
            return (const_value(e.elts[0]), e.elts[1])
        return None

    def literal(e):
        from ..flow import dict_entries
        if isinstance(e, (ast.List, ast.Tuple)):
            ps = [pair(x) for x in e.elts]
            return None if any(p_ is None for p_ in ps) else ps
        if isinstance(e, ast.Call) and isinstance(e.func, ast.Name) and e.func.id in ("dict", "list", "OrderedDict") and len(e.args) == 1 and not e.keywords:
            return literal(e.args[0])
        if isinstance(e, ast.Name) and e.id in tabs:
            return list(tabs[e.id])
        return dict_entries(e)

    def run(stmts):
        for st in stmts:
            if isinstance(st, ast.Expr) and isinstance(st.value, ast.Constant):
                continue
            if isinstance(st, ast.Assign) and len(st.targets) == 1 and isinstance(st.targets[0], ast.Name):
                v = literal(st.value)
                if v is None:
                    return False
                tabs[st.targets[0].id] = v
            elif isinstance(st, ast.Assign) and len(st.targets) == 1 and isinstance(st.targets[0], ast.Subscript) and isinstance(st.targets[0].value, ast.Name) \
                    and st.targets[0].value.id in tabs and isinstance(const_value(st.targets[0].slice), str):
                tabs[st.targets[0].value.id].append((const_value(st.targets[0].slice), st.value))
            elif isinstance(st, ast.Expr) and isinstance(st.value, ast.Call) and isinstance(st.value.func, ast.Attribute) and isinstance(st.value.func.value, ast.Name) \
                    and st.value.func.value.id in tabs and st.value.func.attr == "append" and len(st.value.args) == 1 and pair(st.value.args[0]):
                tabs[st.value.func.value.id].append(pair(st.value.args[0]))
            elif isinstance(st, ast.If):
                if not run(st.body) or not run(st.orelse):
                    return False
            elif isinstance(st, ast.Try):
                if not run(st.body) or not run(st.orelse) or any(not run(h.body) for h in st.handlers):
                    return False
            elif isinstance(st, ast.Pass):
                continue
            elif isinstance(st, ast.Return) and st.value is not None:
                v = literal(st.value)
                if v is None:
                    return False
                result.append(v)
            else:
                return False
        return True
    if not run(fns[0].body) or len(result) != 1:
        return None
    return result[0]


def _anc(n):
    n = parent(n)
    while n is not None:
        yield n
        n = parent(n)


def is_effect_on(call, names):
    """Does this call perform a file-system write effect mentioning one of `names`?"""
    d = dotted(call.func) or (("?." + call.func.attr) if isinstance(call.func, ast.Attribute) else "")
    last = d.split(".")[-1]
    mentions = any(isinstance(n, ast.Name) and n.id in names for a in list(call.args) + [k.value for k in call.keywords]
                   for n in ast.walk(a))
    if isinstance(call.func, ast.Attribute) and any(isinstance(n, ast.Name) and n.id in names for n in ast.walk(call.func.value)):
        mentions = True
    if not mentions:
        return False
    if last == "open":
        mode = None
        if len(call.args) > 1:
            mode = call.args[1]
        for k in call.keywords:
            if k.arg == "mode":
                mode = k.value
        if mode is None:
            return False
        if isinstance(mode, ast.Constant) and isinstance(mode.value, str):
            return any(ch in mode.value for ch in "wax+")
        return True
    return last in WRITE_EFFECTS


def rule_table(ctx):
    ctx.rule("C12.table", "T3", "format table, its readers and the per-format branches agree with the advertised set")
    mod = ctx.mod(UTILS)
    entries = table_entries(mod, "_known_compressions")
    keys = {}
    for k, v, node in entries:
        keys[k] = (v, node)
    for fmt, cls in sorted(ADVERTISED.items()):
        got = keys.get(fmt)
        ctx.ob("_known_compressions[%r]" % fmt, got is not None and got[0] == cls,
               "%r -> %s" % (fmt, got[0] if got else "<missing>; keys: %s" % sorted(keys)),
               "%r -> %s (the stdlib class of that format, key without dot)" % (fmt, cls),
               node=got[1] if got else mod.table("_known_compressions"), func=_modfunc(mod))
    extra = sorted(set(keys) - set(ADVERTISED))
    ctx.ob("_known_compressions.keys", not extra, "keys beyond the advertised set: %s" % extra,
           "exactly {gz, bz2, zip, xz}: suffixes are compared with the leading dot stripped",
           node=keys[extra[0]][1] if extra else mod.table("_known_compressions"), func=_modfunc(mod))
    # readers of the table
    f = ctx.func(UTILS, "is_compression_format")
    rets = [s for s in f.body if isinstance(s, ast.Return)]
    ok = _table_readers(ctx)[1]
    ctx.ob("is_compression_format", ok, "return %s" % (norm(rets[0].value) if rets else None),
           "membership of the argument in _known_compressions", node=f.node, func=f)
    g = ctx.func(UTILS, "get_compressor")
    rets = [s for s in g.body if isinstance(s, ast.Return)]
    ok = _table_readers(ctx)[0]
    ctx.ob("get_compressor", ok, "return %s" % (norm(rets[0].value) if rets else None),
           "the table entry of the argument", node=g.node, func=g)
    # branch literals of compress_as cover every key
    ca = ctx.func(UTILS, "compress_as")
    fmtp = ca.params[1]
    lits = set()
    for n in walk_no_nested(ca.node):
        if isinstance(n, ast.Compare) and norm(n.left) == fmtp and len(n.ops) == 1:
            if isinstance(n.ops[0], ast.Eq) and isinstance(n.comparators[0], ast.Constant):
                lits.add(n.comparators[0].value)
            elif isinstance(n.ops[0], ast.In) and isinstance(n.comparators[0], (ast.Tuple, ast.List, ast.Set)):
                for e in n.comparators[0].elts:
                    lits.add(const_value(e))
    has_else = _chain_has_else(ca, fmtp)
    missing = sorted(set(keys) - lits) if not has_else else []
    ctx.ob("compress_as.branches", not missing and lits <= set(keys) | set(ADVERTISED),
           "format literals with a writer branch: %s; table keys: %s" % (sorted(lits), sorted(keys)),
           "every table key has a branch that writes the target (a key without branch is accepted and writes nothing)",
           node=ca.node, func=ca)
    # the suffix is compared without its dot in compress and decompress
    for fname in ("compress", "decompress"):
        h = ctx.func(UTILS, fname)
        flow = Flow(h)
        calls = calls_in(h.node, "is_compression_format")
        if not calls:
            raise AnalysisError("%s does not consult is_compression_format" % fname)
        arg = calls[0].args[0]
        ev = _path_eval(h, {h.params[0]: _Name((True, True, True))},
                        lambda t: True if t.endswith(" is None") else (False if t.endswith(" is not None") else None), stop_at=calls[0])
        val = ev(arg)
        ok = val == ("fmt",)
        forms = [val]
        ctx.ob("%s.suffix" % fname, ok, "format derived from the name as: %s = %s" % (norm(arg), forms[0]),
               "os.path.splitext(name)[1] with the leading dot stripped", node=calls[0], func=h)


def _chain_has_else(func, fmtp):
    """Does the if/elif chain on the format end in a plain else that writes?"""
    for n in walk_no_nested(func.node):
        if isinstance(n, ast.If) and isinstance(n.test, ast.Compare) and norm(n.test.left) == fmtp:
            cur = n
            while len(cur.orelse) == 1 and isinstance(cur.orelse[0], ast.If):
                cur = cur.orelse[0]
            # innermost chain must be total for has_else; nested chains are followed into the else
            if cur.orelse:
                inner = [m for s in cur.orelse for m in walk_no_nested(s) if isinstance(m, ast.If)
                         and isinstance(m.test, (ast.Compare, ast.BoolOp)) and fmtp in norm(m.test)]
                if not inner:
                    return True
    return False


class _M:
    def __init__(self, mod):
        self.module = mod
        self.node = mod.tree

    def where(self, node=None):
        return "%s:%d" % (self.module.rel, getattr(node, "lineno", 1))


def _modfunc(mod):
    return _M(mod)


# ---------------------------------------------------------------------------------
def rule_cleanup(ctx):
    ctx.rule("C12.cleanup", "T1 all-exits", "the decompressed copy is unlinked on every exit reachable after its "
             "creation; compress works inside a TemporaryDirectory")
    f = ctx.func(UTILS, "decompress")
    flow = Flow(f)
    cfg = flow.cfg
    # A: statements after which a temporary file exists
    creators = []
    for st in flow.stmts:
        if isinstance(st, (ast.Assign, ast.With)):
            for c in calls_in(st if isinstance(st, ast.Assign) else ast.Module(body=[], type_ignores=[]), None) if isinstance(st, ast.Assign) else []:
                d = dotted(c.func) or ""
                if d.split(".")[-1] in ("NamedTemporaryFile", "mkstemp"):
                    creators.append((st, c))
                elif d == "open" and is_effect_on(c, {n.id for a in c.args[:1] for n in ast.walk(a) if isinstance(n, ast.Name)}):
                    creators.append((st, c))
    if not creators:
        raise AnalysisError("decompress: no statement creating the temporary file found")
    tmpnames = set()
    for st, c in creators:
        if isinstance(st.targets[0], ast.Name):
            tmpnames.add(st.targets[0].id)
        kw = {k.arg: k.value for k in c.keywords}
        if (dotted(c.func) or "").endswith("NamedTemporaryFile"):
            dl = kw.get("delete")
            if not (isinstance(dl, ast.Constant) and dl.value is False):
                raise AnalysisError("NamedTemporaryFile without delete=False: cleanup is implicit, rule does not apply")
    # unlink nodes
    unl = []
    for st in flow.stmts:
        for c in calls_in(st, ("unlink", "remove")) if not isinstance(st, (ast.If, ast.For, ast.While, ast.Try, ast.With)) else []:
            if c.args and any(isinstance(n, ast.Name) and n.id in tmpnames for n in ast.walk(c.args[0])):
                unl.extend(cfg.nodes(st))
    nonraising = _nonraising_nodes(ctx, flow)
    for st, c in creators:
        bad_exits = []
        for n in cfg.nodes(st):
            starts = [b for lab, b in cfg.succ[n] if lab not in ("exc",)]
            # walk without following exc edges of provably non-raising statements
            seen = set()
            todo = [s for s in starts if s not in unl]
            seen.update(todo)
            while todo:
                a = todo.pop()
                if a in (EXIT, RAISE):
                    continue
                for lab, b in cfg.succ.get(a, []):
                    if lab == "exc" and a in nonraising:
                        continue
                    if b in unl or b in seen:
                        continue
                    seen.add(b)
                    todo.append(b)
            for ex in (EXIT, RAISE):
                if ex in seen:
                    bad_exits.append(ex)
            # which statement leaks (first raising statement outside protection), for the report
            leak = [cfg.describe(a) for a in seen if a not in (EXIT, RAISE) and any(
                lab == "exc" and b == RAISE and a not in nonraising for lab, b in cfg.succ.get(a, []))]
        ctx.ob("decompress.tmpfile[%s]" % norm(c.func), not bad_exits,
               "exits reachable after `%s` without passing os.unlink(<tmp>.name): %s%s" % (
                   norm(st)[:60], bad_exits or "none", (" via raising statements at %s" % sorted(set(leak))) if bad_exits else ""),
               "none: normal exit, exception in the copy, exception thrown into the yield all pass the unlink",
               node=st, func=f)
    # compress: yield and compress_as inside TemporaryDirectory
    g = ctx.func(UTILS, "compress")
    ok = False
    fact = "no `with tempfile.TemporaryDirectory(...)`"
    for w in walk_no_nested(g.node):
        if isinstance(w, ast.With) and any(calls_in(i.context_expr, "TemporaryDirectory") for i in w.items):
            ys = [n for s in w.body for n in walk_no_nested(s) if isinstance(n, ast.Yield)]
            cs = [c for s in w.body for c in calls_in(s, "compress_as")]
            tname = [norm(i.optional_vars) for i in w.items if i.optional_vars is not None]
            gflow = Flow(g)
            inside = False
            if ys and tname:
                val = gflow.resolve(ys[0].value, at=ys[0])
                inside = any(isinstance(n, ast.Name) and n.id == tname[0] for n in ast.walk(val)) \
                    and (dotted(val.func) if isinstance(val, ast.Call) else "") in ("os.path.join", "posixpath.join")
            fact = "yields %s (under %s), compress_as calls inside: %d" % (norm(ys[0].value) if ys else None, tname, len(cs))
            ok = len(ys) == 1 and len(cs) == 1 and inside
    ctx.ob("compress.tmpdir", ok, fact, "the yielded path lies in the TemporaryDirectory and both the yield and "
           "compress_as are inside its with-block (removed on every exit)", node=g.node, func=g)


def _table_readers(ctx):
    """(get_compressor is the plain table look-up, is_compression_format is membership in the table) - in either of the
    equivalent spellings: `x in table` / `try: get_compressor(x) except KeyError: return False; return True`"""
    gc = ctx.func(UTILS, "get_compressor")
    icf = ctx.func(UTILS, "is_compression_format")
    grets = [s_ for s_ in gc.body if isinstance(s_, ast.Return)]
    gc_ok = len(grets) == 1 and gc.body[-1] is grets[0] and all(isinstance(s_, (ast.Assign, ast.Return)) for s_ in gc.body) \
        and norm(Flow(gc).resolve(grets[0].value, at=grets[0])) == "_known_compressions[%s]" % gc.params[0]
    p = icf.params[0]
    member = len(icf.body) == 1 and isinstance(icf.body[0], ast.Return) and norm(icf.body[0].value) == "%s in _known_compressions" % p
    if not member and gc_ok and len(icf.body) == 2 and isinstance(icf.body[0], ast.Try) and isinstance(icf.body[1], ast.Return):
        t = icf.body[0]
        member = len(t.body) == 1 and isinstance(t.body[0], ast.Expr) and norm(t.body[0].value) == "get_compressor(%s)" % p \
            and len(t.handlers) == 1 and t.handlers[0].type is not None and norm(t.handlers[0].type) == "KeyError" \
            and [norm(s_) for s_ in t.handlers[0].body] == ["return False"] and not t.orelse and not t.finalbody and norm(icf.body[1]) == "return True"
    return gc_ok, member


def _compressor_lookup(v):
    """the key expression when v looks a compressor up: get_compressor(x) or the table itself, _known_compressions[x]"""
    if isinstance(v, ast.Call) and dotted(v.func) == "get_compressor" and len(v.args) == 1 and not v.keywords:
        return v.args[0]
    if isinstance(v, ast.Subscript) and norm(v.value) == "_known_compressions":
        return v.slice
    return None


def _nonraising_nodes(ctx, flow):
    """CFG nodes whose header provably cannot raise: constant arithmetic, and
    `get_compressor(x)` dominated by a passed `is_compression_format(x)` test."""
    cfg = flow.cfg
    out = set()
    table_ok = all(_table_readers(ctx))
    for st in flow.stmts:
        if not isinstance(st, ast.Assign):
            continue
        v = st.value
        if all(isinstance(n, (ast.Constant, ast.BinOp, ast.operator, ast.Load)) for n in ast.walk(v)):
            out.update(cfg.nodes(st))
            continue
        if table_ok and isinstance(_compressor_lookup(v), ast.Name):
            x = _compressor_lookup(v).id
            # a dominating guard `if not is_compression_format(x): ... return`
            guards = []
            for g in flow.stmts:
                if isinstance(g, ast.If) and norm(g.test) == "not is_compression_format(%s)" % x \
                        and g.body and isinstance(g.body[-1], (ast.Return, ast.Raise)):
                    guards.extend(cfg.nodes(g))
            same_def = all(flow.defs(x, st) == flow.defs(x, cfg.stmt_of[gn]) for gn in guards)
            if guards and same_def and all(cfg.dominated_by(n, set(guards)) for n in cfg.nodes(st)):
                out.update(cfg.nodes(st))
    return out


# ---------------------------------------------------------------------------------
def rule_commit(ctx):
    ctx.rule("C12.commit", "T1+T2", "an exception in the caller's block creates or touches no target: compress_as "
             "is unreachable from the exceptional exit of the yield and nothing else writes the target")
    f = ctx.func(UTILS, "compress")
    flow = Flow(f)
    cfg = flow.cfg
    target = f.params[0]
    ynodes = []
    for st in flow.stmts:
        if isinstance(st, ast.Expr) and isinstance(st.value, ast.Yield):
            # the yield on the compression path (not the pass-through one)
            if norm(st.value.value) != target:
                ynodes.extend(cfg.nodes(st))
    if not ynodes:
        raise AnalysisError("compress: yield of the temporary path not found")
    writers = []
    for st in flow.stmts:
        if isinstance(st, (ast.Expr, ast.Assign, ast.Return)) and calls_in(st, "compress_as"):
            writers.extend(cfg.nodes(st))
    if not writers:
        raise AnalysisError("compress: compress_as call not found")
    reach = cfg.reach_from_edges([(y, "gen") for y in ynodes] + [(y, "exc") for y in ynodes])
    hit = [cfg.describe(w) for w in writers if w in reach]
    ctx.ob("compress.commit", not hit, "compress_as reachable from the exceptional exit of the yield at: %s" % (hit or "nowhere"),
           "unreachable (not in a finally / except / after a swallowed exception)", node=cfg.stmt_of[ynodes[0]], func=f)
    # ... and a block that ended normally is ALWAYS committed, whatever was written (an empty file is content, too): from the normal exit of
    # the yield every path reaches compress_as - no statement in between raises or leaves
    tmpname = norm(cfg.stmt_of[ynodes[0]].value.value).replace(" ", "")
    labs = sorted({lab for y in ynodes for lab, _ in cfg.succ.get(y, []) if lab not in ("gen", "exc")})
    before = cfg.reach_from_edges([(y, lab) for y in ynodes for lab in labs], avoid=writers)
    leaves = []
    for n in sorted(before, key=str):
        if n in (ENTRY, EXIT, RAISE) or n not in cfg.stmt_of:
            continue
        st = cfg.stmt_of[n]
        if isinstance(st, (ast.Raise, ast.Return)):
            from ..flow import guard_chain
            gtxt = [("%s" if pol else "not (%s)") % norm(t) for t, pol in guard_chain(st)]
            if isinstance(st, ast.Raise) and gtxt and all(g_.replace(" ", "") in ("notos.path.isfile(%s)" % tmpname, "notos.path.exists(%s)" % tmpname) for g_ in gtxt):
                continue        # nothing was created at all: compress_as would raise FileNotFoundError itself
            if not any(w_ in " ".join(gtxt) for w_ in ("getsize", "st_size", ".size", "read(", "len(")) and isinstance(st, ast.Raise):
                raise AnalysisError("compress: `%s` under %s between the yield and compress_as is not understood" % (norm(st)[:60], gtxt))
            leaves.append("line %d: %s under %s" % (getattr(st, "lineno", 0), norm(st)[:50], gtxt))
    skipped = EXIT in before
    ctx.ob("compress.always", not leaves and not skipped,
           "between the normal exit of the yield and compress_as: %s%s" % (sorted(set(leaves)) or "nothing leaves", "; the end of the function is reachable without compress_as" if skipped else ""),
           "every block that ended normally is compressed into the target - no validation of what was written stands in between (an empty file round-trips)",
           node=cfg.stmt_of[ynodes[0]], func=f, witness=None if (not leaves and not skipped) else {"with compress('x.gz') as tmp": "open(tmp, 'w').close()", "expected": "x.gz holding b''"})
    # nothing else touches the target
    others = []
    for c in calls_in(f.node):
        if (dotted(c.func) or "").split(".")[-1] == "compress_as":
            continue
        if is_effect_on(c, {target}):
            others.append(c)
    ctx.ob("compress.target_effects", not others, "other write effects on the target in compress: %s" % [norm(c) for c in others],
           "none - compress_as on the normal exit is the only writer of the target",
           node=others[0] if others else f.node, func=f)


def rule_passthrough(ctx):
    ctx.rule("C12.passthrough", "T1", "for a non-compression suffix both context managers yield the name unchanged "
             "and do nothing else")
    for fname in ("compress", "decompress"):
        f = ctx.func(UTILS, fname)
        p0 = f.params[0]
        guard = None
        before = []
        for st in f.body:
            if isinstance(st, ast.If) and calls_in(st.test, "is_compression_format"):
                guard = st
                break
            before.append(st)
        if guard is None:
            raise AnalysisError("%s: no is_compression_format guard" % fname)
        from ..flow import arms, ends_in_jump
        cond = norm(calls_in(guard.test, "is_compression_format")[0])
        ab = arms(guard, cond, f.body)
        if ab is None:
            raise AnalysisError("%s: the guard is not a plain test of is_compression_format" % fname)
        arm = list(ab[1])
        if guard.orelse and not ends_in_jump(arm):
            # an if/else: what follows the statement belongs to both arms
            arm = arm + list(f.body[f.body.index(guard) + 1:])
        ok = len(arm) in (1, 2) and isinstance(arm[0], ast.Expr) and isinstance(arm[0].value, ast.Yield) \
            and arm[0].value.value is not None and norm(arm[0].value.value) == p0 \
            and (len(arm) == 1 or (isinstance(arm[1], ast.Return) and arm[1].value is None))
        if len(arm) == 1 and not guard.orelse:
            ok = False          # guard clause without return: falls through into the compression arm
        effects = [c for st in before for c in calls_in(st) if is_effect_on(c, set(f.all_params)) or
                   (dotted(c.func) or "").split(".")[-1] in ("NamedTemporaryFile", "mkstemp", "mkdtemp", "TemporaryDirectory")]
        ctx.ob("%s.passthrough" % fname, ok and not effects,
               "pass-through arm: %s; effects before the guard: %s" % ([norm(s) for s in arm], [norm(c) for c in effects]),
               "exactly `yield %s; return`, reached without any file-system effect" % p0, node=guard, func=f)


# ---------------------------------------------------------------------------------
# zip member name: tiny symbolic model of file-name functions.  A name is a triple of flags
# (has_dir, has_stem, has_compression_suffix); splitext splits off the last suffix.
class _Name(tuple):
    pass


class _Stop(Exception):
    pass


def _path_eval(func, env, truth, stop_at=None):
    """Interpret the straight-line prefix of func with path values; returns env at the end.
    `truth` decides If tests by their source text (callable text -> bool/None)."""
    def ev(e):
        if isinstance(e, ast.Name):
            if e.id in env:
                return env[e.id]
            return ("opaque", e.id)
        if isinstance(e, ast.Constant):
            return ("const", e.value)
        if isinstance(e, ast.IfExp):
            tv = truth(norm(e.test))
            if tv is True:
                return ev(e.body)
            if tv is False:
                return ev(e.orelse)
            return ("opaque", norm(e))
        if isinstance(e, ast.Call):
            d = dotted(e.func) or ""
            last = d.split(".")[-1]
            if last == "basename" and len(e.args) == 1:
                v = ev(e.args[0])
                if isinstance(v, _Name):
                    return _Name((False, v[1], v[2]))
            if last == "splitext" and len(e.args) == 1:
                v = ev(e.args[0])
                if isinstance(v, _Name):
                    if v[2]:
                        return ("pair", _Name((v[0], v[1], False)), ("suffix",))
                    return ("pair", ("stem-split",), ("othersuffix",))
            if isinstance(e.func, ast.Attribute) and e.func.attr in ("rstrip", "lstrip", "strip", "removesuffix", "replace"):
                base = ev(e.func.value)
                arg = e.args[0] if e.args else None
                if base == ("suffix",):
                    if e.func.attr == "lstrip" and isinstance(arg, ast.Constant) and arg.value == ".":
                        return ("fmt",)
                    if e.func.attr == "removeprefix" and isinstance(arg, ast.Constant) and arg.value == ".":
                        return ("fmt",)
                    return ("opaque", norm(e))
                if isinstance(base, _Name):
                    if e.func.attr == "removesuffix":
                        return _Name((base[0], base[1], False))
                    return ("charset-strip", norm(e))
                return ("opaque", norm(e))
            if isinstance(e.func, ast.Attribute) and e.func.attr == "join" and len(e.args) == 1 \
                    and isinstance(e.args[0], (ast.List, ast.Tuple)) and len(e.args[0].elts) == 2:
                a, b = [ev(x) for x in e.args[0].elts]
                if isinstance(a, _Name) and not a[2]:
                    return _Name((a[0], a[1], True))
            return ("opaque", norm(e))
        if isinstance(e, ast.Subscript) and isinstance(e.slice, ast.Constant):
            v = ev(e.value)
            if isinstance(v, tuple) and v and v[0] == "pair":
                return v[1 + e.slice.value]
            if isinstance(v, _Name) and isinstance(e.slice.value, int):
                return ("opaque", norm(e))
        if isinstance(e, ast.Subscript) and isinstance(e.slice, ast.Slice):
            v = ev(e.value)
            if v == ("suffix",) and norm(e.slice) == "1:":
                return ("fmt",)
            if isinstance(v, _Name):
                return ("sliced", norm(e))
        return ("opaque", norm(e))

    def block(stmts):
        for st in stmts:
            if stop_at is not None and any(n is stop_at for n in ast.walk(st)) and not isinstance(st, (ast.Try, ast.With)):
                raise _Stop()
            if isinstance(st, ast.Assign) and len(st.targets) == 1:
                v = ev(st.value)
                t = st.targets[0]
                if isinstance(t, ast.Name):
                    env[t.id] = v
                elif isinstance(t, ast.Tuple) and isinstance(v, tuple) and v and v[0] == "pair":
                    for tt, x in zip(t.elts, v[1:]):
                        if isinstance(tt, ast.Name):
                            env[tt.id] = x
            elif isinstance(st, ast.If):
                tv = truth(norm(st.test))
                if tv is True:
                    block(st.body)
                elif tv is False:
                    block(st.orelse)
                else:
                    pass
            elif isinstance(st, (ast.Try, ast.With)):
                block(st.body)
    try:
        block(func.body)
    except _Stop:
        pass
    return ev


def _from_member_list(dflow, e, at, depth=0):
    """the member name may be taken from the archive's own list of members (namelist / infolist): looked for through the definitions
    of a name and both arms of a conditional expression"""
    if depth > 3:
        return False
    if isinstance(e, ast.IfExp):
        return _from_member_list(dflow, e.body, at, depth + 1) or _from_member_list(dflow, e.orelse, at, depth + 1)
    if isinstance(e, ast.Name):
        for d_ in dflow.defs(e.id, at):
            if isinstance(d_, ast.Assign):
                v_ = dflow._def_value(d_, e.id)
                if v_ is not None and _from_member_list(dflow, v_, d_, depth + 1):
                    return True
        return False
    src_ = dflow.resolve(e, at=at, depth=2)
    return "namelist()" in str(norm(src_)) or "infolist()" in str(norm(src_))


def rule_zipname(ctx):
    ctx.rule("C12.zipname", "T5/T6", "the archive member written and the member opened are the same function of the name")
    ca = ctx.func(UTILS, "compress_as")
    de = ctx.func(UTILS, "decompress")
    fmtp = ca.params[1]
    # writer: arcname of the .write(...) call in the zip branch
    arc = None
    for c in calls_in(ca.node, "write"):
        for k in c.keywords:
            if k.arg == "arcname":
                arc = (c, k.value)
    if arc is None:
        raise AnalysisError("compress_as: no .write(..., arcname=...) in the zip branch")
    env = {ca.params[2]: _Name((True, True, True)), ca.params[0]: ("opaque", "tmp")}

    def truth_w(t):
        if t == "%s is None" % ca.params[2]:
            return False
        if t.startswith("not is_compression_format"):
            return False
        if ".endswith(%s)" % fmtp in t:
            return True     # the target name ends in the format's suffix (the documented use)
        return None
    ev = _path_eval(ca, env, truth_w)
    wv = ev(arc[1])
    # reader: first argument of <archive>.open(member, 'r')
    member = None
    dflow = Flow(de)
    for c in calls_in(de.node, "open"):
        if isinstance(c.func, ast.Attribute) and c.args:
            recv = c.func.value
            if isinstance(recv, ast.Name):
                nm_ = recv.id
                recv = dflow.resolve(recv, at=c, depth=2)      # an archive object kept in a temporary
                if isinstance(recv, ast.Name):
                    # ... or bound by `with <archive call> as name`
                    for w_ in walk_no_nested(de.node):
                        if isinstance(w_, (ast.With, ast.AsyncWith)):
                            for it_ in w_.items:
                                if isinstance(it_.optional_vars, ast.Name) and it_.optional_vars.id == nm_ and isinstance(it_.context_expr, ast.Call) \
                                        and any(c is x for x in ast.walk(w_)):
                                    recv = it_.context_expr
            if isinstance(recv, ast.Call):
                member = (c, c.args[0])
    if member is None:
        raise AnalysisError("decompress: member open() of the zip archive not found")
    env2 = {de.params[0]: _Name((True, True, True))}
    # (the path on which the expected member is present; a fall-back to the ONLY member of a renamed archive does not change that)
    def truth_r(t):
        t = str(t).replace('"', "'")
        if t.startswith("not is_compression_format") or (" not in " in t and "len(" in t and "== 1" in t):
            return False
        import re as _re2
        if _re2.fullmatch(r"[\w.]+(\([\w., ]*\))? in \w+", t):
            return True         # the expected member is present (the path the round trip takes)
        if _re2.fullmatch(r"[\w.]+(\([\w., ]*\))? not in \w+", t):
            return False
        if t.endswith(" == 'zip'") and " " not in t[:-len(" == 'zip'")]:
            return True         # the member is opened on the zip path
        if t.endswith(" != 'zip'") and " " not in t[:-len(" != 'zip'")]:
            return False
        return None
    ev2 = _path_eval(de, env2, truth_r)
    rv = ev2(member[1])
    want = _Name((False, True, False))
    # a reader that falls back to the ONLY member of the archive finds whatever single member the writer stored: the names then only
    # have to agree for archives the reader's fall-back does not cover (none: compress_as writes exactly one member)
    has_fallback = _from_member_list(dflow, member[1], member[0])
    one_member = len([c_ for c_ in calls_in(ca.node, "write") if any(k_.arg == "arcname" for k_ in c_.keywords)]) == 1
    covered = has_fallback and one_member
    ctx.ob("compress_as.arcname", wv == want or covered, "member written = %s -> %s%s" % (norm(arc[1]), _show(wv), "  [reader falls back to the only member]" if covered and wv != want else ""),
           "base name of the target without directory and without the compression suffix (or any name, when the reader opens the only member of the archive)",
           node=arc[0], func=ca)
    ctx.ob("decompress.member", rv == want or (covered and wv != want), "member opened = %s -> %s" % (norm(member[1]), _show(rv)),
           "base name of the archive without directory and without the compression suffix (same as written)",
           node=member[0], func=de)
    # an archive that was RENAMED after it was written (FileSet.move without convert renames the file) keeps the old member name: the
    # reader falls back to the only member of the archive
    fallback = has_fallback
    ctx.ob("decompress.renamed_archive", fallback, "member name re-bound from the archive's own list of members: %s" % fallback,
           "when the expected member is missing and the archive holds exactly one member, that member is read (a .zip moved to another name by FileSet.move was unreadable: "
           "KeyError, no item named ... in the archive)", node=member[0], func=de,
           witness=None if fallback else {"written as": "20180101.txt.zip (member 20180101.txt)", "moved to": "2018/001.txt.zip", "read": "KeyError: There is no item named '001.txt' in the archive"})


def _show(v):
    if isinstance(v, _Name):
        return "name(dir=%s, stem=%s, suffix=%s)" % v
    return str(v)


def rule_writer(ctx):
    ctx.rule("C12.writer", "T2", "compress_as writes the target only through the compressor of the format; the format tested is the one requested")
    ca = ctx.func(UTILS, "compress_as")
    tgt = ca.params[2]
    flow = Flow(ca)
    comp_names = set()
    for st in flow.stmts:
        if isinstance(st, ast.Assign) and isinstance(st.targets[0], ast.Name) and _compressor_lookup(st.value) is not None:
            comp_names.add(st.targets[0].id)
    others = []
    for c in calls_in(ca.node):
        d = dotted(c.func) or ""
        last = d.split(".")[-1]
        mentions = any(isinstance(n, ast.Name) and n.id == tgt for a in list(c.args) + [k.value for k in c.keywords] for n in ast.walk(a))
        if not mentions:
            continue
        if last in comp_names or last in ("basename", "splitext", "join", "dirname"):
            continue
        if d == "open" and _write_mode_b(c):
            # accepted only as the raw file object wrapped by the compressor (the gz idiom)
            w = parent(c)
            inner_ok = False
            wst = parent(w) if isinstance(w, ast.withitem) else None
            if isinstance(wst, ast.With) and isinstance(w.optional_vars, ast.Name):
                raw = w.optional_vars.id
                inner_ok = any((dotted(c2.func) or "").split(".")[-1] in comp_names and any(k.arg == "fileobj" and norm(k.value) == raw for k in c2.keywords)
                               for c2 in calls_in(wst))
            if inner_ok:
                continue
        others.append(norm(c)[:70])
    ctx.ob("compress_as.writers", bool(comp_names) and not others, "calls touching the target other than through the format's compressor: %s" % (others or "none"),
           "the target is produced by get_compressor(fmt) only - never by copying the input verbatim (content that happens to start with the format's magic "
           "number is still content)", node=ca.node, func=ca)
    # compress(): the format tested is `fmt` (parameter if given, else the suffix)
    f = ctx.func(UTILS, "compress")
    fl = Flow(f)
    fmtp = f.params[1]
    calls = calls_in(f.node, "is_compression_format")
    ok = False
    fact = None
    if calls:
        a = calls[0].args[0]
        fact = "is_compression_format(%s)" % norm(a)
        given = {"%s is None" % fmtp: False}
        tested = norm(fl.resolve_under(a, given, at=calls[0], stop=(f.params[0],)))
        cas = calls_in(f.node, "compress_as")
        if not cas:
            raise AnalysisError("compress: compress_as(...) call not found")
        from ..calls import bind_args
        passed = bind_args(cas[0], ctx.func(UTILS, "compress_as")).get("fmt")
        ok = tested == fmtp and passed is not None and norm(fl.resolve_under(passed, given, at=cas[0], stop=(f.params[0],))) == fmtp
    ctx.ob("compress.format", ok, fact, "the value tested and passed on is the `fmt` parameter (falling back to the suffix only when it is None): "
           "an explicit fmt= for a name without compression suffix still compresses", node=calls[0] if calls else f.node, func=f)


def rule_names(ctx):
    """Any file: the name may be path-like, the file may carry any modification time."""
    ctx.rule("C12.names", "T1 api", "compress_as derives its default target from any path-like name and stores a file of any modification time in a zip archive")
    from ..flow import guard_chain
    ca = ctx.func(UTILS, "compress_as")
    fn, fmt, tgt = ca.params[0], ca.params[1], ca.params[2]
    flow = Flow(ca)
    dflt = [st for st in flow.stmts if isinstance(st, ast.Assign) and str(norm(st.targets[0])) == tgt
            and any(str(norm(t_)) in ("%s is None" % tgt,) and pol for t_, pol in guard_chain(st))]
    if len(dflt) != 1:
        raise AnalysisError("compress_as: the default target (target is None) was not found")
    v = dflt[0].value
    t_ = str(norm(v)).replace(" ", "").replace('"', "'")
    good = ("'.'.join([os.fspath(%s),%s])" % (fn, fmt), "os.fspath(%s)+'.'+%s" % (fn, fmt), "'.'.join([str(%s),%s])" % (fn, fmt), "str(%s)+'.'+%s" % (fn, fmt),
            "f'{%s}.{%s}'" % (fn, fmt), "'%%s.%%s'%%(%s,%s)" % (fn, fmt), "'{}.{}'.format(%s,%s)" % (fn, fmt))
    bad = ("'.'.join([%s,%s])" % (fn, fmt), "%s+'.'+%s" % (fn, fmt))
    if t_ not in good + bad:
        raise AnalysisError("compress_as: default target %s not understood" % t_[:60])
    ctx.ob("compress_as.default_target", t_ in good, "target = %s" % norm(v), "the name goes through os.fspath / str before it is joined with the format: "
           "str.join and + accept str only, a pathlib.Path name (fine for compress, decompress and an explicit target) raised TypeError", node=dflt[0], func=ca,
           witness=None if t_ in good else {"compress_as": "(Path('a.dat'), 'gz')", "raises": "TypeError"})
    zc = []
    for c in calls_in(ca.node):
        nm = (dotted(c.func) or "").split(".")[-1]
        if any(isinstance(a_, ast.Constant) and a_.value in ("w", "x") for a_ in c.args[1:2]) and any(
                str(norm(t2_)).replace('"', "'") == "%s == 'zip'" % fmt and pol for t2_, pol in guard_chain(enclosing_stmt(c))):
            zc.append(c)
    if len(zc) != 1:
        raise AnalysisError("compress_as: the zip archive opened for writing was not found")
    kw = {k.arg: str(norm(k.value)) for k in zc[0].keywords}
    okz = kw.get("strict_timestamps") == "False"
    ctx.ob("compress_as.zip_timestamps", okz, "%s" % norm(zc[0]), "ZipFile(target, 'w', strict_timestamps=False): a file whose modification time lies outside 1980..2107 "
           "(mtime 0 after copy2 / rsync -t) is stored with a clamped date instead of refusing to compress it - gz, bz2 and xz take the same file",
           node=zc[0], func=ca, witness=None if okz else {"os.utime(src, (0, 0))": "compress_as(src, 'zip')", "raises": "ValueError: ZIP does not support timestamps before 1980"})


def _write_mode_b(call):
    mode = call.args[1] if len(call.args) > 1 else None
    for k in call.keywords:
        if k.arg == "mode":
            mode = k.value
    return isinstance(mode, ast.Constant) and isinstance(mode.value, str) and any(ch in mode.value for ch in "wax+")


def run(ctx):
    for r in (rule_table, rule_cleanup, rule_commit, rule_passthrough, rule_zipname, rule_writer, rule_names):
        ctx.attempt(r, ctx)
