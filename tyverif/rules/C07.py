"""C07 - geodesy: coordinate conversions invert each other, distances are true metrics.

Formula algebra on the closed-form functions with sin/cos of the angles as polynomial
variables (s^2 + c^2 = 1): geodetic2cart defines geodetic coordinates (surface on the
ellipsoid, offset along the normal); radii; spherical round trip; haversine/tunnel identities
and exact zero on the diagonal; one step of the geodetic iteration is a fixed point at the true
solution; stop criterion and loop condition; composed routes forward the ellipsoid; model table.
Convergence/accuracy of the iteration, floating point, the position + line-of-sight
conversions, triangle inequality and bounds are not decided.
"""
import ast
import sympy as sp
from ..core import AnalysisError, norm, dotted, calls_in, walk_no_nested, parent, enclosing_stmt, const_value
from ..alg import Sym, is_zero, Unsupported, _binop
from ..flow import Flow
from .C06 import fold

GEO = "typhon/geodesy.py"
EXPECT = {"C07.buffers": 2, "C07.args": 10, "C07.losopt": 3, "C07.geodetic": 3, "C07.radius": 3, "C07.sphere": 4, "C07.dist": 5, "C07.fixpoint": 4, "C07.tol": 2, "C07.compose": 2, "C07.models": 2, "C07.los": 1, "C07.answer": 2}

sp_, cp_, sl_, cl_ = sp.symbols("s_phi c_phi s_lam c_lam", real=True)
RELS = [sp_ ** 2 + cp_ ** 2 - 1, sl_ ** 2 + cl_ ** 2 - 1]
PHI, LAM = sp.Symbol("phi_deg", real=True), sp.Symbol("lam_deg", real=True)


def reduce_trig(e, rels=RELS, gens=(sp_, cp_, sl_, cl_)):
    """numerator of e reduced modulo the Pythagorean relations; 0 iff e == 0 on the circle"""
    e = sp.together(sp.expand(e))
    num, den = sp.fraction(e)
    num = sp.expand(num)
    if num == 0:
        return sp.Integer(0)
    try:
        _, r = sp.reduced(num, list(rels), *gens)
    except Exception:
        r = num
    return sp.factor(r)


def trig_hooks():
    def sind(x):
        if x == PHI:
            return sp_
        if x == LAM:
            return sl_
        return sp.sin(x * sp.pi / 180)

    def cosd(x):
        if x == PHI:
            return cp_
        if x == LAM:
            return cl_
        return sp.cos(x * sp.pi / 180)
    return {"sind": sind, "cosd": cosd, "ones": lambda *a, **k: sp.Integer(1), "shape": lambda *a: sp.Integer(1)}


def ev_geo(ctx, e_zero=False):
    dec = lambda t: (e_zero if t.replace(" ", "") in ("ellipsoid[1]==0", "e2==0.0", "e2==0") else None)
    return Sym(ctx.repo, hooks=trig_hooks(), decide=dec)


def zero(ctx, construct, expr, fact, oracle, node, func):
    r = reduce_trig(expr)
    ok = r == 0
    wit = None
    if not ok:
        wit = {"remainder modulo s^2+c^2=1": str(r)[:240]}
    ctx.models.append({"rule": ctx._rule, "identity": construct, "verdict": ok, "cases": 1})
    ctx.ob(construct, ok, fact, oracle, node=node, func=func, witness=wit)


def rule_geodetic(ctx):
    ctx.rule("C07.geodetic", "T5", "geodetic2cart: h = 0 lies on the ellipsoid, the ellipsoid normal there is (cos phi cos lam, cos phi sin lam, sin phi), "
             "and height moves along it")
    f = ctx.func(GEO, "geodetic2cart")
    a, e, h = sp.symbols("a e h", positive=True)
    ev = ev_geo(ctx)
    x0, y0, z0 = ev.call(GEO, "geodetic2cart", sp.Integer(0), PHI, LAM, (a, e))
    zero(ctx, "geodetic2cart(0, phi, lam) on the ellipsoid", (x0 ** 2 + y0 ** 2) / a ** 2 + z0 ** 2 / (a ** 2 * (1 - e ** 2)) - 1,
         "x = %s; z = %s" % (x0, z0), "(x^2 + y^2)/a^2 + z^2/(a^2 (1 - e^2)) = 1", f.node, f)
    n = (cp_ * cl_, cp_ * sl_, sp_)
    g = (x0 / a ** 2, y0 / a ** 2, z0 / (a ** 2 * (1 - e ** 2)))
    cross = (g[1] * n[2] - g[2] * n[1], g[2] * n[0] - g[0] * n[2], g[0] * n[1] - g[1] * n[0])
    zero(ctx, "ellipsoid normal at geodetic2cart(0, phi, lam)", cross[0] ** 2 + cross[1] ** 2 + cross[2] ** 2,
         "gradient x (cos phi cos lam, cos phi sin lam, sin phi)", "0: the surface normal has geodetic latitude phi and longitude lam", f.node, f)
    xh, yh, zh = ev.call(GEO, "geodetic2cart", h, PHI, LAM, (a, e))
    d = ((xh - x0 - h * n[0]) ** 2 + (yh - y0 - h * n[1]) ** 2 + (zh - z0 - h * n[2]) ** 2)
    zero(ctx, "geodetic2cart(h) - geodetic2cart(0)", d, "offset for height h", "h * (cos phi cos lam, cos phi sin lam, sin phi)", f.node, f)


def rule_radius(ctx):
    ctx.rule("C07.radius", "T5", "points on the ellipsoid have the radius given by ellipsoid_r_geodetic / ellipsoid_r_geocentric; both reduce to a for e = 0")
    a, e = sp.symbols("a e", positive=True)
    ev = ev_geo(ctx)
    x0, y0, z0 = ev.call(GEO, "geodetic2cart", sp.Integer(0), PHI, LAM, (a, e))
    f = ctx.func(GEO, "ellipsoid_r_geodetic")
    rg = ev.call(GEO, "ellipsoid_r_geodetic", (a, e), PHI)
    zero(ctx, "ellipsoid_r_geodetic(phi)^2 == |geodetic2cart(0, phi, lam)|^2", x0 ** 2 + y0 ** 2 + z0 ** 2 - rg ** 2, "r_geodetic = %s" % rg,
         "distance of the surface point at geodetic latitude phi from the centre", f.node, f)
    g = ctx.func(GEO, "ellipsoid_r_geocentric")
    rc = ev.call(GEO, "ellipsoid_r_geocentric", (a, e), PHI)
    zero(ctx, "ellipsoid_r_geocentric(psi) on the ellipse", (rc * cp_) ** 2 / a ** 2 + (rc * sp_) ** 2 / (a ** 2 * (1 - e ** 2)) - 1, "r_geocentric = %s" % rc,
         "(r cos psi)^2/a^2 + (r sin psi)^2/(a^2 (1 - e^2)) = 1", g.node, g)
    ev0 = ev_geo(ctx, e_zero=True)
    r0a = ev0.call(GEO, "ellipsoid_r_geodetic", (a, sp.Integer(0)), PHI)
    r0b = ev0.call(GEO, "ellipsoid_r_geocentric", (a, sp.Integer(0)), PHI)
    ctx.ob("radii for e = 0", sp.simplify(r0a - a) == 0 and sp.simplify(r0b - a) == 0, "geodetic: %s, geocentric: %s" % (r0a, r0b), "a (sphere)", node=f.node, func=f)


def _optional_not_given(t):
    """tests on the optional line-of-sight arguments, which are not given: all(x is not None ...) is False, any(x is None ...) is True"""
    t = str(t).replace(" ", "")
    if t.startswith("all(") and "isnotNone" in t:
        return False
    if t.startswith("any(") and "isNone" in t and "isnotNone" not in t:
        return True
    if t.startswith("notall(") and "isnotNone" in t:
        return True
    return None


def rule_forward_sphere(ctx, rid):
    """geocentric2cart alone (shared with C06: the default metric of GeoIndex is the chord between these points)"""
    ctx.rule(rid, "T5", "geocentric2cart(r, phi, lam) = (r cos phi cos lam, r cos phi sin lam, r sin phi) for every latitude, the poles included")
    r = sp.Symbol("r", positive=True)
    f = ctx.func(GEO, "geocentric2cart")
    hooks = {"sin": lambda x: sp_ if x == PHI * sp.pi / 180 else (sl_ if x == LAM * sp.pi / 180 else sp.sin(x)),
             "cos": lambda x: cp_ if x == PHI * sp.pi / 180 else (cl_ if x == LAM * sp.pi / 180 else sp.cos(x))}
    ev = Sym(ctx.repo, hooks=hooks)
    x, y, z = ev.call(GEO, "geocentric2cart", r, PHI, LAM)
    zero(ctx, "geocentric2cart components", (x - r * cp_ * cl_) ** 2 + (y - r * cp_ * sl_) ** 2 + (z - r * sp_) ** 2, "x = %s, y = %s, z = %s" % (x, y, z),
         "(r cos phi cos lam, r cos phi sin lam, r sin phi)", f.node, f)


def rule_sphere(ctx):
    ctx.rule("C07.sphere", "T5", "geocentric2cart and cart2geocentric are mutually inverse")
    r = sp.Symbol("r", positive=True)
    f = ctx.func(GEO, "geocentric2cart")
    g = ctx.func(GEO, "cart2geocentric")
    # forward: trig of the two angles as polynomial symbols
    hooks = {"sin": lambda x: sp_ if x == PHI * sp.pi / 180 else (sl_ if x == LAM * sp.pi / 180 else sp.sin(x)),
             "cos": lambda x: cp_ if x == PHI * sp.pi / 180 else (cl_ if x == LAM * sp.pi / 180 else sp.cos(x))}
    ev = Sym(ctx.repo, hooks=hooks)
    x, y, z = ev.call(GEO, "geocentric2cart", r, PHI, LAM)
    zero(ctx, "geocentric2cart components", (x - r * cp_ * cl_) ** 2 + (y - r * cp_ * sl_) ** 2 + (z - r * sp_) ** 2, "x = %s, y = %s, z = %s" % (x, y, z),
         "(r cos phi cos lam, r cos phi sin lam, r sin phi)", f.node, f)
    # inverse: read the structure with opaque inverse-trig atoms
    ASIN, ATAN2 = sp.Function("ASIN"), sp.Function("ATAN2")
    X, Y, Z = sp.symbols("x y z", real=True)
    ev2 = Sym(ctx.repo, hooks={"arcsin": lambda u: ASIN(u), "arctan2": lambda p, q: ATAN2(p, q)},
               decide=_optional_not_given)   # optional LOS arguments not given
    rr, lat, lon = ev2.call(GEO, "cart2geocentric", X, Y, Z)
    ok_r = sp.simplify(rr ** 2 - (X ** 2 + Y ** 2 + Z ** 2)) == 0
    ctx.ob("cart2geocentric.r", ok_r, "r = %s" % rr, "sqrt(x^2 + y^2 + z^2)", node=g.node, func=g)
    ok_lat = sp.simplify(lat - ASIN(Z / rr) * 180 / sp.pi) == 0
    ok_lon = sp.simplify(lon - ATAN2(Y, X) * 180 / sp.pi) == 0
    ctx.ob("cart2geocentric.angles", ok_lat and ok_lon, "lat = %s; lon = %s" % (lat, lon), "lat = rad2deg(arcsin(z / r)); lon = rad2deg(arctan2(y, x)) - in this argument order",
           node=g.node, func=g)
    # composition: with x,y,z from the forward map, z/r = sin phi and (y, x) = rho (sin lam, cos lam), rho = r cos phi > 0
    zr = reduce_trig((z ** 2 - (r * sp_) ** 2)) == 0 and reduce_trig(x ** 2 + y ** 2 + z ** 2 - r ** 2) == 0
    yx = reduce_trig(y * cl_ - x * sl_) == 0
    ctx.ob("cart2geocentric(geocentric2cart(r, phi, lam))", zr and yx, "|p|^2 - r^2 -> %s; y cos lam - x sin lam -> %s" % (reduce_trig(x ** 2 + y ** 2 + z ** 2 - r ** 2), reduce_trig(y * cl_ - x * sl_)),
           "r reproduced, z/r = sin phi, (y, x) proportional to (sin lam, cos lam) with factor r cos phi > 0 (|phi| < 90)", node=g.node, func=g)


def _gcd_terms(ctx):
    """the haversine quantity `a`, the arc and the returned values of great_circle_distance as terms of radian symbols"""
    f = ctx.func(GEO, "great_circle_distance")
    names = f.params[:4]
    first = f.body[0]
    ok_map = isinstance(first, ast.Assign) and isinstance(first.value, ast.Call) and dotted(first.value.func) == "map" \
        and norm(first.value.args[0]) in ("np.radians", "np.deg2rad") and isinstance(first.targets[0], ast.Tuple) \
        and [norm(e) for e in first.targets[0].elts] == [norm(e) for e in first.value.args[1].elts]
    p1, l1, p2, l2 = sp.symbols("p1 l1 p2 l2", real=True)
    R = sp.Symbol("R", positive=True)
    if ok_map:
        env = {names[0]: p1, names[1]: l1, names[2]: p2, names[3]: l2, f.params[4]: None}
        rest = f.body[1:]
        env_r = dict(env)
        env_r[f.params[4]] = R
        val_deg = Sym(ctx.repo).block(rest, dict(env), f, 0)
        val_r = Sym(ctx.repo).block(rest, env_r, f, 0)
        return f, (p1, l1, p2, l2), val_deg, val_r, R
    # spelled out: every angle goes through np.radians / np.deg2rad exactly once before it is used
    raw = sp.symbols("p1_deg l1_deg p2_deg l2_deg", real=True)
    rad = dict(zip(raw, (p1, l1, p2, l2)))

    def to_rad(u):
        if u in rad:
            return rad[u]
        raise AnalysisError("great_circle_distance: np.radians applied to %s, not to one of the four angles" % u)
    hooks = {"radians": to_rad, "deg2rad": to_rad}
    env = dict(zip(names, raw))
    env[f.params[4]] = None
    env_r = dict(env)
    env_r[f.params[4]] = R
    val_deg = Sym(ctx.repo, hooks=hooks).block(f.body, dict(env), f, 0)
    val_r = Sym(ctx.repo, hooks=hooks).block(f.body, env_r, f, 0)
    left = (val_deg.free_symbols | val_r.free_symbols) & set(raw)
    if left:
        raise AnalysisError("great_circle_distance: conversion of the four angles to radians not recognised (%s used in degrees)" % sorted(map(str, left)))
    return f, (p1, l1, p2, l2), val_deg, val_r, R


def rule_dist(ctx):
    ctx.rule("C07.dist", "T5", "great_circle_distance / tunnel_distance: symmetric, exactly zero on the diagonal, invariant under a common longitude shift, "
             "chord = 2 R sin(arc / 2)")
    f, (p1, l1, p2, l2), vdeg, vr, R = _gcd_terms(ctx)
    sw = {p1: p2, p2: p1, l1: l2, l2: l1}
    d = sp.simplify(vr - vr.subs(sw, simultaneous=True))
    ctx.ob("great_circle_distance.symmetric", d == 0, "d(1,2) - d(2,1) = %s" % d, "0", node=f.node, func=f)
    diag = vr.subs({p2: p1, l2: l1})        # automatic evaluation only: no trigonometric identity is applied
    ctx.ob("great_circle_distance.exact_zero", diag == 0, "value at coincident points by exact cancellation: %s" % diag,
           "0 without using sin^2 + cos^2 = 1 (differences vanish exactly in floating point; an arccos of a rounded 1 does not)", node=f.node, func=f)
    t = sp.Symbol("t", real=True)
    sh = sp.simplify(vr.subs({l1: l1 + t, l2: l2 + t}, simultaneous=True) - vr)
    ctx.ob("great_circle_distance.shift", sh == 0, "d(lon + t) - d(lon) = %s" % sh, "0", node=f.node, func=f)
    ctx.ob("great_circle_distance.units", sp.simplify(vdeg - (vr / R) * 180 / sp.pi) == 0, "without r: %s" % sp.simplify(vdeg / (vr / R)), "arc in degrees without radius, r * arc (radians) with it", node=f.node, func=f)
    # chord: tunnel^2 == 4 R^2 sin^2(arc/2)
    g = ctx.func(GEO, "tunnel_distance")
    Re = Sym(ctx.repo).const.get("earth_radius")
    rets = [s for s in g.body if isinstance(s, ast.Return)]
    if len(rets) != 1:
        raise AnalysisError("tunnel_distance: expected one return")
    # first choice: the whole function evaluated symbolically (any spelling the evaluator understands)
    raw_t = sp.symbols("p1_deg l1_deg p2_deg l2_deg", real=True)
    rad_t = dict(zip(raw_t, (p1, l1, p2, l2)))

    def to_rad_t(u):
        if u in rad_t:
            return rad_t[u]
        raise AnalysisError("tunnel_distance: np.radians applied to %s, not to one of the four angles" % u)
    sym_val = None
    try:
        class _Models:
            pass

        def _sub(base, n_, ev_, env_, func_, depth_):
            if isinstance(base, _Models):
                nm_ = const_value(n_.slice) if isinstance(n_.slice, ast.Constant) else "model"
                return (sp.Symbol("a_%s" % nm_, positive=True), sp.Symbol("e_%s" % nm_, nonnegative=True))
            return NotImplemented
        sym_val = Sym(ctx.repo, hooks={"radians": to_rad_t, "deg2rad": to_rad_t, "asarray": lambda u: u, "atleast_1d": lambda u: u, "asanyarray": lambda u: u,
                                       "ellipsoidmodels": lambda *a_: _Models(), "subscript": _sub}) \
            .block(g.body, dict(zip(g.params, raw_t)), g, 0)
    except (Unsupported, AnalysisError):
        sym_val = None
    if sym_val is not None:
        if set(sym_val.free_symbols) & set(raw_t):
            raise AnalysisError("tunnel_distance: an angle is used in degrees (%s)" % sorted(map(str, set(sym_val.free_symbols) & set(raw_t))))
        Ksym = [x_ for x_ in sym_val.free_symbols if str(x_) == "K_earth_radius"]
        val2 = sp.expand(sym_val ** 2)
        if Ksym:
            val2 = val2.subs(Ksym[0], Re)
        arc_ = vr / R
        target = 4 * Re ** 2 * sp.sin(arc_ / 2) ** 2
        dd = sp.simplify(sp.expand(sp.expand_trig(val2 - sp.expand_trig(target))))
        okv = dd == 0
        if not okv:
            vv_, _ = is_zero(val2 - target)
            okv = vv_ is True
        ctx.ob("tunnel_distance == 2 R sin(arc / 2)", okv, "tunnel^2 - 4R^2 sin^2(arc/2) -> %s" % (0 if okv else dd),
               "the straight line between the two points on the sphere of radius constants.earth_radius", node=g.node, func=g)
        # shape: the distance is formed component by component (or over the last axis of stacked components), so that arguments of any
        # broadcastable shape are paired element-wise
        src_ = str(norm(rets[0].value))
        stacked = [c_ for c_ in calls_in(g.node, ("column_stack", "sum")) ]
        ctx.ob("tunnel_distance.elementwise", not stacked, "reductions / stacking in the distance: %s" % ([str(norm(c_))[:50] for c_ in stacked] or "none"),
               "component-wise sqrt(dx^2 + dy^2 + dz^2): np.column_stack + sum(axis=1) pairs the points of 1-d arguments only (2-d arguments were summed over the wrong axis)",
               node=rets[0], func=g, witness=None if not stacked else {"lat1.shape": [2, 3], "result.shape": [2], "expected shape": [2, 3]})
        ctx.models.append({"rule": "C07.dist", "cases": 5})
        return
    gflow = Flow(g)
    rv = gflow.resolve(rets[0].value, at=rets[0], depth=4, stop=tuple(g.params))
    from ..calls import bind_args
    g2c = ctx.func(GEO, "geocentric2cart")
    pts = [c for c in ast.walk(rv) if isinstance(c, ast.Call) and (dotted(c.func) or "").split(".")[-1] == "column_stack"
           and c.args and isinstance(c.args[0], ast.Call) and dotted(c.args[0].func) == "geocentric2cart"]
    if len(pts) != 2:
        raise AnalysisError("tunnel_distance: the two points np.column_stack(geocentric2cart(...)) were not found")
    tags = {}
    shape_txt = str(norm(rv)).replace(" ", "")
    for k_, p_ in enumerate(pts):
        b_ = bind_args(p_.args[0], g2c)
        tags["P%d" % k_] = tuple(norm(b_.get(x_)) if b_.get(x_) is not None else None for x_ in g2c.params[:3])
        shape_txt = shape_txt.replace(str(norm(p_)).replace(" ", ""), "P%d" % k_)
    want_pts = {("constants.earth_radius", g.params[0], g.params[1]), ("constants.earth_radius", g.params[2], g.params[3])}
    t_ok = set(tags.values()) == want_pts and shape_txt in ("np.sqrt(np.sum((P0-P1)**2,axis=1))", "np.sqrt(np.sum((P1-P0)**2,axis=1))")
    # symbolic chord from geocentric2cart in radians
    def cart(p, l):
        return (Re * sp.cos(p) * sp.cos(l), Re * sp.cos(p) * sp.sin(l), Re * sp.sin(p))
    c1, c2 = cart(p1, l1), cart(p2, l2)
    chord2 = sum((u - v) ** 2 for u, v in zip(c1, c2))
    arc = vr / R
    lhs = sp.simplify(sp.expand_trig(4 * Re ** 2 * sp.sin(arc / 2) ** 2))
    diff = sp.simplify(sp.expand(sp.expand_trig(chord2 - lhs)))
    v = diff == 0
    if not v:
        vv, info = is_zero(chord2 - 4 * Re ** 2 * sp.sin(arc / 2) ** 2)
        v = vv is True
    ctx.ob("tunnel_distance.elementwise", False, "distance formed with %s" % shape_txt[:80],
           "component-wise sqrt(dx^2 + dy^2 + dz^2): np.column_stack + sum(axis=1) pairs the points of 1-d arguments only (2-d arguments were summed over the wrong axis)",
           node=rets[0], func=g, witness={"lat1.shape": [2, 3], "result.shape": [2], "expected shape": [2, 3]})
    ctx.ob("tunnel_distance == 2 R sin(arc / 2)", v and t_ok, "tunnel = %s; chord^2 - 4R^2 sin^2(arc/2) -> %s" % (norm(rets[0].value) if rets else None, diff if not v else 0),
           "the straight line between the two points on the sphere of radius constants.earth_radius", node=g.node, func=g)
    ctx.models.append({"rule": "C07.dist", "cases": 5})


def rule_fixpoint(ctx):
    ctx.rule("C07.fixpoint", "T5", "at the true solution one step of the cart2geodetic iteration reproduces (phi, h); the spherical short cut returns r - a")
    f = ctx.func(GEO, "cart2geodetic")
    flow = Flow(f)
    loop = [st for st in flow.stmts if isinstance(st, ast.While)]
    if not loop:
        raise AnalysisError("cart2geodetic: iteration loop not found")
    w = loop[0]
    a, e, h, rho = sp.symbols("a e h rho", positive=True)
    B = sp.Symbol("B", real=True)      # true latitude in radians
    sB, cB = sp.symbols("s_B c_B", real=True)
    N = a / sp.sqrt(1 - e ** 2 * sB ** 2)
    # x, y with hypot = (N + h) cos B, z = (N (1 - e^2) + h) sin B
    env = {"x": sp.Symbol("x"), "y": sp.Symbol("y"), "z": (N * (1 - e ** 2) + h) * sB, "e2": e ** 2, "ellipsoid": (a, e), "B0": B}
    hooks = {"hypot": lambda p, q: (N + h) * cB, "sin": lambda u: sB if u == B else sp.sin(u), "cos": lambda u: cB if u == B else sp.cos(u),
             "arctan": lambda u: sp.Function("ATAN")(u), "copy": lambda *a_: B}
    hooks["method"] = lambda base, n, *r: base if n.func.attr == "copy" else NotImplemented
    ev = Sym(ctx.repo, hooks=hooks)
    envl = dict(env)
    inloop = {n.id for st in w.body for n in ast.walk(st) if isinstance(n, ast.Name) and isinstance(n.ctx, ast.Store)} | set(f.params)
    for st in w.body:
        if isinstance(st, ast.Assign) and isinstance(st.targets[0], ast.Name):
            # loop-invariant temporaries defined before the loop are looked through
            envl[st.targets[0].id] = ev.expr(flow.resolve(st.value, at=st, stop=tuple(inloop)), envl, f, 0)
    rel = [sB ** 2 + cB ** 2 - 1]
    hn = envl.get("h")
    Bn = envl.get("B0")
    okh = hn is not None and reduce_trig(hn - h, rel, (sB, cB)) == 0
    ctx.ob("cart2geodetic.iteration.h", okh, "h' = %s" % (sp.simplify(hn) if hn is not None else None), "h (height reproduced at the true latitude)", node=w, func=f)
    okB = False
    if Bn is not None and Bn.func.__name__ == "ATAN":
        okB = reduce_trig(Bn.args[0] * cB - sB, rel, (sB, cB)) == 0
    ctx.ob("cart2geodetic.iteration.B", okB, "B' = %s" % (sp.simplify(Bn) if Bn is not None else None), "arctan(tan B) = B: the true latitude is a fixed point", node=w, func=f)
    # what is recomputed after the loop (the height of the newest iterate) is evaluated with the caller's ellipsoid as well
    blk_ = None
    for fld_ in ("body", "orelse"):
        b_ = getattr(parent(w), fld_, None)
        if isinstance(b_, list) and any(x is w for x in b_):
            blk_ = b_
    after_ = [st for st in (blk_[[i_ for i_, x in enumerate(blk_) if x is w][0] + 1:] if blk_ else []) if not isinstance(st, ast.Return)]
    touches_h = any(isinstance(n_, ast.Name) and isinstance(n_.ctx, ast.Store) and n_.id == "h" for st in after_ for n_ in ast.walk(st))
    if touches_h:
        aw, ew = sp.symbols("a_WGS84 e_WGS84", positive=True)

        class _Models:
            pass
        hooks2 = dict(hooks)
        hooks2["ellipsoidmodels"] = lambda *a_: _Models()
        hooks2["subscript"] = lambda base, n_, *r_: (aw, ew) if isinstance(base, _Models) else NotImplemented
        ev2 = Sym(ctx.repo, hooks=hooks2)
        enva = dict(envl)
        enva["B0"] = B      # at the fixed point the newest iterate is the true latitude
        ev2.block(after_, enva, f, 0)
        ha = enva.get("h")
        if hasattr(ha, "force"):
            ha = ha.force()
        oka = ha is not None and reduce_trig(ha - h, rel, (sB, cB)) == 0
        ctx.ob("cart2geodetic.iteration.h_after", oka, "after the loop h = %s" % (sp.simplify(ha) if ha is not None else None),
               "h: the height recomputed for the newest iterate uses the caller's ellipsoid like the iteration itself", node=after_[0], func=f)
    else:
        ctx.ob("cart2geodetic.iteration.h_after", True, "h is not recomputed after the loop", "-", node=w, func=f)
    sph = [st for st in flow.stmts if isinstance(st, ast.If) and norm(st.test).replace(" ", "") in ("e2==0.0", "e2==0")]
    oks = False
    if sph:
        b = [norm(s).replace(" ", "") for s in sph[0].body]
        oks = b[:2] == ["h,lat,lon=cart2geocentric(x,y,z)", "h-=ellipsoid[0]"] and b[2:] in ([], ["return(h,lat,lon)"], ["returnh,lat,lon"])
    ctx.ob("cart2geodetic.spherical", oks, "%s" % ([norm(s) for s in sph[0].body] if sph else None), "for e = 0: (r - a, lat, lon) from cart2geocentric", node=sph[0] if sph else f.node, func=f)


def rule_tol(ctx):
    ctx.rule("C07.tol", "T3", "the iteration runs while ANY element is unconverged, with a stop criterion <= 1.2e-7 rad")
    f = ctx.func(GEO, "cart2geodetic")
    loop = [st for st in walk_no_nested(f.node) if isinstance(st, ast.While)]
    if not loop:
        raise AnalysisError("cart2geodetic: iteration loop not found")
    t = loop[0].test
    red = dotted(t.func) if isinstance(t, ast.Call) else None
    ok_any = red in ("np.any", "any") and isinstance(t.args[0], ast.Compare) and isinstance(t.args[0].ops[0], (ast.Gt, ast.GtE))
    alt = isinstance(t, ast.Compare) and calls_in(t.left, "max") and isinstance(t.ops[0], (ast.Gt, ast.GtE))
    ctx.ob("cart2geodetic.loop_condition", ok_any or alt, "while %s" % norm(t), "continue while ANY element differs by more than the tolerance (np.all would stop as soon as one converged)",
           node=loop[0], func=f)
    tol = None
    cmp_ = t.args[0] if (isinstance(t, ast.Call) and t.args and isinstance(t.args[0], ast.Compare)) else (t if alt else None)
    if cmp_ is not None:
        try:
            tol = fold(cmp_.comparators[0])
        except AnalysisError:
            tol = None
    # (a) definite assignment: the results are assigned inside the loop only, so the loop has to be entered for EVERY start value.  With
    #     `while any(|B - B0| > tol)` that needs a previous-iterate variable that cannot equal the first guess: +-inf (a finite
    #     constant such as np.ones() coincides with the first guess at exactly that latitude) - or results that are (re)assigned
    #     after the loop.
    flow = Flow(f)
    lp = loop[0]
    assigned_in = {n_.id for st_ in lp.body for n_ in ast.walk(st_) if isinstance(n_, ast.Name) and isinstance(n_.ctx, ast.Store)}
    after = []
    blk = None
    par_ = parent(lp)
    for fld in ("body", "orelse"):
        b_ = getattr(par_, fld, None)
        if isinstance(b_, list) and any(x is lp for x in b_):
            blk = b_
    after = blk[[i_ for i_, x in enumerate(blk) if x is lp][0] + 1:] if blk else []
    rets_ = [r_ for r_ in flow.stmts if isinstance(r_, ast.Return) and r_.value is not None]
    used_after = {n_.id for st_ in list(after) + rets_ for n_ in ast.walk(st_) if isinstance(n_, ast.Name) and isinstance(n_.ctx, ast.Load)}
    stored_after = set()
    needs = set()
    for st_ in after:
        for n_ in ast.walk(st_.value if isinstance(st_, ast.Assign) else st_):
            if isinstance(n_, ast.Name) and isinstance(n_.ctx, ast.Load) and n_.id in assigned_in and n_.id not in stored_after:
                needs.add(n_.id)
        if isinstance(st_, ast.Assign):
            stored_after |= {n_.id for t_ in st_.targets for n_ in ast.walk(t_) if isinstance(n_, ast.Name)}
    for r_ in rets_:
        for n_ in ast.walk(r_):
            if isinstance(n_, ast.Name) and isinstance(n_.ctx, ast.Load) and n_.id in assigned_in and n_.id not in stored_after:
                needs.add(n_.id)
    # names that have a definition before the loop on this path are fine (they are defined even when the loop is skipped)
    undefined = sorted(n_ for n_ in needs if all(d_ != "param" and any(d_ is x for x in ast.walk(lp)) for d_ in flow.defs(n_, lp.body[0])) or not flow.defs(n_, lp))
    undefined = [n_ for n_ in undefined if not [d_ for d_ in flow.defs(n_, lp) if d_ == "param" or not any(d_ is x for x in ast.walk(lp))]]
    entered = None
    if cmp_ is not None and undefined:
        # previous-iterate variable: the operand of the difference that is initialised before the loop by a constant fill
        diff_names = [n_.id for n_ in ast.walk(cmp_.left) if isinstance(n_, ast.Name)]
        for nm_ in diff_names:
            for d_ in flow.defs(nm_, lp):
                if isinstance(d_, ast.Assign) and not any(d_ is x for x in ast.walk(lp)):
                    v_ = str(norm(d_.value))
                    if "np.inf" in v_ or "float('inf')" in v_ or "math.inf" in v_:
                        entered = (True, v_)
                    elif any(k_ in v_ for k_ in ("np.ones", "np.zeros", "np.full", "np.empty")) and not any(isinstance(x, ast.Name) and x.id in f.params for x in ast.walk(d_.value) if not isinstance(parent(x), ast.Attribute)):
                        entered = entered or (False, v_)
        if entered is None:
            raise AnalysisError("cart2geodetic: whether the iteration is always entered could not be decided (results %s exist only after a first pass)" % undefined)
    ctx.ob("cart2geodetic.loop_entered", not undefined or (entered is not None and entered[0]),
           "assigned only inside the loop and used after it: %s; previous iterate starts as %s" % (undefined or "nothing", entered[1] if entered else "-"),
           "the first pass always runs (previous iterate starts at infinity), or nothing is used that only the loop assigns - a finite start value equals the "
           "first guess at one latitude (np.ones: geocentric latitude of exactly 1 rad) and the function fails with UnboundLocalError",
           node=lp, func=f, witness=None if (not undefined or (entered and entered[0])) else {"geocentric latitude": "1 rad = 57.29577951308232 deg", "raises": "UnboundLocalError: h"})
    # (b) the values returned belong to the NEWEST iterate (the variable the loop body assigns last), not to the copy of the previous one
    last_assigned = None
    for st_ in lp.body:
        if isinstance(st_, ast.Assign) and isinstance(st_.targets[0], ast.Name):
            last_assigned = st_.targets[0].id
    lat_src = None
    for st_ in after:
        if isinstance(st_, (ast.Assign, ast.Return)) and st_.value is not None and calls_in(st_.value, "rad2deg"):
            lat_src = [n_.id for c_ in calls_in(st_.value, "rad2deg") for n_ in ast.walk(c_) if isinstance(n_, ast.Name) and n_.id in assigned_in]
    if last_assigned is None or lat_src is None:
        raise AnalysisError("cart2geodetic: the latitude returned after the iteration was not found")
    ctx.ob("cart2geodetic.iteration.result", lat_src == [last_assigned], "latitude returned from %s; newest iterate is %s" % (lat_src, last_assigned),
           "the latitude (and the height recomputed from it) of the newest iterate: the previous one lags by up to the tolerance, which the pole amplifies to centimetres in h",
           node=lp, func=f)
    ctx.assume("the geodetic fixed-point map contracts with factor ~ e^2 <= 0.0118 for the offered models, so the error after stopping is <= e^2/(1-e^2) * tol")
    ctx.ob("cart2geodetic.tolerance", tol is not None and 0 < tol <= 1.2e-7, "stop criterion |B - B0| > %s rad" % tol, "0 < tol <= 1.2e-7 rad (keeps the error below 1.5e-9 rad = 1 cm at the surface)",
           node=loop[0], func=f)


def rule_compose(ctx):
    ctx.rule("C07.compose", "T6", "the composed conversions forward the caller's ellipsoid to every callee that takes one")
    f = ctx.func(GEO, "geodetic2geocentric")
    c1 = calls_in(f.node, "geodetic2cart")
    c2 = calls_in(f.node, "cart2geocentric")
    ok = bool(c1) and [norm(a) for a in c1[0].args] == [f.params[0], f.params[1], f.params[2], f.params[3]] and bool(c2) and norm(c2[0].args[0]) == "*cart"
    ctx.ob("geodetic2geocentric", ok, "%s -> %s" % (norm(c1[0]) if c1 else None, norm(c2[0]) if c2 else None), "cart = geodetic2cart(h, lat, lon, ellipsoid); cart2geocentric(*cart, ...)", node=f.node, func=f)
    g = ctx.func(GEO, "geocentric2geodetic")
    d1 = calls_in(g.node, "geocentric2cart")
    d2 = calls_in(g.node, "cart2geodetic")
    okg = bool(d1) and [norm(a) for a in d1[0].args] == g.params[:3] and bool(d2) and [norm(a) for a in d2[0].args] == ["*cart", g.params[3]]
    ctx.ob("geocentric2geodetic", okg, "%s -> %s" % (norm(d1[0]) if d1 else None, norm(d2[0]) if d2 else None), "cart = geocentric2cart(r, lat, lon); cart2geodetic(*cart, ellipsoid)", node=g.node, func=g)


def rule_models(ctx):
    ctx.rule("C07.models", "T3", "six ellipsoid models with eccentricity in [0, 1) and positive radii; SphericalEarth uses constants.earth_radius")
    f = ctx.func(GEO, "ellipsoidmodels.__init__")
    tab = None
    for st in f.body:
        if isinstance(st, ast.Assign) and isinstance(st.value, ast.Dict):
            tab = st.value
    if tab is None:
        raise AnalysisError("ellipsoidmodels: table not found")
    rows = {}
    for k, v in zip(tab.keys, tab.values):
        if not (isinstance(v, ast.Tuple) and len(v.elts) == 2):
            raise AnalysisError("ellipsoidmodels: row is not a (radius, eccentricity) pair")
        rows[const_value(k)] = v
    want = {"SphericalEarth", "WGS84", "SphericalVenus", "SphericalMars", "EllipsoidMars", "SphericalJupiter"}
    bad = []
    for k, v in rows.items():
        e = fold(v.elts[1])
        if not 0 <= e < 1:
            bad.append("%s: e=%s" % (k, e))
        if norm(v.elts[0]) != "constants.earth_radius" and not fold(v.elts[0]) > 0:
            bad.append("%s: radius" % k)
        if k.startswith("Spherical") and e != 0:
            bad.append("%s: spherical model with e=%s" % (k, e))
    ctx.ob("ellipsoidmodels.table", set(rows) == want and not bad, "models %s; problems %s" % (sorted(rows), bad or "none"), "the six documented models, 0 <= e < 1, radius > 0", node=tab, func=f)
    se = rows.get("SphericalEarth")
    w = rows.get("WGS84")
    ok = se is not None and norm(se.elts[0]) == "constants.earth_radius" and w is not None and abs(fold(w.elts[0]) - 6378137) < 0.5 and abs(fold(w.elts[1]) - 0.0818191908426) < 1e-10
    ctx.ob("ellipsoidmodels.reference", ok, "SphericalEarth radius = %s; WGS84 = %s" % (norm(se.elts[0]) if se else None, norm(w) if w else None),
           "constants.earth_radius; WGS84 a = 6378137 m, e = 0.0818191908426", node=tab, func=f)


def rule_los(ctx):
    ctx.rule("C07.los", "T4 (truth table)", "cartposlos2geocentric: the azimuth from arccos lies in [0, 180]; it is mirrored for a westward component and, where "
             "rounding made it NaN (meridional line of sight), repaired from the sign of the NORTHWARD component")
    from ..order import Interp
    import itertools
    f = ctx.func(GEO, "cartposlos2geocentric")
    flow = Flow(f)
    acos = [st for st in flow.stmts if isinstance(st, ast.Assign) and isinstance(st.targets[0], ast.Subscript) and calls_in(st.value, "arccos")
            and calls_in(st.value, "rad2deg")]
    acos = [st for st in acos if norm(st.targets[0].value) != "za"]
    if len(acos) != 1:
        raise AnalysisError("cartposlos2geocentric: azimuth from arccos not found")
    a0 = acos[0]
    aa = norm(a0.targets[0].value)
    # which local is the northward / eastward rate: dlat enters the arccos, the other one decides the mirror
    names = {n_.id for n_ in ast.walk(a0.value) if isinstance(n_, ast.Name)}
    blk = parent(a0)
    body = next(getattr(blk, fl_) for fl_ in ("body", "orelse") if any(x is a0 for x in getattr(blk, fl_, [])))
    later = body[[k_ for k_, x in enumerate(body) if x is a0][0] + 1:]
    fixdef = [st for st in later if isinstance(st, ast.Assign) and isinstance(st.targets[0], ast.Name) and calls_in(st.value, "isnan")]
    if len(fixdef) != 1:
        raise AnalysisError("cartposlos2geocentric: NaN mask of the azimuth not found")
    fix = fixdef[0].targets[0].id
    stores = [st for st in later if isinstance(st, (ast.Assign, ast.AugAssign)) and isinstance(st.targets[0] if isinstance(st, ast.Assign) else st.target, ast.Subscript)
              and norm((st.targets[0] if isinstance(st, ast.Assign) else st.target).value) == aa]
    if not stores:
        raise AnalysisError("cartposlos2geocentric: repair / mirror stores into the azimuth not found")
    masks_vars = set()
    for st in stores:
        t_ = st.targets[0] if isinstance(st, ast.Assign) else st.target
        masks_vars |= {n_.id for n_ in ast.walk(t_.slice) if isinstance(n_, ast.Name)}
    # a selection mask (`non`: the elements this block is about) restricts every store alike: the table below is about those elements
    sel_masks = set()
    for st in flow.stmts:
        if isinstance(st, ast.Assign) and isinstance(st.targets[0], ast.Name) and st.targets[0].id in masks_vars and st.targets[0].id != fix \
                and isinstance(st.value, ast.Call) and (dotted(st.value.func) or "").split(".")[-1] in ("logical_and", "logical_or", "logical_not") \
                and not calls_in(st.value, "isnan"):
            sel_masks.add(st.targets[0].id)
    rate = sorted(masks_vars - {fix, "np"} - sel_masks)
    # the northward rate is the local of this block that enters the arccos (not as an index)
    in_slices = {id(x) for n_ in ast.walk(a0.value) if isinstance(n_, ast.Subscript) for x in ast.walk(n_.slice)}
    assigned_here = {t_.id for st in body for t_ in ast.walk(st) if isinstance(t_, ast.Name) and isinstance(t_.ctx, ast.Store)}
    north = sorted({n_.id for n_ in ast.walk(a0.value) if isinstance(n_, ast.Name) and id(n_) not in in_slices and n_.id in assigned_here and n_.id != aa})
    if len(north) != 1:
        raise AnalysisError("cartposlos2geocentric: northward rate not identified (%s)" % north)
    N = north[0]
    if N not in rate:
        # the rate of the selected elements kept in a temporary that is also stored into the full-shape array: X[sel] = N
        into = [norm(st.targets[0].value) for st in body if isinstance(st, ast.Assign) and isinstance(st.targets[0], ast.Subscript)
                and isinstance(st.value, ast.Name) and st.value.id == N and norm(st.targets[0].value) in rate]
        if len(into) == 1:
            N = str(into[0])
    E = [v for v in rate if v != N]
    if len(E) > 1:
        raise AnalysisError("cartposlos2geocentric: masks depend on %s" % rate)
    E = E[0] if E else None
    funcs = {"logical_and": lambda a, b: bool(a) and bool(b), "logical_or": lambda a, b: bool(a) or bool(b), "logical_not": lambda a: not a}
    bad = None
    for isfix, sn, se in itertools.product((True, False), (-1, 0, 1), (-1, 0, 1)):
        val = "acos"          # abstract value of aa: 'acos' (in [0, 180]), 'neg' (mirrored), 0, 180
        for st in stores:
            t_ = st.targets[0] if isinstance(st, ast.Assign) else st.target
            env = {fix: isfix, N: sn}
            env.update({m_: True for m_ in sel_masks})
            if E:
                env[E] = se
            try:
                hit = bool(Interp(env, funcs).ev(t_.slice))
            except AnalysisError as e_:
                raise AnalysisError("cartposlos2geocentric: mask %s outside the model: %s" % (norm(t_.slice), e_))
            if not hit:
                continue
            if isinstance(st, ast.Assign):
                v_ = norm(st.value)
                val = {"0": 0, "0.0": 0, "180": 180, "180.0": 180}.get(str(v_), "other:" + str(v_))
            elif isinstance(st.op, ast.Mult) and norm(st.value) in ("-1", "-1.0"):
                val = {"acos": "neg", "neg": "acos", 0: 0, 180: -180}.get(val, "other")
            else:
                val = "other"
        if isfix:
            want = {1: (0,), -1: (180,), 0: (0, 180)}[sn]
        else:
            want = ("neg",) if (E and se < 0) else ("acos",)
        if val not in want:
            bad = {"azimuth was NaN": isfix, "sign of northward rate %s" % N: sn, "sign of eastward rate %s" % E: se, "azimuth becomes": str(val), "expected": [str(w) for w in want]}
            break
    # shapes: the NaN mask is taken from the whole azimuth array, so the rates it is combined with must have that shape too - rates
    # computed from `x[non]` are the compressed 1-d selection and only fit 1-d arguments
    def compressed(name):
        ds = [st for st in body if isinstance(st, ast.Assign) and isinstance(st.targets[0], ast.Name) and st.targets[0].id == name]
        if len(ds) != 1:
            raise AnalysisError("cartposlos2geocentric: definition of the rate %s not found" % name)
        v_ = ds[0].value
        if isinstance(v_, ast.Call) and (dotted(v_.func) or "").split(".")[-1] in ("zeros", "zeros_like", "empty", "full", "full_like", "empty_like"):
            return False
        return any(isinstance(n_, ast.Subscript) and isinstance(n_.slice, ast.Name) and n_.slice.id in sel_masks | masks_vars | {"non"} for n_ in ast.walk(v_))
    fix_compressed = any(isinstance(n_, ast.Subscript) and isinstance(n_.slice, ast.Name) and n_.slice.id in sel_masks | {"non"} and norm(n_.value) == aa
                         for n_ in ast.walk(fixdef[0].value))
    rates_compressed = [v for v in [N] + ([E] if E else []) if compressed(v)]
    shape_ok = (not rates_compressed and not fix_compressed) or (len(rates_compressed) == 1 + bool(E) and fix_compressed)
    ctx.ob("cartposlos2geocentric.mask_shapes", shape_ok, "NaN mask from %s; rates restricted to the selection: %s" % (
        "the selected azimuths" if fix_compressed else "the whole azimuth array", rates_compressed or "none"),
        "the NaN mask and the rates it is combined with have one shape (arguments of any broadcastable shape): rates computed from x[non] are 1-d, the mask "
        "np.isnan(aa) has the shape of the arguments", node=fixdef[0], func=f,
        witness=None if shape_ok else {"x.shape": [2, 3], "raises": "ValueError: operands could not be broadcast together with shapes (2,3) (6,)"})
    ctx.models.append({"rule": "C07.los", "cases": 18, "exhaustive": True, "domain": "NaN flag x sign(northward) x sign(eastward)"})
    ctx.ob("cartposlos2geocentric.azimuth_signs", bad is None, "; ".join(norm(s_)[:70] for s_ in stores),
           "NaN -> 0 when the line of sight heads north (%s > 0), 180 when south; otherwise mirrored to negative exactly for a westward component" % N,
           node=stores[0], func=f, witness=bad)


def rule_los_options(ctx):
    ctx.rule("C07.losopt", "T1", "cartposlos2geocentric with ppc / the optional start values: zenith angles cover [0, 180], the azimuth is computed; "
             "geocentricposlos2cart checks arguments of any shape")
    f = ctx.func(GEO, "cartposlos2geocentric")
    flow = Flow(f)
    # za = arcsin(ppc / r) covers [0, 90] only: the sign of the radial component tells the downward-looking directions apart
    asin = [st for st in flow.stmts if isinstance(st, ast.Assign) and isinstance(st.targets[0], ast.Name) and calls_in(st.value, "arcsin")]
    if len(asin) != 1:
        raise AnalysisError("cartposlos2geocentric: za from arcsin(ppc / r) not found")
    za = asin[0].targets[0].id
    blk = parent(asin[0])
    body = next(getattr(blk, fl_) for fl_ in ("body", "orelse") if any(x is asin[0] for x in getattr(blk, fl_, [])))
    later = [st for st in body[[k_ for k_, x in enumerate(body) if x is asin[0]][0] + 1:]
             if isinstance(st, ast.Assign) and norm(st.targets[0]).split("[")[0] == za]
    radial = None
    for st in flow.stmts:
        if isinstance(st, ast.Assign) and isinstance(st.targets[0], ast.Name) and calls_in(st.value, "clip") and "sinlat" in norm(st.value):
            radial = st.targets[0].id
    if radial is None:
        raise AnalysisError("cartposlos2geocentric: radial component of the line of sight not found")
    fixed = False
    fact = "za = %s only" % norm(asin[0].value)
    # the one-expression form: za = np.where(radial < 0, 180 - A, A) with A = rad2deg(arcsin(ppc / r))
    v0 = asin[0].value
    if isinstance(v0, ast.Call) and (dotted(v0.func) or "").split(".")[-1] == "where" and len(v0.args) == 3 and not v0.keywords:
        t0 = norm(v0.args[0]).replace(" ", "")
        a1, a2 = (norm(v0.args[1]).replace(" ", ""), norm(v0.args[2]).replace(" ", ""))
        if t0 in ("%s<0" % radial, "0>%s" % radial) and a1 in ("180-%s" % a2, "180-(%s)" % a2, "180.0-%s" % a2) and calls_in(v0.args[2], "arcsin"):
            fixed = True
        elif t0 in ("%s>=0" % radial, "0<=%s" % radial) and a2 in ("180-%s" % a1, "180-(%s)" % a1, "180.0-%s" % a1) and calls_in(v0.args[1], "arcsin"):
            fixed = True
        if fixed:
            fact = "%s = %s" % (za, norm(v0)[:110])
    for st in later:
        t_ = norm(st.value).replace(" ", "")
        tgt = norm(st.targets[0]).replace(" ", "")
        if t_ in ("np.where(%s<0,180-%s,%s)" % (radial, za, za), "np.where(%s>=0,%s,180-%s)" % (radial, za, za)) and tgt == za:
            fixed = True
            fact = "%s = %s" % (za, norm(st.value))
        elif tgt in ("%s[%s<0]" % (za, radial),) and t_ in ("180-%s[%s<0]" % (za, radial),):
            fixed = True
            fact = norm(st)
        else:
            raise AnalysisError("cartposlos2geocentric: re-definition %s of the zenith angle in the ppc branch not understood" % norm(st)[:70])
    ctx.ob("cartposlos2geocentric.ppc_zenith", fixed, fact, "za = arcsin(ppc / r), mirrored to 180 - za where the radial component of the line of sight is negative "
           "(downward-looking): arcsin alone returns 85 for 95 degrees", node=asin[0], func=f, witness=None if fixed else {"za0": 110, "returned": 70})
    # with the optional start values the azimuth of the general direction is still computed
    def about_aa0(st_):
        t_ = flow.resolve(st_.test, at=st_, depth=2, stop=tuple(f.all_params))
        return any(isinstance(n_, ast.Name) and n_.id == "aa0" for n_ in ast.walk(t_)) and "None" in str(norm(t_))
    opt = [st for st in walk_no_nested(f.node) if isinstance(st, ast.If) and about_aa0(st) and any(isinstance(x, ast.Assign) and isinstance(x.targets[0], ast.Subscript) and norm(x.targets[0].value) == "aa"
                                                     for b_ in st.body for x in ast.walk(b_))]
    if len(opt) != 1:
        raise AnalysisError("cartposlos2geocentric: the branch for the optional start values was not found")
    aa = "aa"
    stores = [st for st in walk_no_nested(opt[0]) if isinstance(st, ast.Assign) and isinstance(st.targets[0], ast.Subscript) and norm(st.targets[0].value) == aa
              and any(st is x for b_ in opt[0].body for x in ast.walk(b_))]
    general = [st for st in stores if calls_in(st.value, "arctan2")]
    ctx.ob("cartposlos2geocentric.optional_azimuth", bool(general), "stores into the azimuth with the optional start values: %s" % [norm(s_)[:50] for s_ in stores],
           "besides the north / south cases pinned by aa0, the azimuth of every other direction is computed (arctan2 of the eastward and northward components): "
           "it stayed 0", node=stores[0] if stores else opt[0], func=f, witness=None if general else {"aa0": [-120, -45, 30, 60, 100, 150], "returned": [0, 0, 0, 0, 0, 0]})
    # geocentricposlos2cart: range checks on arrays of any shape
    g = ctx.func(GEO, "geocentricposlos2cart")
    builtin_any = [c for c in calls_in(g.node, ("any", "all")) if isinstance(c.func, ast.Name) and c.args
                   and isinstance(c.args[0], (ast.Compare, ast.BoolOp, ast.Name, ast.UnaryOp))]
    np_any = [c for c in calls_in(g.node, ("any", "all")) if isinstance(c.func, ast.Attribute)]
    if not builtin_any and not np_any:
        raise AnalysisError("geocentricposlos2cart: range checks not found")
    ctx.ob("geocentricposlos2cart.checks", not builtin_any, "builtin any()/all() on arrays: %s" % ([norm(c)[:40] for c in builtin_any] or "none"),
           "np.any(...): the builtin any() iterates over the first axis and raises for arguments with more than one dimension",
           node=builtin_any[0] if builtin_any else np_any[0], func=g, witness=None if not builtin_any else {"shape": [2, 3], "raises": "ValueError: truth value of an array is ambiguous"})


def rule_buffers(ctx):
    ctx.rule("C07.buffers", "T1", "the result arrays of the position + line-of-sight conversions are floating point whatever the dtype of the arguments")
    FLOAT = ("float", "np.float64", "np.float_", "np.double", "'float'", "'float64'", "'f8'", "np.longdouble")
    for name in ("geocentricposlos2cart", "cartposlos2geocentric"):
        f = ctx.func(GEO, name)
        allocs = [c for c in calls_in(f.node) if (dotted(c.func) or "").split(".")[-1] in
                  ("empty", "zeros", "ones", "full", "empty_like", "zeros_like", "ones_like", "full_like")]
        if not allocs:
            raise AnalysisError("%s: no result array is allocated - the way results are built is not analysed" % name)
        bad = []
        for c in allocs:
            last = (dotted(c.func) or "").split(".")[-1]
            dt = [k.value for k in c.keywords if k.arg == "dtype"]
            if not dt and last in ("empty", "zeros", "ones") and len(c.args) > 1:
                dt = [c.args[1]]
            if dt:
                if str(norm(dt[0])) not in FLOAT:
                    bad.append("%s: dtype %s" % (norm(c)[:50], norm(dt[0])))
            elif last.endswith("_like") and c.args and isinstance(c.args[0], ast.Name) and any(
                    d_ != "param" and isinstance(d_, ast.Assign) and any(t_ in str(norm(d_.value)).replace(" ", "") for t_ in ("astype(float", "dtype=float", "dtype=np.float64", "np.float64("))
                    for d_ in Flow(f).defs(c.args[0].id, enclosing_stmt(c))):
                pass        # shaped like an array that was converted to floating point before
            elif last.endswith("_like"):
                bad.append("%s: takes the dtype of its argument" % norm(c)[:50])
            elif last == "full" and len(c.args) > 1 and isinstance(c.args[1], ast.Constant) and isinstance(c.args[1].value, int) \
                    and not isinstance(c.args[1].value, bool):
                bad.append("%s: integer fill value makes an integer array" % norm(c)[:50])
        ctx.ob("%s.buffers" % name, not bad, "%d allocations; not floating point: %s" % (len(allocs), bad or "none"),
               "np.empty(shape) / an explicit float dtype: a buffer shaped AND typed like an argument truncates the coordinates and the unit "
               "line-of-sight vector for integer-typed input", node=allocs[0], func=f)


def run(ctx):
    for r in (rule_geodetic, rule_radius, rule_sphere, rule_dist, rule_fixpoint, rule_tol, rule_compose, rule_models, rule_los, rule_los_options, rule_buffers):
        ctx.attempt(r, ctx)
    # the caller's arguments (arrays, filter / fill dictionaries) are not modified: an in-place update makes the next call on the same objects wrong
    from ..purity import rule_pure as _rule_args
    ctx.attempt(_rule_args, ctx, "C07.args", [('typhon/geodesy.py', 'cart2geodetic'), ('typhon/geodesy.py', 'geodetic2cart'), ('typhon/geodesy.py', 'great_circle_distance'), ('typhon/geodesy.py', 'tunnel_distance'), ('typhon/geodesy.py', 'geocentricposlos2cart'), ('typhon/geodesy.py', 'cartposlos2geocentric'), ('typhon/geodesy.py', 'geocentric2cart'), ('typhon/geodesy.py', 'cart2geocentric'), ('typhon/geodesy.py', 'geocentric2geodetic'), ('typhon/geodesy.py', 'geodetic2geocentric')], "the caller's arguments are not modified in place")
    # the composed conversions answer only through the two conversions they compose: a short cut decided by the arguments alone (a spherical model, ...)
    # is outside what C07.compose reads - no verdict rather than silence
    from ..early import rule_early_table
    rule_early_table(ctx, "C07.answer", [(GEO, "geocentric2geodetic", ("cart2geodetic",), "the composed conversion", ()),
                                          (GEO, "geodetic2geocentric", ("cart2geocentric",), "the composed conversion", ())])
