"""C06 - GeoIndex.query returns exactly the points within the radius.

Decided clauses: unit table against the SI definitions and its use in to_kilometers (T3); per
metric, the factor applied to the radius is the one the tree's coordinates need and the factor
applied to the returned distances is its inverse (T5 on monomials); the shuffle permutation is
applied forward to row 0 on every path that returns pairs (T1+T6); rows / flattening order of
pairs and distances (T6); emptiness by size (lint); metric -> coordinates (T3+T6).
sklearn's trees and chord-vs-arc numerics are not decided; split_units is decided for the float()-delegating loop only (C06.split).
"""
import ast
import sympy as sp
from ..core import AnalysisError, norm, dotted, calls_in, walk_no_nested, const_value, parent, enclosing_stmt
from ..cfg import ENTRY, EXIT, RAISE
from ..flow import guard_chain as _guard_chain
from ..flow import Flow, emptiness_test_kind
from ..alg import Sym, Unsupported, _binop

GEO = "typhon/geographical.py"
EXPECT = {"C06.pairing": 1, "C06.args": 3, "C06.units": 8, "C06.scale": 4, "C06.deshuffle": 2, "C06.pairs": 4, "C06.empty": 1, "C06.metric": 1 + 2, "C06.complete": 3, "C06.pure": 3, "C06.support": 1, "C06.split": 1, "C06.convert": 1, "C06.cartesian": 1, "C06.answer": 1}

SI_KM = {  # unit -> (kilometres per unit, accepted spellings)
    "cm": (1e-5, {"cm", "centimeter", "centimeters", "centimetre", "centimetres"}),
    "m": (1e-3, {"m", "meter", "meters", "metre", "metres"}),
    "km": (1.0, {"km", "kilometer", "kilometers", "kilometre", "kilometres"}),
    "mi": (1.609344, {"mi", "mile", "miles"}),
    "yd": (0.9144e-3, {"yd", "yds", "yard", "yards"}),
    "ft": (0.3048e-3, {"ft", "foot", "feet"}),
}


def fold(n):
    """constant folding of numeric literal expressions"""
    if isinstance(n, ast.Constant) and isinstance(n.value, (int, float)):
        return float(n.value)
    if isinstance(n, ast.UnaryOp) and isinstance(n.op, ast.USub):
        return -fold(n.operand)
    if isinstance(n, ast.BinOp):
        l, r = fold(n.left), fold(n.right)
        if isinstance(n.op, ast.Mult):
            return l * r
        if isinstance(n.op, ast.Div):
            return l / r
        if isinstance(n.op, ast.Pow):
            return l ** r
        if isinstance(n.op, ast.Add):
            return l + r
        if isinstance(n.op, ast.Sub):
            return l - r
    raise AnalysisError("not a numeric literal expression: %s" % norm(n))


def rule_units(ctx):
    ctx.rule("C06.units", "T3", "every unit factor equals the SI definition in km; to_kilometers multiplies by the matching row")
    mod = ctx.mod(GEO)
    tab = mod.table("UNITS_CONVERSION_FACTORS")
    if not isinstance(tab, (ast.List, ast.Tuple)):
        raise AnalysisError("UNITS_CONVERSION_FACTORS is not a list literal")
    seen = set()
    fobj = ctx.func(GEO, "to_kilometers")
    for row in tab.elts:
        if not (isinstance(row, (ast.List, ast.Tuple)) and len(row.elts) == 2 and isinstance(row.elts[0], (ast.Set, ast.List, ast.Tuple))):
            raise AnalysisError("unit table row of unexpected form: %s" % norm(row))
        names = {const_value(e) for e in row.elts[0].elts}
        factor = fold(row.elts[1])
        units = [u for u, (f, sp_) in SI_KM.items() if names & sp_]
        construct = "UNITS_CONVERSION_FACTORS[%s]" % "/".join(sorted(names))[:60]
        if len(units) != 1 or not names <= SI_KM[units[0]][1]:
            ctx.ob(construct, False, "spellings %s mix different units or are unknown" % sorted(names), "all spellings of one row name one unit",
                   node=row, func=fobj)
            continue
        u = units[0]
        seen.add(u)
        ref = SI_KM[u][0]
        ctx.ob("UNITS_CONVERSION_FACTORS[%s]" % u, abs(factor - ref) <= 1e-12 * ref, "%s -> %r km" % (sorted(names), factor),
               "1 %s = %r km (SI / international yard and pound agreement)" % (u, ref), node=row, func=fobj)
    missing = sorted(set(SI_KM) - seen)
    ctx.ob("UNITS_CONVERSION_FACTORS.rows", not missing, "units without a row: %s" % (missing or "none"), "cm, m, km, mi, yd, ft are all convertible",
           node=tab, func=fobj)
    # to_kilometers: length * factor of the row containing the unit; numbers pass through
    f = fobj
    p = f.params[0]
    loop = [s for s in f.body if isinstance(s, ast.For) and norm(s.iter) == "UNITS_CONVERSION_FACTORS"]
    ok = False
    fact = "no loop over the table"
    if not loop:
        # second recognised form: the factors of the matching rows are collected, the first one is used
        comps = [(st, st.value) for st in walk_no_nested(f.node) if isinstance(st, ast.Assign) and isinstance(st.targets[0], ast.Name)
                 and isinstance(st.value, ast.ListComp) and len(st.value.generators) == 1 and norm(st.value.generators[0].iter) == "UNITS_CONVERSION_FACTORS"]
        # third recognised form: factor = next((factor for spellings, factor in TABLE if unit in spellings)[, default])
        first_of = [(st, st.value.args[0]) for st in walk_no_nested(f.node) if isinstance(st, ast.Assign) and isinstance(st.targets[0], ast.Name)
                    and isinstance(st.value, ast.Call) and dotted(st.value.func) == "next" and st.value.args and isinstance(st.value.args[0], ast.GeneratorExp)
                    and len(st.value.args[0].generators) == 1 and norm(st.value.args[0].generators[0].iter) == "UNITS_CONVERSION_FACTORS"]
        picked = "%s[0]"
        if not comps and first_of:
            comps, picked = first_of, "%s"
        sp_assign = [s_ for s_ in f.body if isinstance(s_, ast.Assign) and calls_in(s_.value, "split_units")]
        if len(comps) != 1 or not sp_assign or not isinstance(sp_assign[0].targets[0], ast.Tuple):
            raise AnalysisError("to_kilometers: the look-up in UNITS_CONVERSION_FACTORS was not found (neither loop nor filtered list)")
        st_, c_ = comps[0]
        g_ = c_.generators[0]
        ln, un = [norm(e) for e in sp_assign[0].targets[0].elts]
        if not (isinstance(g_.target, ast.Tuple) and len(g_.target.elts) == 2):
            raise AnalysisError("to_kilometers: rows of the table are not unpacked into (spellings, factor)")
        tu, tf = [norm(e) for e in g_.target.elts]
        m_ = st_.targets[0].id
        rets_ = [r_ for r_ in walk_no_nested(f.node) if isinstance(r_, ast.Return) and r_.value is not None and m_ in norm(r_.value)]
        if not rets_:
            # the product bound to a name that is returned (a worker's result inlined into the wrapper)
            prod_ = [a_ for a_ in walk_no_nested(f.node) if isinstance(a_, ast.Assign) and isinstance(a_.targets[0], ast.Name) and a_ is not st_
                     and any(isinstance(n_, ast.Name) and n_.id == m_ for n_ in ast.walk(a_.value))]
            if len(prod_) == 1 and any(isinstance(r_, ast.Return) and r_.value is not None and norm(r_.value) == prod_[0].targets[0].id for r_ in walk_no_nested(f.node)):
                rets_ = [ast.copy_location(ast.Return(value=prod_[0].value), prod_[0])]
        fact = "%s = %s; return %s" % (m_, norm(c_), [norm(r_.value) for r_ in rets_])
        ok = norm(c_.elt) == tf and [norm(i_) for i_ in g_.ifs] == ["%s in %s" % (un, tu)] and len(rets_) == 1 \
            and norm(rets_[0].value) in ("%s * %s" % (ln, picked % m_), "%s * %s" % (picked % m_, ln))
        ctx.ob("to_kilometers.convert", ok, fact, "return length * factor for the row whose spellings contain the unit", node=st_, func=f)
    if loop:
        lp = loop[0]
        tu, tf = (lp.target.elts[0].id, lp.target.elts[1].id) if isinstance(lp.target, ast.Tuple) and len(lp.target.elts) == 2 else (None, None)
        ifs = [s for s in lp.body if isinstance(s, ast.If)]
        if ifs and tu:
            t = ifs[0].test
            ret = [s for s in ifs[0].body if isinstance(s, ast.Return)]
            cond_ok = isinstance(t, ast.Compare) and isinstance(t.ops[0], ast.In) and norm(t.comparators[0]) == tu
            unit_name = norm(t.left) if cond_ok else None
            # length, unit = split_units(distance)
            sp_assign = [s for s in f.body if isinstance(s, ast.Assign) and calls_in(s.value, "split_units")]
            ln = un = None
            if sp_assign and isinstance(sp_assign[0].targets[0], ast.Tuple):
                ln, un = [norm(e) for e in sp_assign[0].targets[0].elts]
            fact = "for %s, %s in table: if %s: %s" % (tu, tf, norm(t), norm(ret[0]) if ret else None)
            ok = cond_ok and unit_name == un and bool(ret) and norm(ret[0].value) in ("%s * %s" % (ln, tf), "%s * %s" % (tf, ln))
    if loop:
        ctx.ob("to_kilometers.convert", ok, fact, "return length * factor for the row whose spellings contain the unit", node=loop[0] if loop else f.node, func=f)
    # a number: whatever guards come first, the only return reachable for it hands the argument back
    nflow = Flow(f)
    asm = {"isinstance(%s, Number)" % p: True, "isinstance(%s, (Number, str))" % p: True, "isinstance(%s, (str, Number))" % p: True, "isinstance(%s, str)" % p: False,
           "isinstance(%s, (int, float))" % p: True}
    live = [r_ for r_ in nflow.stmts if isinstance(r_, ast.Return) and nflow.live_under(r_, asm, stop=(p,))]
    raises = [r_ for r_ in nflow.stmts if isinstance(r_, ast.Raise) and nflow.live_under(r_, asm, stop=(p,))
              and all(nflow.decide_under(t_, asm, at=t_, stop=(p,)) is not None for t_, _ in _guard_chain(r_, implicit=True)[:1])]
    first = live[0] if live else None
    okn = len(live) >= 1 and str(norm(nflow.resolve_under(live[0].value, asm, at=live[0], stop=(p,)))) == p and all(
        nflow._order(r_) > nflow._order(live[0]) for r_ in live[1:])
    # (returns after the first live one are behind it: `if isinstance(x, Number): return x` ends the path)
    first_is_guarded = bool(live) and any(str(norm(t_)) == "isinstance(%s, Number)" % p and pol for t_, pol in _guard_chain(live[0], implicit=True))
    okn = okn and first_is_guarded
    ctx.ob("to_kilometers.number", okn, "for a number: %s" % (norm(first)[:70] if first is not None else None),
           "numbers are kilometres already and pass through unchanged", node=first or f.node, func=f)


def _scale_walk(ctx, f, metric):
    """Symbolic factors applied to the radius and to the distances in GeoIndex.query for one metric."""
    ev = Sym(ctx.repo)
    R = sp.Symbol("r_km", positive=True)
    D = sp.Symbol("d_tree", positive=True)
    state = {"r": None, "d": None, "rname": None, "dname": None, "query_r": None}
    rparam = f.params[3]

    def decided(test):
        t = norm(test)
        for q in ('"', "'"):
            if t == "self.metric == %s%s%s" % (q, metric, q):
                return True
        if t.startswith("self.metric == "):
            return False
        if t in ("return_distance",):
            return True
        if t in ("not return_distance",):
            return False
        return None

    def expr(n, env):
        return ev.expr(n, env, f, 0)

    renv = {}      # names holding (a multiple of) the radius -> factor expression
    denv = {}      # names holding (a multiple of) the tree distances

    def mentions(node, names):
        return any(isinstance(x, ast.Name) and x.id in names for x in ast.walk(node))

    def walk(stmts):
        for st in stmts:
            if isinstance(st, ast.Assign) and len(st.targets) == 1 and isinstance(st.targets[0], ast.Name):
                name = st.targets[0].id
                if calls_in(st.value, "to_kilometers") and isinstance(st.value, ast.Call):
                    renv[name] = R
                    state["rname"], state["r"] = name, R
                    continue
                if calls_in(st.value, "query_radius"):
                    c = calls_in(st.value, "query_radius")[0]
                    if len(c.args) > 1 and mentions(c.args[1], renv):
                        state["r"] = expr(c.args[1], dict(renv))
                        state["query_r"] = (state["rname"], state["r"])
                    else:
                        state["query_r"] = (norm(c.args[1]) if len(c.args) > 1 else None, state["r"])
                    continue
                if any(isinstance(x, ast.Name) and "distance" in x.id for x in ast.walk(st.value)) and \
                        (calls_in(st.value, "hstack") or calls_in(st.value, "concatenate")) and name not in renv:
                    denv[name] = D
                    state["dname"], state["d"] = name, D
                    continue
                if mentions(st.value, renv) and not mentions(st.value, denv):
                    try:
                        renv[name] = expr(st.value, dict(renv))
                    except Unsupported:
                        renv.pop(name, None)
                    continue
                if mentions(st.value, denv):
                    try:
                        denv[name] = expr(st.value, dict(denv))
                        state["d"] = denv[name] if name == state["dname"] else state["d"]
                    except Unsupported:
                        denv.pop(name, None)
                    continue
            elif isinstance(st, ast.AugAssign) and isinstance(st.target, ast.Name):
                name = st.target.id
                if name in renv:
                    renv[name] = _binop(st.op, renv[name], expr(st.value, dict(renv)))
                elif name in denv:
                    denv[name] = _binop(st.op, denv[name], expr(st.value, dict(denv)))
                    if name == state["dname"]:
                        state["d"] = denv[name]
            elif isinstance(st, ast.Return) and st.value is not None and state["dname"] and mentions(st.value, denv):
                # the distances as returned (possibly scaled in the return expression)
                for e_ in (st.value.elts if isinstance(st.value, ast.Tuple) else [st.value]):
                    if mentions(e_, denv):
                        try:
                            state["d"] = expr(e_, dict(denv))
                        except Unsupported:
                            pass
            elif isinstance(st, ast.If):
                d = decided(st.test)
                if d is True:
                    walk(st.body)
                elif d is False:
                    walk(st.orelse)
                else:
                    # branches that do not touch r / distances are irrelevant; otherwise undecidable
                    touched = [n for s in st.body + st.orelse for n in ast.walk(s)
                               if isinstance(n, (ast.AugAssign, ast.Assign)) and any(
                                   isinstance(t, ast.Name) and (t.id in renv or t.id in denv)
                                   for t in ([n.target] if isinstance(n, ast.AugAssign) else n.targets))]
                    if touched:
                        raise AnalysisError("radius/distance scaled under an undecidable condition: %s" % norm(st.test))
                    # a return of the distances inside an undecided branch (shuffled / not shuffled) still reports them
                    walk([s_ for s_ in st.body + st.orelse if isinstance(s_, (ast.Return, ast.If))])
    walk(f.body)
    return state, R, D


def rule_scale(ctx):
    ctx.rule("C06.scale", "T5", "per metric: radius converted to the unit of the tree's coordinates, distances converted back to km")
    f = ctx.func(GEO, "GeoIndex.query")
    ev = Sym(ctx.repo)
    Re = ev.const.get("earth_radius")
    want_r = {"minkowski": 1000, "haversine": 1000 / Re}
    for metric in ("minkowski", "haversine"):
        state, R, D = _scale_walk(ctx, f, metric)
        if state["r"] is None or state["d"] is None or state["query_r"] is None:
            raise AnalysisError("query(): radius / distances / query_radius call not identified")
        rf = sp.simplify(state["r"] / R)
        df = sp.simplify(state["d"] / D)
        ctx.ob("GeoIndex.query.radius[%s]" % metric, sp.simplify(rf - want_r[metric]) == 0 and state["query_r"][0] == state["rname"],
               "radius handed to the tree = r_km * %s" % rf,
               "r_km * %s (%s)" % (want_r[metric], "metres: the cartesian coordinates are built from earth_radius in metres" if metric == "minkowski"
                                   else "radians on the unit sphere: arc / earth_radius"), node=f.node, func=f)
        ctx.ob("GeoIndex.query.distance[%s]" % metric, sp.simplify(rf * df - 1) == 0,
               "returned distance = tree distance * %s; radius factor * distance factor = %s" % (df, sp.simplify(rf * df)),
               "1 - distances come back in kilometres, the unit the radius was converted from", node=f.node, func=f)
        ctx.models.append({"rule": "C06.scale", "identity": metric, "cases": 2})


def rule_pairing(ctx):
    """column k of the pairs and element k of the distances belong together: whatever re-orders or selects the columns of the pairs
    (a sort for reproducibility, a mask) is applied to the distances with the same index"""
    ctx.rule("C06.pairing", "T6", "pairs and distances are re-ordered / selected together")
    f = ctx.func(GEO, "GeoIndex.query")
    flow = Flow(f)
    rets = [r_ for r_ in flow.stmts if isinstance(r_, ast.Return) and isinstance(r_.value, ast.Tuple) and len(r_.value.elts) == 2]
    if not rets:
        raise AnalysisError("query: no return of (pairs, distances)")
    pname = dname = None
    for r_ in rets:
        a_, b_ = r_.value.elts
        while isinstance(a_, ast.Subscript):
            a_ = a_.value
        while isinstance(b_, ast.Subscript):
            b_ = b_.value
        if isinstance(a_, ast.Name) and isinstance(b_, ast.Name):
            pname, dname = a_.id, b_.id
        elif isinstance(a_, ast.Name) and pname is None:
            cand = [n_.id for n_ in ast.walk(r_.value.elts[1]) if isinstance(n_, ast.Name) and n_.id not in ("np", "numpy", "earth_radius", "self")
                    and flow.defs(n_.id, r_) not in ([], ["param"])]
            if cand:
                pname, dname = a_.id, cand[0]
    if pname is None:
        raise AnalysisError("query: the names of the returned pairs / distances were not found")

    def selections(name, columns):
        out = []
        for n_ in ast.walk(f.node):
            if isinstance(n_, ast.Subscript) and isinstance(n_.ctx, ast.Load) and isinstance(n_.value, ast.Name) and n_.value.id == name:
                sl = n_.slice
                if columns:
                    if isinstance(sl, ast.Tuple) and len(sl.elts) == 2 and isinstance(sl.elts[0], ast.Slice) and sl.elts[0].lower is None and sl.elts[0].upper is None \
                            and sl.elts[0].step is None and not isinstance(sl.elts[1], (ast.Slice, ast.Constant)):
                        # pairs[:, X] used as a whole (not pairs[0, :], a row)
                        out.append(str(norm(flow.resolve(sl.elts[1], at=n_, depth=1))))
                elif not isinstance(sl, (ast.Slice, ast.Constant, ast.Tuple)):
                    out.append(str(norm(flow.resolve(sl, at=n_, depth=1))))
        return sorted(set(out))
    sp_, sd_ = selections(pname, True), selections(dname, False)
    ctx.ob("GeoIndex.query.pairing", sp_ == sd_, "columns of %s selected by %s; elements of %s selected by %s" % (pname, sp_ or "nothing", dname, sd_ or "nothing"),
           "the same index for both (or none): pair k keeps distance k", node=rets[-1], func=f,
           witness=None if sp_ == sd_ else {"shuffle": True, "two neighbours of one query point": "listed with each other's distance"})


def rule_deshuffle(ctx):
    ctx.rule("C06.deshuffle", "T1+T6", "build: points = points[sigma]; query: row 0 is mapped through sigma on every path that returns pairs")
    fi = ctx.func(GEO, "GeoIndex.__init__")
    # build side
    flow = Flow(fi)
    perm_attr = None
    okb = False
    fact = "no permutation of the build points found"
    for st in flow.stmts:
        if isinstance(st, ast.Assign) and isinstance(st.targets[0], ast.Name) and isinstance(st.value, ast.Subscript) \
                and norm(st.value.value) == st.targets[0].id:
            sl = st.value.slice
            attr_ = None
            if isinstance(sl, ast.Attribute) and norm(sl).startswith("self."):
                attr_ = sl.attr
            elif isinstance(sl, ast.Name):
                # a local that is also kept as the attribute: self.<sigma> = <local>
                keep = [a_ for a_ in flow.stmts if isinstance(a_, ast.Assign) and isinstance(a_.targets[0], ast.Attribute) and norm(a_.targets[0]).startswith("self.")
                        and norm(a_.value) == sl.id]
                if len(keep) == 1:
                    attr_ = keep[0].targets[0].attr
            if attr_ is None:
                continue
            perm_attr = attr_
            fact = norm(st)
            # the tree is built from the permuted points
            trees = [c for c in calls_in(fi.node) if c.args and norm(c.args[0]) == st.targets[0].id and "tree" in norm(c.func).lower()]
            okb = bool(trees)
            # ... and the points are permuted whenever a permutation is stored (query() translates through it unconditionally)
            from ..flow import guard_chain
            stores_ = [a_ for a_ in flow.stmts if isinstance(a_, ast.Assign) and norm(a_.targets[0]) == "self.%s" % attr_
                       and not (isinstance(a_.value, ast.Constant) and a_.value.value is None)]
            g_perm = sorted(("" if p_ else "not ") + str(norm(t_)) for t_, p_ in guard_chain(st, implicit=True))
            if g_perm == ["self.%s is not None" % attr_] and stores_ and all(flow._order(a_) < flow._order(st) for a_ in stores_):
                stores_ = []        # permuted exactly when a permutation was stored: the test is on the stored value itself
            expanded_ = []
            for a_ in stores_:
                # self.<sigma> = <local>: what counts is where that local gets a permutation (it is None elsewhere)
                if isinstance(a_.value, ast.Name) and a_.value.id != st.targets[0].id:
                    ds_ = [d_ for d_ in flow.defs(a_.value.id, a_) if d_ != "param" and isinstance(d_, ast.Assign)]
                    real_ = [d_ for d_ in ds_ if not (isinstance(d_.value, ast.Constant) and d_.value.value is None)]
                    if ds_ and len(real_) < len(ds_) and real_:
                        expanded_.extend(real_)
                        continue
                expanded_.append(a_)
            stores_ = expanded_
            for a_ in stores_:
                g_st = sorted(("" if p_ else "not ") + str(norm(t_)) for t_, p_ in guard_chain(a_, implicit=True))
                if g_st != g_perm:
                    okb = False
                    fact = "%s under %s, but self.%s is set under %s" % (norm(st), g_perm or "no condition", attr_, g_st or "no condition")
    ctx.ob("GeoIndex.__init__.shuffle", okb, fact, "points = points[self.<sigma>] and the tree is built from the permuted points",
           node=fi.node, func=fi)
    if perm_attr is None:
        return
    f = ctx.func(GEO, "GeoIndex.query")
    flow = Flow(f)
    cfg = flow.cfg
    pnames = []
    for b_ in pair_builders(f, flow):
        if b_["name"] not in pnames:
            pnames.append(b_["name"])
    for pname in pnames:
        _deshuffle_one(ctx, f, flow, cfg, pname, perm_attr, "" if pname == pnames[0] else "[%s]" % pname)


def _deshuffle_one(ctx, f, flow, cfg, pname, perm_attr, suffix):
    want = "%s[0, :] = self.%s[%s[0, :]]" % (pname, perm_attr, pname)
    alt = "%s[0] = self.%s[%s[0]]" % (pname, perm_attr, pname)
    D = set()
    wrong = []
    for st in flow.stmts:
        if isinstance(st, ast.Assign) and isinstance(st.targets[0], ast.Subscript) and norm(st.targets[0].value) == pname:
            if norm(st) in (want, alt):
                D.update(cfg.nodes(st))
            else:
                wrong.append(norm(st))
    # edges that legitimately bypass the translation
    def cls(t):
        """classify a conjunct: 'perm' (a permutation is in use), 'noperm', 'nonempty', 'empty' or None"""
        if isinstance(t, ast.Name):
            r_ = flow.single_def_value(t.id, t)
            if r_ is not None:
                t = r_[0]
        while isinstance(t, ast.Call) and dotted(t.func) == "bool" and len(t.args) == 1:
            t = t.args[0]
        x = norm(t)
        if x == "self.%s is None" % perm_attr:
            return "noperm"
        if x == "self.%s is not None" % perm_attr:
            return "perm"
        if isinstance(t, ast.UnaryOp) and isinstance(t.op, ast.Not):
            k = cls(t.operand)
            return {"perm": "noperm", "noperm": "perm", "nonempty": "empty", "empty": "nonempty"}.get(k)
        if not isinstance(t, ast.Compare) and emptiness_test_kind(t) == "size" and pname in x:
            return "nonempty"
        return None

    def bypass_edge(node):
        st = cfg.stmt_of.get(node)
        if not isinstance(st, ast.If):
            return None
        from ..flow import conjuncts
        if isinstance(st.test, ast.BoolOp) and isinstance(st.test.op, ast.Or):
            # `if no permutation or no pairs: <skip>`: the true branch bypasses the translation legitimately
            dj = [cls(c) for c in st.test.values]
            return "T" if all(c in ("noperm", "empty") for c in dj) else None
        cj = [cls(c) for c in conjuncts(st.test)]
        if all(c in ("perm", "nonempty") for c in cj):
            return "F"          # translation skipped only without permutation / without pairs
        if len(cj) == 1 and cj[0] in ("noperm", "empty"):
            return "T"
        return None
    seen = set([ENTRY])
    todo = [ENTRY]
    while todo:
        a = todo.pop()
        skip = bypass_edge(a)
        for lab, b in cfg.succ.get(a, []):
            if lab in ("exc", "gen") or lab == skip or b in D or b in seen:
                continue
            seen.add(b)
            todo.append(b)
    bad = []
    for st in flow.stmts:
        if isinstance(st, ast.Return) and st.value is not None and any(isinstance(n, ast.Name) and n.id == pname for n in ast.walk(st.value)):
            if any(n in seen for n in cfg.nodes(st)):
                bad.append("line %d: %s" % (st.lineno, norm(st)))
    ctx.ob("GeoIndex.query.deshuffle" + suffix, bool(D) and not bad and not wrong,
           "returns of pairs reachable without `%s` while a permutation is in use: %s; other stores into pairs: %s" % (want, bad or "none", wrong or "none"),
           "every return of a non-empty pairs array with self.%s set is preceded by the forward translation of row 0 only" % perm_attr,
           node=f.node, func=f)


def pair_builders(f, flow):
    """Every construction of the 2 x N pair array in query(): [{name, jag, ok, transposed, fact, node, stmt}].
    Recognised forms: np.array([[b, q] for q, bs in enumerate(J) for b in bs]).T and the accumulator loop
    `rows = []; for q, bs in enumerate(J): rows.extend([b, q] for b in bs) | for b in bs: rows.append([b, q])` + np.array(rows).T"""
    out = []

    def elt_ok(elt, b, q, where):
        if not isinstance(elt, (ast.List, ast.Tuple)) or len(elt.elts) != 2:
            raise AnalysisError("query(): pair element %s is not a 2-list" % norm(elt))
        got = [norm(e) for e in elt.elts]
        if got == [b, q]:
            return True
        if got == [q, b]:
            return False
        raise AnalysisError("query(): pair element %s is neither [build, query] nor [query, build]" % norm(elt))

    def transposed(node):
        """np.array(<rows>)[.reshape(-1, 2)].T ; records in `shape2` whether the N x 2 shape is forced (an empty list of rows is otherwise a
        float array of shape (0,), and `.T` of that is not 2 x 0)"""
        p_ = parent(node)
        if not (isinstance(p_, ast.Call) and (dotted(p_.func) or "").split(".")[-1] in ("array", "asarray")):
            return False
        intd = any(k_.arg == "dtype" and str(norm(k_.value)) in ("int", "np.int64", "np.intp", "'int'", "np.int_") for k_ in p_.keywords)
        pp_ = parent(p_)
        forced = False
        if isinstance(pp_, ast.Attribute) and pp_.attr == "reshape" and isinstance(parent(pp_), ast.Call):
            rc = parent(pp_)
            shp = rc.args[0].elts if len(rc.args) == 1 and isinstance(rc.args[0], (ast.Tuple, ast.List)) else rc.args
            forced = [str(norm(a_)) for a_ in shp] == ["-1", "2"]
            pp_ = parent(rc)
        shape2.append(forced and intd)
        return isinstance(pp_, ast.Attribute) and pp_.attr == "T"
    shape2 = []
    for st in flow.stmts:
        if not (isinstance(st, ast.Assign) and isinstance(st.targets[0], ast.Name)):
            continue
        for comp in ast.walk(st.value):
            if isinstance(comp, ast.ListComp) and len(comp.generators) == 2 and calls_in(comp.generators[0].iter, "enumerate"):
                g0, g1 = comp.generators
                if not (isinstance(g0.target, ast.Tuple) and len(g0.target.elts) == 2 and isinstance(g1.target, ast.Name)):
                    raise AnalysisError("query(): comprehension over the jagged result has unexpected targets")
                qv, bl = norm(g0.target.elts[0]), norm(g0.target.elts[1])
                if norm(g1.iter) != bl or g0.ifs or g1.ifs:
                    raise AnalysisError("query(): inner generator of the pair comprehension does not run over the build points of one query point")
                out.append(dict(name=st.targets[0].id, jag=norm(calls_in(g0.iter, "enumerate")[0].args[0]), ok=elt_ok(comp.elt, g1.target.id, qv, comp),
                                transposed=transposed(comp), fact=norm(comp), node=comp, stmt=st))
    for loop in walk_no_nested(f.node):
        if not (isinstance(loop, ast.For) and isinstance(loop.iter, ast.Call) and dotted(loop.iter.func) == "enumerate" and len(loop.iter.args) == 1
                and isinstance(loop.target, ast.Tuple) and len(loop.target.elts) == 2):
            continue
        qv, bl = norm(loop.target.elts[0]), norm(loop.target.elts[1])
        acc = elt = b = None
        if len(loop.body) == 1 and isinstance(loop.body[0], ast.Expr) and isinstance(loop.body[0].value, ast.Call):
            c_ = loop.body[0].value
            if isinstance(c_.func, ast.Attribute) and c_.func.attr == "extend" and len(c_.args) == 1 and isinstance(c_.args[0], (ast.GeneratorExp, ast.ListComp)) \
                    and len(c_.args[0].generators) == 1 and not c_.args[0].generators[0].ifs and norm(c_.args[0].generators[0].iter) == bl \
                    and isinstance(c_.args[0].generators[0].target, ast.Name):
                acc, elt, b = norm(c_.func.value), c_.args[0].elt, c_.args[0].generators[0].target.id
        elif len(loop.body) == 1 and isinstance(loop.body[0], ast.For) and norm(loop.body[0].iter) == bl and isinstance(loop.body[0].target, ast.Name) \
                and len(loop.body[0].body) == 1 and isinstance(loop.body[0].body[0], ast.Expr) and isinstance(loop.body[0].body[0].value, ast.Call):
            c_ = loop.body[0].body[0].value
            if isinstance(c_.func, ast.Attribute) and c_.func.attr == "append" and len(c_.args) == 1:
                acc, elt, b = norm(c_.func.value), c_.args[0], loop.body[0].target.id
        if acc is None:
            raise AnalysisError("query(): loop over enumerate(%s) is not a recognised pair accumulation" % norm(loop.iter.args[0]))
        ds = flow.defs(acc, loop)
        if len(ds) != 1 or ds[0] == "param" or not (isinstance(ds[0], ast.Assign) and isinstance(ds[0].value, ast.List) and not ds[0].value.elts):
            raise AnalysisError("query(): the pair accumulator %s does not start as an empty list" % acc)
        uses = [st for st in flow.stmts if isinstance(st, ast.Assign) and isinstance(st.targets[0], ast.Name) and flow._order(st) > flow._order(loop)
                and any(isinstance(n_, ast.Name) and n_.id == acc for n_ in ast.walk(st.value))]
        uses = [st for st in uses if ds[0] in flow.defs(acc, st)]        # (the array may take the accumulator's name afterwards)
        if len(uses) != 1:
            raise AnalysisError("query(): the pair accumulator %s is not turned into one array" % acc)
        nm = [n_ for n_ in ast.walk(uses[0].value) if isinstance(n_, ast.Name) and n_.id == acc][0]
        out.append(dict(name=uses[0].targets[0].id, jag=norm(loop.iter.args[0]), ok=elt_ok(elt, b, qv, loop), transposed=transposed(nm),
                        fact="for %s in %s: %s" % (norm(loop.target), norm(loop.iter), norm(loop.body[0])[:100]), node=loop, stmt=uses[0]))
    if not out:
        raise AnalysisError("query(): construction of the pair array not recognised")
    for b_, s2 in zip(out, shape2):
        b_["shape2"] = s2
    return out


# metrics the scikit-learn trees can be built with (sklearn.neighbors.KDTree.valid_metrics / BallTree.valid_metrics, frozen): the two
# metrics GeoIndex offers
TREE_METRICS = {"BallTree": {"minkowski", "haversine"}, "KDTree": {"minkowski"}}


def rule_support(ctx):
    """Every (tree class, metric) combination the constructor accepts must be one the tree can be built with."""
    ctx.rule("C06.support", "T3 api", "GeoIndex builds the chosen tree class only with a metric that class supports")
    f = ctx.func(GEO, "GeoIndex.__init__")
    flow = Flow(f)
    classes = sorted({n_.id for st in flow.stmts if isinstance(st, ast.Assign) and str(norm(st.targets[0])) == "tree_class" and isinstance(st.value, ast.Name)
                      for n_ in [st.value] if n_.id in TREE_METRICS})
    if not classes:
        raise AnalysisError("GeoIndex.__init__: the choice of the tree class was not found")
    m = ctx.func(GEO, "GeoIndex._to_metric")
    metrics = sorted({const_value(c_.comparators[0]) for c_ in ast.walk(m.node) if isinstance(c_, ast.Compare) and str(norm(c_.left)) == "self.metric"
                      and isinstance(c_.comparators[0], ast.Constant)})
    # combinations the constructor handles specially (a guard that mentions both the tree class and the metric)
    special = [st for st in flow.stmts if isinstance(st, ast.If) and "metric" in str(norm(st.test)) and ("tree_class" in str(norm(st.test)) or "KDTree" in str(norm(st.test)))]
    bad = [(c_, mt_) for c_ in classes for mt_ in metrics if mt_ not in TREE_METRICS[c_]] if not special else []
    if special:
        raise AnalysisError("GeoIndex.__init__: special handling of a (tree class, metric) combination is not modelled: %s" % str(norm(special[0].test))[:80])
    ctx.ob("GeoIndex.__init__.tree_metric", not bad, "tree classes %s x metrics %s; unsupported: %s" % (classes, metrics, bad or "none"),
           "every combination is supported by scikit-learn (KDTree has no haversine metric: GeoIndex(lat, lon, metric='haversine', tree_class='KD') raises ValueError, "
           "so the answer of the great-circle query depends on the tree class)", node=f.node, func=f,
           witness=None if not bad else {"GeoIndex": "metric='haversine', tree_class='KD'", "raises": "ValueError: metric HaversineDistance64 is not valid for KDTree64"})


def rule_pairs(ctx):
    ctx.rule("C06.pairs", "T6", "row 0 = build index, row 1 = query index; distances flattened in the same query-major order")
    f = ctx.func(GEO, "GeoIndex.query")
    flow = Flow(f)
    builders = pair_builders(f, flow)
    for i_, b_ in enumerate(builders):
        ctx.ob("GeoIndex.query.pairs" + ("" if i_ == 0 else "#%d" % (i_ + 1)), b_["ok"] and b_["transposed"], b_["fact"] + ("" if b_["transposed"] else " (not transposed)"),
               "[[build, query] for query, builds in enumerate(jagged) for build in builds].T", node=b_["node"], func=f)
    jags = set(b_["jag"] for b_ in builders)
    forced_all = [b_.get("shape2") for b_ in builders]
    ctx.ob("GeoIndex.query.empty_shape", all(forced_all), "every pair array is built as np.array(rows, dtype=int).reshape(-1, 2).T: %s" % forced_all,
           "an empty result is an integer array of shape (2, 0) like every other result (np.array([]).T is a float array of shape (0,): the documented lat[pairs[0]] raised IndexError)",
           node=builders[0]["node"], func=f, witness=None if all(forced_all) else {"no pair within r": "pairs.shape == (0,), dtype float64"})
    # distances: hstack over the jagged distances in order
    okd = False
    factd = "no hstack of the jagged distances"
    for c in calls_in(f.node, ("hstack", "concatenate")):
        a = c.args[0] if c.args else None
        it = None
        if isinstance(a, ast.ListComp) and len(a.generators) == 1 and not a.generators[0].ifs and norm(a.elt) == norm(a.generators[0].target):
            it = a.generators[0].iter
        elif isinstance(a, ast.Call) and dotted(a.func) in ("list", "tuple") and len(a.args) == 1:
            it = a.args[0]
        elif isinstance(a, ast.Name):
            it = a
        if it is not None:
            factd = norm(c)
            # both jagged arrays come from the same query_radius call, unpacked in (indices, distances) order
            for st in flow.stmts:
                if isinstance(st, ast.Assign) and isinstance(st.targets[0], ast.Tuple) and len(st.targets[0].elts) == 2:
                    names = [norm(e) for e in st.targets[0].elts]
                    if names[0] in jags and names[1] == norm(it):
                        src = flow.resolve(st.value, at=st)
                        okd = bool(calls_in(src, "query_radius")) or "query_radius" in norm(src)
    # pairs and distances keep the order in which they were flattened: nothing re-binds / re-orders one of them alone
    reorder, inplace = [], []
    for b_ in builders:
        pn = b_["name"]
        rebinds = [st for st in flow.stmts if isinstance(st, (ast.Assign, ast.AugAssign)) and
                   any(isinstance(t_, ast.Name) and t_.id == pn for t_ in (st.targets if isinstance(st, ast.Assign) else [st.target]))
                   and st is not b_["stmt"] and not any(st is o_["stmt"] for o_ in builders)]
        reorder += [norm(st)[:80] for st in rebinds if any(isinstance(n_, ast.Call) and (dotted(n_.func) or "").split(".")[-1] in
                                                           ("lexsort", "argsort", "sort", "unique", "flip", "roll", "permutation", "shuffle")
                                                           for n_ in ast.walk(st.value)) or isinstance(st.value, ast.Subscript)]
        inplace += [norm(c_)[:60] for c_ in calls_in(f.node) if isinstance(c_.func, ast.Attribute) and c_.func.attr == "sort" and norm(c_.func.value) == pn]
    if True:
        ctx.ob("GeoIndex.query.order", not reorder and not inplace, "re-orderings of the pair columns: %s" % ((reorder + inplace) or "none"),
               "pair k and distance k describe the same pair: the pair array is not sorted / permuted after it was flattened", node=f.node, func=f)
    ctx.ob("GeoIndex.query.distances", okd, factd, "np.hstack over the jagged distances of the same query_radius result, in query order, "
           "unpacked as (indices, distances)", node=f.node, func=f)


def rule_empty(ctx):
    ctx.rule("C06.empty", "lint", "emptiness of the pair array is tested by size (the pair (0, 0) is a result)")
    f = ctx.func(GEO, "GeoIndex.query")
    n = 0
    for st in walk_no_nested(f.node):
        if isinstance(st, ast.If) and any(isinstance(s, ast.Return) for s in st.body):
            k = emptiness_test_kind(st.test)
            if k is None:
                continue
            n += 1
            ret = [s for s in st.body if isinstance(s, ast.Return)][0]
            arity = len(ret.value.elts) if isinstance(ret.value, ast.Tuple) else 1
            ctx.ob("GeoIndex.query.empty_test", k == "size" and arity == 2, "if %s: %s" % (norm(st.test), norm(ret)),
                   "size test, returning (pairs, distances) like the non-empty path", node=st, func=f)
    if n == 0:
        # no special case at all is fine as well: nothing to check, but keep the instance count honest
        ctx.ob("GeoIndex.query.empty_test", True, "no emptiness special case", "size test or none", node=f.node, func=f)


NARROW = ("float32", "float16", "half", "single", "int32", "int64", "int16", "'f4'", "'f2'", "'i4'", "'i8'")


def rule_metric(ctx):
    ctx.rule("C06.metric", "T3+T6", "minkowski -> cartesian metres from geocentric2cart(earth_radius, lat, lon); haversine -> radians of [lat, lon]")
    # the default metric is the chord, whatever tree is used: self.metric under `metric is None` is the constant 'minkowski'
    ini = ctx.func(GEO, "GeoIndex.__init__")
    iflow = Flow(ini)
    mp = [p_ for p_ in ini.params if p_ == "metric"]
    stores = [st for st in iflow.stmts if isinstance(st, ast.Assign) and len(st.targets) == 1 and norm(st.targets[0]) == "self.metric"]
    if mp and stores:
        asm = {"metric is None": True, "metric is not None": False, "metric": False, "not metric": True, "metric == None": True}
        live = [st for st in stores if iflow.live_under(st, asm)]
        vals = sorted({str(norm(iflow.resolve_under(st.value, asm, at=st, stop=("tree_class",)))).replace('"', "'") for st in live})
        ctx.ob("GeoIndex.__init__.default_metric", vals == ["'minkowski'"], "metric=None -> self.metric = %s" % vals,
               "'minkowski' for every tree class: the default metric measures the chord; Ball and KD trees give the same result", node=stores[0], func=ini,
               witness=None if vals == ["'minkowski'"] else {"GeoIndex(lat, lon).query(..., r='1000 km')": "pairs selected by the great-circle arc"})
    else:
        raise AnalysisError("GeoIndex.__init__: the store into self.metric was not found")
    f = ctx.func(GEO, "GeoIndex._to_metric")
    lat, lon = f.params[1], f.params[2]
    arms = {}
    for st in walk_no_nested(f.node):
        if isinstance(st, ast.If) and isinstance(st.test, ast.Compare) and norm(st.test.left) == "self.metric":
            m = const_value(st.test.comparators[0])
            rets = [s for s in st.body if isinstance(s, ast.Return)]
            if rets:
                arms[m] = rets[0]
    flow = Flow(f)
    for m, want in (("minkowski", "np.column_stack(geocentric2cart(earth_radius, %s, %s))" % (lat, lon)),
                    ("haversine", None)):
        r = arms.get(m)
        if r is None:
            raise AnalysisError("_to_metric has no branch for %s" % m)
        v = flow.resolve(r.value, at=r)
        t = norm(v)
        narrow = [x for x in NARROW if x in t]
        if m == "minkowski":
            # np.column_stack(G) or np.column_stack((G[0], G[1], G[2])) with G = geocentric2cart bound to (earth_radius, lat, lon)
            from ..calls import bind_args
            g = ctx.func("typhon/geodesy.py", "geocentric2cart")
            if narrow:
                ctx.ob("GeoIndex._to_metric[%s]" % m, False, "returns %s  [narrowing cast %s]" % (t, narrow), want + " in double precision", node=r, func=f)
                continue
            if not (isinstance(v, ast.Call) and (dotted(v.func) or "").split(".")[-1] == "column_stack" and len(v.args) == 1 and not v.keywords):
                raise AnalysisError("_to_metric[minkowski]: the returned value %s is not a column_stack" % t[:80])
            a_ = v.args[0]
            if isinstance(a_, (ast.Tuple, ast.List)) and len(a_.elts) == 3 and all(isinstance(e_, ast.Subscript) for e_ in a_.elts) \
                    and len(set(norm(e_.value) for e_ in a_.elts)) == 1:
                idx = [const_value(e_.slice) for e_ in a_.elts]
                if sorted(idx) != [0, 1, 2]:
                    raise AnalysisError("_to_metric[minkowski]: columns %s" % idx)
                order_ok = idx == [0, 1, 2]
                a_ = a_.elts[0].value
            else:
                order_ok = True
            if not (isinstance(a_, ast.Call) and (dotted(a_.func) or "").split(".")[-1] == "geocentric2cart"):
                raise AnalysisError("_to_metric[minkowski]: the stacked columns %s are not the result of geocentric2cart" % norm(a_)[:80])
            bound = {k_: str(norm(x_)) for k_, x_ in bind_args(a_, g).items()}
            ok = order_ok and bound == dict(zip(g.params, ("earth_radius", lat, lon))) and not narrow
        else:
            def _last(c_):
                return (dotted(c_.func) or "").split(".")[-1] if isinstance(c_, ast.Call) else None

            def _cols(c_):
                """[columns] of a column_stack of a two-element list / tuple"""
                if _last(c_) == "column_stack" and len(c_.args) == 1 and isinstance(c_.args[0], (ast.List, ast.Tuple)) and len(c_.args[0].elts) == 2:
                    return list(c_.args[0].elts)
                return None
            RAD = ("radians", "deg2rad")
            cols = None
            if _last(v) in RAD and len(v.args) == 1 and _cols(v.args[0]) is not None:
                cols = [str(norm(e_)) for e_ in _cols(v.args[0])]
            elif _cols(v) is not None and all(_last(e_) in RAD and len(e_.args) == 1 for e_ in _cols(v)):
                cols = [str(norm(e_.args[0])) for e_ in _cols(v)]
            if cols is None:
                if narrow:
                    cols = []
                else:
                    raise AnalysisError("_to_metric[haversine]: the returned value %s is not radians of the stacked (lat, lon) columns" % t[:80])
            ok = cols == [lat, lon] and not narrow
            want = "np.radians(np.column_stack([%s, %s]))  (latitude first: sklearn's haversine contract)" % (lat, lon)
        ctx.ob("GeoIndex._to_metric[%s]" % m, ok, "returns %s%s" % (t, ("  [narrowing cast %s]" % narrow) if narrow else ""),
               want + " in double precision", node=r, func=f)


def rule_complete(ctx):
    ctx.rule("C06.complete", "T1+T2", "every answer of query() comes from the tree query of the current coordinates: no early result, no state kept between calls")
    f = ctx.func(GEO, "GeoIndex.query")
    flow = Flow(f)
    cfg = flow.cfg
    tq = [c for c in calls_in(f.node, "query_radius")]
    if not tq:
        raise AnalysisError("query(): tree query not found")
    tn = set(cfg.nodes(enclosing_stmt(tq[0])))
    early = [r for r in flow.stmts if isinstance(r, ast.Return) and not all(cfg.dominated_by(n, tn) for n in cfg.nodes(r))]
    ctx.ob("GeoIndex.query.no_shortcut", not early, "returns not dominated by self.tree.query_radius(...): %s" % ([("line %d: %s" % (r.lineno, norm(r)[:50])) for r in early] or "none"),
           "no result is returned before the tree was asked (a bounding-box pre-test in degrees is wrong at the date line and near the poles)",
           node=early[0] if early else tq[0], func=f)
    # the points handed to the tree are the conversion of the current arguments
    pts = tq[0].args[0] if tq[0].args else None
    v = flow.resolve(pts, at=tq[0], depth=3, stop=(f.params[1], f.params[2])) if pts is not None else None
    # turning a list / a single number into an array is the identity on the coordinates

    class _Coerce(ast.NodeTransformer):
        def visit_Call(self, n_):
            n_ = self.generic_visit(n_)
            if (dotted(n_.func) or "").split(".")[-1] in ("atleast_1d", "asarray", "array", "asanyarray") and n_.args and isinstance(n_.func, ast.Attribute) \
                    and isinstance(n_.func.value, ast.Name) and n_.func.value.id in ("np", "numpy"):
                return n_.args[0]
            return n_

        def visit_IfExp(self, n_):
            n_ = self.generic_visit(n_)
            if "isinstance(" in str(norm(n_.test)) and str(norm(n_.body)) == str(norm(n_.orelse)):
                return n_.body
            return n_
    if v is not None:
        from ..core import clone as _clone
        v = ast.fix_missing_locations(_Coerce().visit(_clone(v)))
    # (the coordinates may have been re-bound to their array form first: lat = np.atleast_1d(np.asarray(lat)) under an isinstance test)
    okp = v is not None and norm(v) == "self._to_metric(%s, %s)" % (f.params[1], f.params[2])
    ctx.ob("GeoIndex.query.points", okp, "tree queried with %s" % (norm(v) if v is not None else None), "self._to_metric(lat, lon) of this call's arguments", node=tq[0], func=f)
    stores = []
    for q in ("GeoIndex.query", "GeoIndex._to_metric"):
        g = ctx.func(GEO, q)
        for st in walk_no_nested(g.node):
            if isinstance(st, (ast.Assign, ast.AugAssign)):
                for t in (st.targets if isinstance(st, ast.Assign) else [st.target]):
                    if dotted(t) and dotted(t).startswith("self."):
                        stores.append("%s: %s" % (q, norm(st)[:60]))
            if isinstance(st, ast.Compare) and any(isinstance(o, (ast.Is, ast.IsNot)) for o in st.ops) \
                    and not any(isinstance(c, ast.Constant) and c.value is None for c in [st.left] + st.comparators):
                stores.append("%s: identity comparison %s" % (q, norm(st)))
    ctx.ob("GeoIndex.query.stateless", not stores, "state written / object identity used while querying: %s" % (stores or "none"),
           "query() and _to_metric() keep nothing between calls (a cache keyed by object identity answers for stale coordinates after an in-place update)",
           node=f.node, func=f)


SPLIT_TABLE = ["5 km", "5000 m", "3.1 miles", "5km", " 5 km ", "  2.5   ft ", "1e3 m", "1E3m", "1e-3 km", ".5 km", ".25miles", "5. km", "-1 km", "+2.5e-1 nm",
               "10 nautical miles", "3 e", "5 e3", "2 m2", "1_000 m", "7", "12.5", "km", "m", "", " ", "e", "1e", "inf km", "5 in", "1 000 m", "0x10 m", "1,5 km",
               "5\tkm", "5 km/h", "100 cm", "1.5e+2 yd", "3.4e-27 frobnitzem ", "2GB", "spam sandwhiches", "9001"]


def _split_reference(value):
    """the specification: the number is float() of the LONGEST prefix float() accepts, the unit is the rest without surrounding blanks;
    no such prefix: (0, the whole string stripped)"""
    for k in range(len(value), 0, -1):
        try:
            return float(value[:k]), value[k:].strip()
        except ValueError:
            continue
    return 0, value.strip()


def rule_split(ctx):
    """split_units: the number is what float() reads from the longest prefix it accepts; the unit is the rest, stripped"""
    ctx.rule("C06.split", "T4 (finite table)", "split_units(s) = (float of the longest prefix of s that float() accepts, the rest stripped) on a table of radius "
             "spellings, read with a small evaluator for string-scanning code; a helper outside that class (regular expressions ...) gets no verdict")
    from ..strmachine import call
    f = ctx.func("typhon/utils/common.py", "split_units")
    wrong = None
    same = lambda a, b: (a == b or (a != a and b != b))          # nan
    helpers = {q: fn for q, fn in f.module.funcs.items() if fn.cls is None and q != "split_units"}      # private helpers a restructured version may call
    for sv in SPLIT_TABLE:
        got = call(f, sv, funcs=helpers)
        want = _split_reference(sv)
        if not (isinstance(got, tuple) and len(got) == 2 and same(got[0], want[0]) and type(got[0]) in (int, float) and got[1] == want[1]):
            wrong = {"split_units(%r)" % sv: repr(got), "expected": repr(want)}
            break
    ctx.ob("split_units.table", wrong is None, "%d strings evaluated%s" % (len(SPLIT_TABLE), "" if wrong is None else "; first difference: %s" % wrong),
           "number = float(longest prefix float() reads), unit = the rest without surrounding blanks, (0, stripped string) when there is no number",
           node=f.node, func=f, witness=wrong, complete=True)
    ctx.models.append({"rule": "C06.split", "cases": len(SPLIT_TABLE), "domain": "table of radius spellings (numbers with sign, fraction, exponent, blanks; units; no number)", "exhaustive": False})


def rule_convert_table(ctx):
    """to_kilometers evaluated on a table of radius spellings: the same length whatever the unit it is written in"""
    ctx.rule("C06.convert", "T4 (finite table)", "to_kilometers(s) = number x kilometres per unit for every listed spelling of every unit, a bare number in kilometres, a number "
             "passed through; unknown units and a missing length raise ValueError - evaluated with the evaluator for string helpers (with split_units as the source defines it)")
    from ..strmachine import call, Machine
    f = ctx.func(GEO, "to_kilometers")
    sp = ctx.func("typhon/utils/common.py", "split_units")
    mod = ctx.mod(GEO)
    table = None
    for st in mod.tree.body:
        if isinstance(st, ast.Assign) and len(st.targets) == 1 and norm(st.targets[0]) == "UNITS_CONVERSION_FACTORS":
            table = Machine().ev(st.value, {})
    globs = {"UNITS_CONVERSION_FACTORS": table} if table is not None else {}
    for st in mod.tree.body:
        # other module-level constants a restructured version may introduce (spelling -> factor dictionaries ...)
        if isinstance(st, ast.Assign) and len(st.targets) == 1 and isinstance(st.targets[0], ast.Name) and st.targets[0].id not in globs:
            try:
                globs[st.targets[0].id] = Machine(globs=globs).ev(st.value, dict(globs))
            except AnalysisError:
                pass
    funcs = {"split_units": sp}
    for q, fn in mod.funcs.items():
        if fn.cls is None and q not in ("to_kilometers",):
            funcs.setdefault(q, fn)             # private helpers of the module
    wrong = None
    ncases = 0
    rel = lambda a, b: a == b or (isinstance(a, (int, float)) and isinstance(b, (int, float)) and abs(a - b) <= 1e-12 * max(abs(a), abs(b)))
    for unit, (km, spellings) in SI_KM.items():
        for spelling in sorted(spellings):
            for num, txt in ((5.0, "5"), (0.75, "0.75"), (1234.5, "1234.5"), (1500.0, "1500"), (3.1, "3.1"), (2500.0, "2.5e3")):
                for sep in (" ", ""):
                    sv = txt + sep + spelling
                    got = call(f, sv, funcs=funcs, _globals=globs)
                    accepted = any(spelling in row[0] for row in (table or []) if isinstance(row, (list, tuple)) and row) if table else None
                    ncases += 1
                    if accepted is False:
                        continue        # a spelling the source does not list (British forms): which spellings are supported is C06.units' matter
                    want = num * km
                    if not rel(got, want) and wrong is None:
                        wrong = {"to_kilometers(%r)" % sv: repr(got), "expected": want}
    for v, want in ((7, 7), (2.5, 2.5), ("12", 12.0), ("0.5", 0.5)):
        got = call(f, v, funcs=funcs, _globals=globs)
        ncases += 1
        if not rel(got, want) and wrong is None:
            wrong = {"to_kilometers(%r)" % (v,): repr(got), "expected": want}
    for v in ("5 parsecs", "km", "", "0 km", None, [5]):
        got = call(f, v, funcs=funcs, _globals=globs)
        ncases += 1
        if got != ("raises", "ValueError") and wrong is None:
            wrong = {"to_kilometers(%r)" % (v,): repr(got), "expected": "ValueError"}
    ctx.ob("to_kilometers.table", wrong is None, "%d radius spellings evaluated%s" % (ncases, "" if wrong is None else "; first difference: %s" % wrong),
           "the length in kilometres does not depend on the unit it is written in (exact product number x factor, no rounding)", node=f.node, func=f, witness=wrong, complete=True)
    ctx.models.append({"rule": "C06.convert", "cases": ncases, "domain": "6 numbers x every listed spelling of 6 units x with / without blank; bare numbers; invalid radii", "exhaustive": False})


def run(ctx):
    from .C02 import _attempt_table, _decided, apply_decided
    if _attempt_table(ctx, lambda c_, rid_: (rule_convert_table(c_), True)[1], "C06.convert", [(GEO, "to_kilometers"), ("typhon/utils/common.py", "split_units")]):
        _decided(ctx, "C06.convert", ("to_kilometers",), ("to_kilometers.convert", "to_kilometers.number", "to_kilometers.passthrough"))
    for r in (rule_units, rule_split, rule_scale, rule_deshuffle, rule_pairing, rule_pairs, rule_empty, rule_metric, rule_complete, rule_support):
        ctx.attempt(r, ctx)
    apply_decided(ctx)
    from .C07 import rule_forward_sphere
    ctx.attempt(rule_forward_sphere, ctx, "C06.cartesian")
    from ..early import rule_early_table
    rule_early_table(ctx, "C06.answer", [(GEO, "GeoIndex.query", ("query_radius",), "the tree query", ())])
    from ..purity import rule_pure
    ctx.attempt(rule_pure, ctx, "C06.pure", [(GEO, "GeoIndex.query"), (GEO, "GeoIndex._to_metric"), (GEO, "to_kilometers")])
    # the caller's arguments (arrays, filter / fill dictionaries) are not modified: an in-place update makes the next call on the same objects wrong
    from ..purity import rule_pure as _rule_args
    ctx.attempt(_rule_args, ctx, "C06.args", [('typhon/geographical.py', 'GeoIndex.query'), ('typhon/geographical.py', 'GeoIndex.__init__'), ('typhon/geographical.py', 'GeoIndex._to_metric')], "the caller's arguments are not modified in place")
