"""C13 - compact collocation data stay consistent under expand, collapse and concat.

Provenance rules (T6) over _create_return, collapse, expand, concat_collocations and the
pseudo-group helpers: which index array builds the inverse map and selects the data, which
pair row addresses which axis of the bin matrix, which offset shifts which row, writer/reader
agreement of the `group/name` convention; plus the read-before-increment order of the row
counter (T1) and the default collapser table (T3).  xarray semantics are not decided.
"""
import ast
from ..core import AnalysisError, norm, dotted, calls_in, walk_no_nested, parent, enclosing_stmt, const_value
from ..flow import Flow
from ..cfg import stmt_before

COL = "typhon/collocations/collocator.py"
COM = "typhon/collocations/common.py"
UTL = "typhon/utils/common.py"
EXPECT = {"C13.compact": 5, "C13.rows": 2, "C13.binner": 6, "C13.collapsers": 4, "C13.expand": 2, "C13.groups": 5, "C13.concat": 5, "C13.pure": 3}


def _assigns(flow):
    out = {}
    for st in flow.stmts:
        if isinstance(st, ast.Assign) and len(st.targets) == 1 and isinstance(st.targets[0], ast.Name):
            out.setdefault(st.targets[0].id, []).append(st)
    return out


def rule_compact(ctx):
    ctx.rule("C13.compact", "T6", "_create_return: the unique index array that builds the inverse map is the one that selects the data")
    from ..flow import elementwise
    from ..core import clone
    f = ctx.func(COL, "Collocator._create_return")
    flow = Flow(f)
    OP = "original_pairs"
    IDX = "_i"
    # the loop over the two datasets, in any parallel spelling (enumerate / zip / index loop): everything below is
    # expressed in one common index _i
    lp = m = None
    for st in flow.stmts:
        if isinstance(st, ast.For) and calls_in(st, "unique"):
            m_ = elementwise(st.target, st.iter, IDX)
            if m_ is not None:
                lp, m = st, m_
                break
    if lp is None:
        if not calls_in(f.node, "unique"):
            ctx.ob("_create_return.unique", False, "no unique() call at all", "the distinct original indices of row i are computed with unique(): any order of the pairs, every repetition removed",
                   node=f.node, func=f)
            return
        raise AnalysisError("_create_return: loop over the datasets (enumerate / zip / index) not found")
    loopvars = tuple(m)

    def R(e, at, stop=()):
        """e at statement `at`, temporaries looked through, loop variables replaced by their element-wise forms"""
        e = flow.resolve(e, at=at, depth=4, stop=tuple(stop) + loopvars + (OP,))

        class S(ast.NodeTransformer):
            def visit_Name(self, n):
                return clone(m[n.id]) if isinstance(n.ctx, ast.Load) and n.id in m else n
        e = ast.fix_missing_locations(S().visit(clone(e)))
        return flow.resolve(e, at=lp, depth=2, stop=tuple(stop) + (OP, IDX))
    DS = "[primary, secondary][%s]" % IDX
    NM = "[primary_name, secondary_name][%s]" % IDX
    ROW = "%s[%s]" % (OP, IDX)
    # U := unique(original_pairs[i])
    ucalls = [c for c in calls_in(lp, "unique") if c.args and str(norm(R(c.args[0], c))) == ROW]
    if not ucalls:
        uq = [norm(c)[:60] for c in calls_in(lp, "unique")]
        ctx.ob("_create_return.unique", False, "no `unique(original_pairs[i])` inside the loop (found %s)" % (uq or "no unique call at all"),
               "the distinct original indices of row i are computed with unique(): any order of the pairs, every repetition removed", node=lp, func=f)
        return
    ufuns = set(dotted(c.func) for c in ucalls)
    UEX = set(str(norm(R(c, c))) for c in ucalls)
    ctx.ob("_create_return.unique", ufuns <= {"pd.unique", "pandas.unique", "np.unique", "numpy.unique"} and len(UEX) == 1, "%s" % sorted(UEX),
           "the distinct original indices of row i (any order, used consistently below)", node=ucalls[0], func=f)
    if len(UEX) != 1:
        return
    UEX = list(UEX)[0]
    # inverse map M: M = empty(u.max()+1); M[u] = arange(u.size)
    store = None
    for st in flow.stmts:
        if isinstance(st, ast.Assign) and isinstance(st.targets[0], ast.Subscript) and isinstance(st.targets[0].value, ast.Name) \
                and any(st is x for x in ast.walk(lp)) and str(norm(R(st.targets[0].slice, st))) == UEX:
            store = st
    okm = False
    M = None
    if store is not None:
        M = st_name = store.targets[0].value.id
        v = str(norm(R(store.value, store))).replace(" ", "")
        ux = UEX.replace(" ", "")
        okm = v in ("np.arange(%s.size)" % ux, "np.arange(len(%s))" % ux, "np.arange(%s.shape[0])" % ux)
        mdefs = [d for d in flow.defs(M, store) if d != "param"]
        okm = okm and len(mdefs) == 1 and isinstance(mdefs[0], ast.Assign) and ("%s.max() + 1" % UEX) in str(norm(R(mdefs[0].value, mdefs[0])))
    ctx.ob("_create_return.inverse_map", okm, "%s" % (norm(store) if store is not None else "no store M[unique] = arange"),
           "M = empty(unique.max() + 1); M[unique] = arange(unique.size)", node=store or ucalls[0], func=f)
    # pairs row: M[original_pairs[i]] appended
    app = [c for c in calls_in(lp, "append")]
    okp = False
    fact = None
    for c in app:
        if not c.args:
            continue
        fact = str(norm(R(c.args[0], c, stop=(M,) if M else ())))
        if M and fact == "%s[%s]" % (M, ROW):
            okp = True
    ctx.ob("_create_return.pair_row", okp, "appended pair row = %s" % fact, "M[original_pairs[i]] - row i translated with map i", node=app[0] if app else lp, func=f)
    # data selection
    sel = None
    for st in flow.stmts:
        if isinstance(st, ast.Assign) and isinstance(st.targets[0], (ast.Subscript, ast.Name)) and calls_in(st.value, "isel") and any(st is x for x in ast.walk(lp)):
            c = calls_in(st.value, "isel")[0]
            kw = {k.arg: k.value for k in c.keywords}
            if "collocation" not in kw:
                continue
            if isinstance(st.targets[0], ast.Subscript):
                key_e, key_at = st.targets[0].slice, st
            else:
                # the selection is worked on under a local name and stored under the dataset's name afterwards
                tname = st.targets[0].id
                later = [s2 for s2 in flow.stmts if isinstance(s2, ast.Assign) and isinstance(s2.targets[0], ast.Subscript) and any(s2 is x for x in ast.walk(lp))
                         and flow._order(s2) > flow._order(st) and isinstance(s2.targets[0].value, ast.Name) and s2.targets[0].value.id != tname
                         and any(isinstance(n_, ast.Name) and n_.id == tname for n_ in ast.walk(s2.value))]
                if len(later) != 1:
                    raise AnalysisError("_create_return: the selection %s is not stored under one key afterwards (%d stores)" % (tname, len(later)))
                key_e, key_at = later[0].targets[0].slice, later[0]
            sel = (st, str(norm(R(key_e, key_at))), str(norm(R(c.func.value, st))), str(norm(R(kw["collocation"], st))), kw["collocation"])
            break
    if sel is None:
        raise AnalysisError("_create_return: the selection output[name] = dataset.isel(collocation=...) was not found")
    def _as_list_display(t_):
        """(a, b)[i] and [a, b][i] select alike"""
        try:
            e_ = ast.parse(t_, mode="eval").body
        except SyntaxError:
            return t_
        for n_ in ast.walk(e_):
            if isinstance(n_, ast.Subscript) and isinstance(n_.value, ast.Tuple):
                n_.value = ast.List(elts=n_.value.elts, ctx=ast.Load())
        return ast.unparse(e_)
    sel = (sel[0], _as_list_display(sel[1]), _as_list_display(sel[2])) + tuple(sel[3:])
    ctx.ob("_create_return.order", sel[2] == DS and sel[1] == NM, "output[%s] = %s.isel(...)" % (sel[1], sel[2]),
           "[primary, secondary] paired with [primary_name, secondary_name]", node=lp, func=f)
    oks = sel[3] == UEX
    redef = None
    if isinstance(sel[4], ast.Name):
        ds_ = flow.defs(sel[4].id, sel[0])
        if len(ds_) > 1:
            oks = False
            redef = [norm(d)[:60] for d in ds_ if not isinstance(d, str)]
    ctx.ob("_create_return.selection", oks, ("output[%s] = %s.isel(collocation=%s)" % sel[1:4]) + ((" [index array re-bound on some path: %s]" % redef) if redef else ""),
           "output[names[i]] = dataset_i.isel(collocation=<the same unique array>)", node=sel[0], func=f)


def rule_rows(ctx):
    ctx.rule("C13.rows", "T1", "_rows_for_secondaries reads the running count before incrementing it, per reference index")
    f = ctx.func(COM, "_rows_for_secondaries")
    flow = Flow(f)
    loops = [st for st in flow.stmts if isinstance(st, ast.For)]
    if not loops:
        raise AnalysisError("_rows_for_secondaries: loop not found")
    lp = loops[0]
    from ..flow import elementwise
    binds = elementwise(lp.target, lp.iter)
    if binds is None:
        # not a walk over the pairs one by one; is there at least a running count kept PER reference point (an array indexed by the
        # reference index)?  Without one the row of a pair cannot depend on all earlier pairs of the same reference point.
        per_ref = [n_ for n_ in walk_no_nested(lp) if isinstance(n_, ast.Subscript) and any(
            isinstance(x_, ast.Subscript) and norm(x_.value) == f.params[0] for x_ in ast.walk(n_.slice))]
        if not per_ref:
            ctx.ob("_rows_for_secondaries.order", False, "loop %s keeps no count indexed by the reference index (rows derived from neighbouring pairs only)" % norm(lp.iter),
                   "rows[k] = number of EARLIER pairs with the same reference point, whatever the order of the pair list", node=lp, func=f)
            return
        raise AnalysisError("_rows_for_secondaries: loop header %s is not an element-wise iteration" % norm(lp.iter))
    arg = f.params[0]
    pvars = [k for k, v in binds.items() if norm(v) == "%s[_i]" % arg]
    ivars = [k for k, v in binds.items() if norm(v) == "_i"]
    if len(pvars) != 1:
        ctx.ob("_rows_for_secondaries.position", False, "loop over %s" % norm(lp.iter), "one output row per pair, in pair order: the loop runs over the argument", node=lp, func=f)
        return
    p = pvars[0]
    read = inc = None
    for k, st in enumerate(lp.body):
        if isinstance(st, ast.Assign) and isinstance(st.value, ast.Subscript) and norm(st.value.slice) == p:
            read = (k, st)
        if isinstance(st, ast.AugAssign) and isinstance(st.op, ast.Add) and isinstance(st.target, ast.Subscript) \
                and norm(st.target.slice) == p and norm(st.value) == "1":
            inc = (k, st)
    if read is None or inc is None:
        raise AnalysisError("_rows_for_secondaries: the read `rows[k] = count[p]` / the increment `count[p] += 1` were not found in the loop")
    ok = read[0] < inc[0] and norm(read[1].value.value) == norm(inc[1].target.value)
    ctx.ob("_rows_for_secondaries.order", ok, "read: %s ; increment: %s" % (norm(read[1]), norm(inc[1])),
           "rows[k] = count[p] is read BEFORE count[p] += 1 (rows start at 0, consecutive per reference point)", node=lp, func=f)
    # the output position advances once per element
    tgt = read[1].targets[0]
    pos = norm(tgt.slice) if isinstance(tgt, ast.Subscript) else None
    ctr = [st for st in lp.body if isinstance(st, ast.AugAssign) and isinstance(st.target, ast.Name) and isinstance(st.op, ast.Add) and norm(st.value) == "1"]
    if pos in ivars:
        pos_ok = not any(c.target.id == pos for c in ctr)
    else:
        pos_ok = len([c for c in ctr if c.target.id == pos]) == 1
        if pos_ok:
            # the manual counter starts at 0 before the loop
            init = [d for d in flow.defs(pos, lp) if d != "param" and not any(d is x for x in ast.walk(lp))]
            pos_ok = len(init) == 1 and isinstance(init[0], ast.Assign) and norm(init[0].value) == "0"
    ctx.ob("_rows_for_secondaries.position", pos_ok, "loop over %s, output %s, counters %s" % (norm(lp.iter), norm(tgt), [norm(c) for c in ctr]),
           "one output row per pair, in pair order", node=lp, func=f)


def rule_binner(ctx):
    ctx.rule("C13.binner", "T6", "collapse: reference / partner rows are complementary; bin matrix [row-in-bin, reference index], NaN filled")
    f = ctx.func(COM, "collapse")
    flow = Flow(f)
    A = _assigns(flow)
    ri = A.get("reference_index", [None])[-1]
    okri = ri is not None and norm(ri.value) in ("groups[0] != reference", "reference != groups[0]")
    prim = sec = None
    for n, sts in A.items():
        v = norm(sts[-1].value)
        if v == "pairs[int(reference_index)]":
            prim = n
        if v in ("pairs[int(not reference_index)]", "pairs[1 - int(reference_index)]"):
            sec = n
    ctx.ob("collapse.rows_of_pairs", okri and prim is not None and sec is not None,
           "reference_index = %s; reference row -> %s, partner row -> %s" % (norm(ri.value) if ri else None, prim, sec),
           "reference row = pairs[int(groups[0] != reference)], partner row = the other one", node=ri or f.node, func=f)
    if prim is None or sec is None:
        return
    # rows_in_bins computed from the reference row on every path
    ROWFN = ("_rows_for_secondaries", "_rows_for_secondaries_numba")

    def row_callee(call, at_):
        """names of the row-assignment functions a call may invoke (through a local chosen on several paths)"""
        fn_ = call.func
        if isinstance(fn_, ast.Name) and fn_.id not in ROWFN:
            vals_ = [flow._def_value(d_, fn_.id) for d_ in flow.defs(fn_.id, at_) if d_ != "param"]
            if vals_ and all(v_ is not None and (dotted(v_) or "").split(".")[-1] in ROWFN for v_ in vals_):
                return True
            return False
        return (dotted(fn_) or "").split(".")[-1] in ROWFN
    rdefs = [st for st in flow.stmts if isinstance(st, ast.Assign) and isinstance(st.targets[0], ast.Name) and isinstance(st.value, ast.Call) and row_callee(st.value, st)]
    if not rdefs:
        raise AnalysisError("collapse: no assignment from _rows_for_secondaries(...) found")
    rname = rdefs[0].targets[0].id if rdefs else None
    # every definition of that name counts (a vectorised "equivalent" is only equivalent for sorted reference indices)
    rdefs = [st for st in flow.stmts if isinstance(st, ast.Assign) and isinstance(st.targets[0], ast.Name) and st.targets[0].id == rname]
    bad = [norm(st)[:90] for st in rdefs if not (isinstance(st.value, ast.Call) and row_callee(st.value, st)
                                                and [norm(a) for a in st.value.args] == [prim])]
    ctx.ob("collapse.rows_in_bins", bool(rdefs) and not bad, "%d definitions; not from the reference row: %s" % (len(rdefs), bad or "none"),
           "rows_in_bins = _rows_for_secondaries(<reference row>) on every path (python and numba variant)", node=rdefs[0] if rdefs else f.node, func=f)
    # the bin matrix is what the collapser functions receive; its allocation is found through aliases
    capp = None
    for st in flow.stmts:
        if isinstance(st, ast.For) and isinstance(st.iter, ast.Call) and isinstance(st.iter.func, ast.Attribute) and st.iter.func.attr == "items" and not st.iter.args \
                and (norm(st.iter.func.value) == "collapser" or (isinstance(st.iter.func.value, ast.Dict) and {"mean", "std", "number"} <= {
                    const_value(k_) for k_ in st.iter.func.value.keys if isinstance(k_, ast.Constant)})
                     or (isinstance(st.iter.func.value, ast.Name) and any(
                         isinstance(d_, ast.Assign) and isinstance(d_.value, ast.Dict) and {"mean", "std", "number"} <= {const_value(k_) for k_ in d_.value.keys if isinstance(k_, ast.Constant)}
                         for d_ in flow.defs(st.iter.func.value.id, st) if d_ != "param"))) \
                and isinstance(st.target, ast.Tuple) and len(st.target.elts) == 2:
            fn = norm(st.target.elts[1])
            for c in calls_in(st, fn):
                capp = c
    if capp is None or not capp.args or not isinstance(capp.args[0], ast.Name):
        raise AnalysisError("collapse: the application of the collapser functions to the bin matrix was not found")
    aliases = []
    cur, at_ = capp.args[0].id, capp
    alloc = None
    while True:
        aliases.append(cur)
        r_ = flow.single_def_value(cur, at_)
        if r_ is None:
            raise AnalysisError("collapse: the bin matrix %s has no single allocation" % cur)
        if isinstance(r_[0], ast.Name) and r_[0].id not in aliases:
            cur, at_ = r_[0].id, r_[1]
            continue
        alloc, alloc_st = r_
        break
    akind = (dotted(alloc.func) or "").split(".")[-1] if isinstance(alloc, ast.Call) else None
    if akind not in ("empty", "full", "zeros", "ones") or not alloc.args:
        raise AnalysisError("collapse: allocation of the bin matrix not understood: %s" % norm(alloc)[:80])
    shp = alloc.args[0]
    if isinstance(shp, ast.Name):
        r_ = flow.single_def_value(shp.id, alloc_st)
        shp_st = r_[1] if r_ else alloc_st
        shp = r_[0] if r_ else shp
    else:
        shp_st = alloc_st
    if not isinstance(shp, (ast.List, ast.Tuple)) or len(shp.elts) < 2:
        raise AnalysisError("collapse: the shape of the bin matrix is not a list display: %s" % norm(shp)[:80])
    d0, d1 = [norm(flow.resolve(e, at=shp_st, depth=2, stop=(rname, prim))).replace(" ", "") for e in shp.elts[:2]]
    okd = d0 in ("np.max(%s)+1" % rname, "%s.max()+1" % rname) and d1 in ("np.unique(%s).size" % prim, "np.max(%s)+1" % prim, "%s.max()+1" % prim, "len(np.unique(%s))" % prim)
    ctx.ob("collapse.binner_dims", okd, "shape of the bin matrix = %s" % norm(shp)[:120],
           "[max(rows_in_bins) + 1, number of reference points, ...]", node=shp_st, func=f)
    # NaN fill before the scatter, scatter indices
    fill = scatter = None
    for st in flow.stmts:
        if isinstance(st, ast.Assign) and isinstance(st.targets[0], ast.Subscript) and norm(st.targets[0].value) in aliases:
            if norm(st.targets[0].slice) in (":", "..."):
                fill = st
            else:
                scatter = st
        if isinstance(st, ast.Expr) and isinstance(st.value, ast.Call) and isinstance(st.value.func, ast.Attribute) and st.value.func.attr == "fill" \
                and norm(st.value.func.value) in aliases:
            fill = st
    NANS = ("np.nan", "numpy.nan", "float('nan')", "math.nan", "np.NaN")
    fillv = None
    if fill is not None:
        fillv = fill.value if isinstance(fill, ast.Assign) else (fill.value.args[0] if fill.value.args else None)
    okf = fillv is not None and str(norm(fillv)) in NANS
    if scatter is None:
        raise AnalysisError("collapse: the scatter of the partner values into the bin matrix was not found")
    if akind == "full":
        fv = alloc.args[1] if len(alloc.args) > 1 else next((k.value for k in alloc.keywords if k.arg == "fill_value"), None)
        if fill is None:
            okf = fv is not None and str(norm(fv)) in NANS
            fillv = fv
    ordered = True
    if fill is not None and scatter is not None:
        ordered = stmt_before(f.node, fill, scatter)
    ctx.ob("collapse.nan_fill", okf and ordered, "allocation: %s; fill: %s" % (norm(alloc)[:60], norm(fill)[:60] if fill is not None else None),
           "the bin matrix is pre-filled with NaN before the partner values are scattered into it", node=fill or alloc_st, func=f)
    oks = False
    if scatter is not None:
        idx = norm(scatter.targets[0].slice).strip("()")
        c = calls_in(scatter.value, "isel")
        kw = {k.arg: norm(k.value) for k in c[0].keywords} if c else {}
        oks = idx.replace(" ", "") == "%s,%s" % (rname, prim) and kw.get("collocation") == sec and norm(scatter.value).endswith(".values")
    ctx.ob("collapse.scatter", oks, "%s" % (norm(scatter)[:120] if scatter else None),
           "binned[rows_in_bins, <reference row>] = var.isel(collocation=<partner row>).values", node=scatter or f.node, func=f)
    # collapser applied along axis 0
    okc = [norm(a) for a in capp.args[1:]] == ["0"] and not capp.keywords
    ctx.ob("collapse.apply", okc, "collapser call: %s" % norm(capp), "func(<bin matrix>, 0): statistics over the partners of each reference point", node=capp, func=f)


DEFAULTS = {"mean": ("nanmean", "m", "a"), "std": ("nanstd", "m", "a")}


def rule_collapsers(ctx):
    ctx.rule("C13.collapsers", "T3", "default collapsers: NaN-ignoring mean / std / count of non-NaN along the passed axis; user entries override")
    f = ctx.func(COM, "collapse")
    tab = None
    for st in walk_no_nested(f.node):
        if isinstance(st, ast.Assign) and norm(st.targets[0]) == "collapser" and isinstance(st.value, ast.Dict) and len(st.value.keys) >= 3:
            tab = st
    if tab is None:
        # the table under another name, or written where it is iterated: the one display that has the three default keys
        class _T:
            pass
        for n_ in ast.walk(f.node):
            if isinstance(n_, ast.Dict) and {"mean", "std", "number"} <= {const_value(k_) for k_ in n_.keys if isinstance(k_, ast.Constant)}:
                tab = _T()
                tab.value = n_
                tab.lineno = n_.lineno
                tab.col_offset = n_.col_offset
                break
    if tab is None:
        raise AnalysisError("collapse: default collapser table not found")
    entries = {}
    last_v = str(norm(tab.value.values[-1])).replace(" ", "")
    override_last = tab.value.keys[-1] is None and last_v in ("collapser", "({}ifcollapserisNoneelsecollapser)", "{}ifcollapserisNoneelsecollapser",
                                                                "(collapserifcollapserisnotNoneelse{})", "collapserifcollapserisnotNoneelse{}", "(collapseror{})", "collapseror{}")
    for k, v in zip(tab.value.keys, tab.value.values):
        if k is not None:
            entries[const_value(k)] = v
    for name in ("mean", "std", "number"):
        lam = entries.get(name)
        ok = False
        fact = norm(lam) if lam is not None else "<missing>"
        if isinstance(lam, ast.Lambda) and len(lam.args.args) == 2:
            m, a = [x.arg for x in lam.args.args]
            body = norm(lam.body).replace(" ", "")
            if name == "mean":
                ok = body in ("np.nanmean(%s,axis=%s)" % (m, a), "np.nanmean(%s,%s)" % (m, a))
            elif name == "std":
                ok = body in ("np.nanstd(%s,axis=%s)" % (m, a), "np.nanstd(%s,%s)" % (m, a))
            else:
                ok = body in ("np.count_nonzero(~np.isnan(%s),axis=%s)" % (m, a), "np.sum(~np.isnan(%s),axis=%s)" % (m, a),
                              "(~np.isnan(%s)).sum(axis=%s)" % (m, a))
        ctx.ob("collapse.collapser[%s]" % name, ok, fact,
               {"mean": "np.nanmean(m, axis=a)", "std": "np.nanstd(m, axis=a)", "number": "count of non-NaN along axis a"}[name], node=tab.value, func=f)
    ctx.ob("collapse.collapser.override", override_last, "last entry of the table: %s" % ("**collapser" if override_last else norm(tab.value.values[-1])[:40]),
           "user supplied entries are merged last (override the defaults)", node=tab.value, func=f)


def rule_expand(ctx):
    ctx.rule("C13.expand", "T6", "expand selects group k's dimension with pair row k, unconditionally")
    f = ctx.func(COM, "expand")
    flow = Flow(f)
    sels = {}
    from ..flow import elementwise
    from ..core import clone

    def instances(c):
        """[substitution of loop variables] for a call inside a parallel loop (zip / enumerate / range over at most two elements): one per element"""
        lp = parent(enclosing_stmt(c))
        while lp is not None and not isinstance(lp, (ast.For, ast.FunctionDef)):
            lp = parent(lp)
        if not isinstance(lp, ast.For):
            return [{}]
        m = elementwise(lp.target, lp.iter)
        if m is None:
            raise AnalysisError("expand: selection inside a loop that is not element-wise: for %s in %s" % (norm(lp.target), norm(lp.iter)))
        out = []
        for k_ in (0, 1):
            class K(ast.NodeTransformer):
                def visit_Name(self, n):
                    return ast.Constant(k_) if n.id == "_i" else n
            out.append({nm: K().visit(clone(e_)) for nm, e_ in m.items()})
        return out

    def subst(e, env, at):
        class S(ast.NodeTransformer):
            def visit_Name(self, n):
                return clone(env[n.id]) if isinstance(n.ctx, ast.Load) and n.id in env else n
        e = ast.fix_missing_locations(S().visit(clone(e)))
        # literal sequences indexed by a constant are folded (resolve_under does the folding)
        return flow.resolve_under(e, {}, at=at, depth=3, stop=("groups", "pairs"))
    for c in calls_in(f.node, "isel"):
        dicts = [k.value for k in c.keywords if k.arg is None] + list(c.args[:1])
        for dv in dicts:
            dv = flow.resolve(dv, at=c, depth=1, stop=("groups", "pairs"))
            if isinstance(dv, ast.Dict) and len(dv.keys) == 1 and dv.keys[0] is not None:
                for env in instances(c):
                    key = norm(subst(flow.resolve(dv.keys[0], at=c, depth=2, stop=("groups", "pairs")), env, c)).replace('"', "'")
                    val = norm(subst(flow.resolve(dv.values[0], at=c, depth=2, stop=("groups", "pairs")), env, c))
                    st = enclosing_stmt(c)
                    # enclosing ifs and guard clauses in front of the selection (`if <nothing repeats>: continue`)
                    from ..flow import guard_chain
                    cond = [("%s" if pol_ else "not (%s)") % norm(t_) for t_, pol_ in guard_chain(st, implicit=True)]
                    sels[key] = (val, cond, c)
    for k in (0, 1):
        key = "groups[%d] + '/collocation'" % k
        got = sels.get(key)
        if got is None:
            if not sels:
                raise AnalysisError("expand: no isel({dimension: indices}) selection understood")
            raise AnalysisError("expand: selection along %s not found among %s" % (key, sorted(map(str, sels))))
        ok = got is not None and got[0] == "pairs[%d]" % k and not got[1]
        ctx.ob("expand.isel[%d]" % k, ok, "isel(%s: %s)%s" % (key, got[0] if got else None, (" under %s" % got[1]) if got and got[1] else ""),
               "dataset.isel({groups[%d] + '/collocation': pairs[%d]}) on every path (also when no point repeats: the pair row need not be sorted)" % (k, k),
               node=got[2] if got else f.node, func=f)


def _ancestors_if(st):
    n = parent(st)
    while n is not None and not isinstance(n, (ast.FunctionDef,)):
        if isinstance(n, ast.If):
            yield n
        n = parent(n)


def rule_groups(ctx):
    ctx.rule("C13.groups", "T6", "pseudo groups: writer names members group + '/' + name, readers split at the first '/' and select by prefix")
    a = ctx.func(UTL, "add_xarray_groups")
    from ..strmachine import Machine
    # the rename maps, as comprehensions or as loops that fill a dictionary: (key, value, iterated attribute, conditions)
    maps = []
    for n in walk_no_nested(a.node):
        if isinstance(n, ast.DictComp) and len(n.generators) == 1:
            g_ = n.generators[0]
            maps.append((n, g_.target, n.key, n.value, g_.iter, [norm(i_) for i_ in g_.ifs]))
        elif isinstance(n, ast.For) and not n.orelse and n.body and isinstance(n.body[-1], ast.Assign) and isinstance(n.body[-1].targets[0], ast.Subscript) \
                and all(isinstance(b_, ast.If) and not b_.orelse and len(b_.body) == 1 and isinstance(b_.body[0], ast.Continue) for b_ in n.body[:-1]) \
                and not (isinstance(n.iter, ast.Call) and norm(n.iter.func).endswith(".items")):
            st_ = n.body[-1]
            maps.append((n, n.target, st_.targets[0].slice, st_.value, n.iter,
                         [norm(ast.UnaryOp(op=ast.Not(), operand=b_.test)).replace("not (", "not(") for b_ in n.body[:-1]]))
    maps.sort(key=lambda m_: (m_[0].lineno, m_[0].col_offset))
    if len(maps) != 2:
        raise AnalysisError("add_xarray_groups: expected the two rename maps (variables, dimensions), found %d" % len(maps))
    facts, okw = [], True
    for node_, tgt_, key_, val_, it_, conds_ in maps:
        if not (isinstance(tgt_, ast.Name) and norm(key_) == tgt_.id):
            raise AnalysisError("add_xarray_groups: rename map with key %s over %s not understood" % (norm(key_), norm(tgt_)))
        made = Machine().ev(val_, {"group_name": "G", tgt_.id: "v"})
        facts.append("%s -> %s over %s %s" % (tgt_.id, norm(val_), norm(it_), conds_ or ""))
        okw = okw and made == "G/v"
    its = [norm(m_[4]).split(".")[-1] for m_ in maps]
    if its != ["variables", "dims"]:
        raise AnalysisError("add_xarray_groups: the rename maps run over %s" % [norm(m_[4]) for m_ in maps])
    dc = [c_.replace(" ", "") for c_ in maps[1][5]]
    dimvar = maps[1][1].id
    okd = len(dc) == 1 and dc[0].startswith(("%snotin" % dimvar, "not(%sin" % dimvar, "not%sin" % dimvar)) and dc[0].rstrip(")").endswith(".coords")
    if not okd and dc:
        raise AnalysisError("add_xarray_groups: condition %s of the dimension renames not understood" % maps[1][5])
    ctx.ob("add_xarray_groups.naming", okw and okd and not maps[0][5], "renames: %s" % facts,
           "variables, and dimensions that are not coordinates, are renamed to group + '/' + name", node=a.node, func=a)
    # the two readers, evaluated on a table of variable names (tyverif/strmachine.py: every statement is read or the evaluation refuses)
    from ..strmachine import call, Stub
    g = ctx.func(UTL, "get_xarray_groups")
    h = ctx.func(UTL, "get_xarray_group")
    TABLES = [("a/x", "a/y", "b/z", "t", "a/s/u", "c/", "ab/q"), ("t", "u"), (), ("g/h/i", "g/h/j", "gh/k", "g"), ("/w", "x/"), ("time", "A/time", "AB/time", "A/B/time")]
    helpers = {q: fn for q, fn in g.module.funcs.items() if fn.cls is None}          # module-level helpers a restructured version may call
    wrong = None
    ncases = 0
    for names in TABLES:
        ds = Stub("dataset", {"variables": names}, getitem=lambda key: ("selected", tuple(key)))
        got = call(g, ds, True, funcs=helpers)
        want = {nm.split("/", 1)[0] for nm in names if "/" in nm}
        ncases += 1
        if not (isinstance(got, (set, frozenset)) and set(got) == want) and wrong is None:
            wrong = {"variables": list(names), "get_xarray_groups(..., only_names=True)": repr(got), "expected": repr(want)}
    ctx.ob("get_xarray_groups.split", wrong is None, "%d tables of variable names evaluated%s" % (ncases, "" if wrong is None else "; first difference: %s" % wrong),
           "the part before the first '/' of every variable name containing '/'", node=g.node, func=g, witness=wrong, complete=True)
    wrong = None
    ncases = 0
    for names in TABLES:
        ds = Stub("dataset", {"variables": names}, getitem=lambda key: ("selected", tuple(key)))
        for grp in ("a", "a/", "b", "ab", "a/s", "g", "g/h", "gh", "A", "A/B", "x", "zz", "t", "c"):
            got = call(h, ds, grp, funcs=helpers)
            pre = grp if grp.endswith("/") else grp + "/"
            members = tuple(nm for nm in names if nm.startswith(pre))
            want = ("selected", members) if members else ("raises", "KeyError")
            ncases += 1
            if got != want and wrong is None:
                wrong = {"variables": list(names), "get_xarray_group(dataset, %r)" % grp: repr(got), "expected": repr(want)}
    ctx.ob("get_xarray_group.prefix", wrong is None, "%d (table, group) cases evaluated%s" % (ncases, "" if wrong is None else "; first difference: %s" % wrong),
           "members selected by the prefix group + '/' (so 'A' does not capture 'AB/x'), KeyError when there is none", node=h.node, func=h, witness=wrong, complete=True)
    # the dictionary form hands every group name to get_xarray_group
    wrong = None
    for names in TABLES:
        ds = Stub("dataset", {"variables": names}, getitem=lambda key: ("selected", tuple(key)))
        got = call(g, ds, funcs=helpers)
        want = {grp: ("selected", tuple(nm for nm in names if nm.startswith(grp + "/"))) for grp in {nm.split("/", 1)[0] for nm in names if "/" in nm}}
        if got != want and wrong is None:
            wrong = {"variables": list(names), "get_xarray_groups(dataset)": repr(got)[:200], "expected": repr(want)[:200]}
    ctx.ob("get_xarray_groups.members", wrong is None, "%d tables evaluated%s" % (len(TABLES), "" if wrong is None else "; first difference: %s" % wrong),
           "{group: get_xarray_group(dataset, group)} for every group name", node=g.node, func=g, witness=wrong, complete=True)
    ctx.models.append({"rule": "C13.groups", "cases": ncases + 2 * len(TABLES), "domain": "tables of variable names with nested, prefix-sharing and empty group names", "exhaustive": False})
    c = ctx.func(COM, "collapse")
    sp = [n for n in walk_no_nested(c.node) if isinstance(n, ast.Assign) and isinstance(n.targets[0], ast.Tuple) and "split" in norm(n.value)]
    oks = bool(sp) and norm(sp[0].value).replace(" ", "") == "var_name.split('/',1)"
    ctx.ob("collapse.split", oks, "collapse splits names by %s" % (norm(sp[0].value) if sp else None), "var_name.split('/', 1) - the same convention", node=sp[0] if sp else c.node, func=c)


def rule_concat(ctx):
    ctx.rule("C13.concat", "T6+T1", "concat: row 0 shifted by the running primary size, row 1 by the running secondary size; sizes accumulate after use")
    f = ctx.func(COL, "concat_collocations")
    flow = Flow(f)
    A = _assigns(flow)
    outer = [st for st in flow.stmts if isinstance(st, ast.For) and norm(st.iter) == f.params[0]]
    if not outer:
        raise AnalysisError("concat_collocations: loop over the datasets not found")
    lp = outer[0]
    obj = norm(lp.target)
    # the two shifts of the pair rows; their addends are the running offsets
    shifts = {}
    for st in walk_no_nested(lp):
        if isinstance(st, ast.AugAssign) and isinstance(st.target, ast.Subscript) and isinstance(st.op, ast.Add) \
                and "pairs" in norm(flow.resolve(st.target.value, at=st, depth=2)):
            shifts[norm(st.target.slice).replace(" ", "")] = (st.value, st)
    rows = {}
    for k, (v, st) in shifts.items():
        row = {"(0,:)": 0, "0": 0, "(1,:)": 1, "1": 1}.get(k)
        if row is None or not isinstance(v, ast.Name):
            raise AnalysisError("concat_collocations: shift %s of the pair rows not understood" % norm(st))
        rows[row] = v.id
    if set(rows) != {0, 1}:
        if not shifts:
            ctx.ob("concat_collocations.shift", False, "no `pairs[row, :] += offset` in the loop over the datasets",
                   "pairs[0, :] += primary offset; pairs[1, :] += secondary offset", node=lp, func=f)
            return
        raise AnalysisError("concat_collocations: expected one shift of row 0 and one of row 1")
    P, S = rows[0], rows[1]
    # which group each offset counts: its accumulation statement
    acc = {}
    for k, st in enumerate(lp.body):
        if isinstance(st, ast.AugAssign) and isinstance(st.target, ast.Name) and isinstance(st.op, ast.Add):
            acc[st.target.id] = (st.value, k, st, "+=")
        elif isinstance(st, ast.Assign) and isinstance(st.targets[0], ast.Name) and st.targets[0].id in (P, S):
            acc[st.targets[0].id] = (st.value, k, st, "=")

    def group_of(v, at_):
        """obj.dims[<key>] / obj.sizes[<key>] -> canonical key text"""
        if isinstance(v, ast.Subscript) and norm(v.value) in ("%s.dims" % obj, "%s.sizes" % obj):
            key = v.slice
            # a look-up in a literal table: table[name] -> the entry
            if isinstance(key, ast.Subscript) and isinstance(key.value, ast.Name):
                d = flow.single_def_value(key.value.id, at_)
                if d and isinstance(d[0], ast.Dict):
                    want_k = norm(key.slice)
                    for kk, vv in zip(d[0].keys, d[0].values):
                        if kk is not None and norm(kk) == want_k:
                            key = vv
                            break
            return norm(flow.resolve(key, at=at_, depth=1, stop=("primary", "secondary"))).replace('"', "'")
        return None
    init = {}
    for n_ in (P, S):
        ds = [d for d in flow.defs(n_, lp) if d != "param" and not any(d is x for x in ast.walk(lp))]
        init[n_] = norm(ds[0].value) if len(ds) == 1 and isinstance(ds[0], ast.Assign) else None
    ctx.ob("concat_collocations.init", init == {P: "0", S: "0"}, "initial offsets: %s" % init, "both 0", node=f.node, func=f)
    got = {n_: (acc[n_][3], group_of(acc[n_][0], acc[n_][2])) if n_ in acc else None for n_ in (P, S)}
    ok = got == {P: ("+=", "f'{primary}/collocation'"), S: ("+=", "f'{secondary}/collocation'")}
    ctx.ob("concat_collocations.shift", ok, "row 0 += %s, row 1 += %s; %s counts %s, %s counts %s" % (P, S, P, got[P], S, got[S]),
           "pairs[0, :] += number of primary points so far; pairs[1, :] += number of secondary points so far", node=shifts[list(shifts)[0]][1], func=f)
    ctx.ob("concat_collocations.accumulate", ok, "size updates: %s" % got,
           "primary_size += size of the primary group of this dataset; secondary_size += size of its secondary group (accumulated, not overwritten)",
           node=acc[P][2] if P in acc else lp, func=f)
    inner_k = [k for k, st in enumerate(lp.body) if any(x is shifts[list(shifts)[0]][1] for x in ast.walk(st))]
    after = bool(inner_k) and all(acc[n_][1] > max(inner_k) for n_ in (P, S) if n_ in acc) and P in acc and S in acc
    ctx.ob("concat_collocations.order", after, "size updates after the shift loop: %s" % after,
           "the offsets of dataset k are the sizes of datasets 0..k-1: updated after use", node=lp, func=f)
    # groups concatenated along their own dimension
    cc = calls_in(f.node, "concat")
    okc = False
    fact = None
    if cc:
        kw = {k.arg: norm(k.value) for k in cc[0].keywords}
        fact = norm(cc[0])
        coord = A.get("collocation_coord", [None])[0]
        if coord is not None and isinstance(coord.value, ast.Dict):
            table = {norm(k): norm(v) for k, v in zip(coord.value.keys, coord.value.values)}
            okc = kw.get("dim") == "collocation_coord[group]" and table == {"'Collocations'": "'Collocations/collocation'",
                                                                             "primary": "f'{primary}/collocation'", "secondary": "f'{secondary}/collocation'"}
    ctx.ob("concat_collocations.dims", okc, "concat: %s" % fact, "each group is concatenated along its own '<group>/collocation' dimension", node=cc[0] if cc else f.node, func=f)


def run(ctx):
    for r in (rule_compact, rule_rows, rule_binner, rule_collapsers, rule_expand, rule_groups, rule_concat):
        ctx.attempt(r, ctx)
    from ..purity import rule_pure
    ctx.attempt(rule_pure, ctx, "C13.pure", [(COL, "concat_collocations"), (COM, "collapse"), (COM, "expand")],
                "concat / collapse / expand leave the datasets they were given unchanged (pair indices are shifted on a copy)")
