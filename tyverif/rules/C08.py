"""C08 - Planck radiance, brightness temperature and spectral units are consistent.

All clauses are identities between formulas read from physics/em.py, decided by canonical form
(T5); the grid/quantity reversal of the per-unit converters is a provenance rule (T6).
Numerical behaviour (cancellation, monotonicity numerics, |R| <= 1) is not decided.
"""
import ast
import sympy as sp
from ..core import AnalysisError, norm, dotted, calls_in, walk_no_nested, const_value
from ..flow import Flow
from ..alg import Sym, is_zero, Unsupported, PathRaised
from .C09 import decide

EM = "typhon/physics/em.py"
EXPECT = {"C08.args": 6, "C08.forms": 3, "C08.inverse": 2, "C08.ratio": 1, "C08.units": 8, "C08.perunit": 14, "C08.snell": 3, "C08.dtype": 1, "C08.pure": 19,
          "C08.fresnel0": 1, "C08.brewster": 2, "C08.total": 1}


def branchwise(ctx, construct, value, spec, fact_fmt, oracle, node, func):
    """Identity `value == spec` where value may be a Piecewise (np.where): every piece whose
    condition is not trivially false must satisfy it."""
    pieces = [(value, None)]
    if isinstance(value, sp.Piecewise):
        pieces = [(e, c) for e, c in value.args]
    elif value.has(sp.Piecewise):
        value = sp.piecewise_fold(value)
        if isinstance(value, sp.Piecewise):
            pieces = [(e, c) for e, c in value.args]
    allok = True
    for e, c in pieces:
        if c is sp.false:
            continue
        v, info = is_zero(e - spec)
        if v is None:
            raise AnalysisError("%s: identity undecided: %s" % (construct, info))
        if not v:
            allok = False
            ctx.ob(construct, False, fact_fmt % sp.simplify(e) + ("" if c is None or c is sp.true else "  [on the branch where %s]" % c),
                   oracle, node=node, func=func, witness=info)
            break
    if allok:
        ctx.ob(construct, True, fact_fmt % sp.simplify(pieces[0][0]), oracle, node=node, func=func)
    ctx.models.append({"rule": ctx._rule, "identity": construct, "verdict": allok, "cases": len(pieces)})


def rule_forms(ctx):
    ctx.rule("C08.forms", "T5", "wavelength and wavenumber forms describe the same spectrum")
    ev = Sym(ctx.repo)
    f, T = sp.symbols("f T", positive=True)
    c = ev.const.get("speed_of_light")
    B = ev.call(EM, "planck", f, T)
    g = ctx.func(EM, "planck_wavelength")
    branchwise(ctx, "planck_wavelength(c/f, T)", ev.call(EM, "planck_wavelength", c / f, T), B * f ** 2 / c,
               "planck_wavelength(c/f, T) = %s", "planck(f, T) * f^2 / c", g.node, g)
    g = ctx.func(EM, "planck_wavenumber")
    branchwise(ctx, "planck_wavenumber(f/c, T)", ev.call(EM, "planck_wavenumber", f / c, T), c * B,
               "planck_wavenumber(f/c, T) = %s", "c * planck(f, T)", g.node, g)
    g = ctx.func(EM, "rayleighjeans_wavelength")
    branchwise(ctx, "rayleighjeans_wavelength(c/f, T)", ev.call(EM, "rayleighjeans_wavelength", c / f, T),
               ev.call(EM, "rayleighjeans", f, T) * f ** 2 / c, "rayleighjeans_wavelength(c/f, T) = %s",
               "rayleighjeans(f, T) * f^2 / c", g.node, g)


def rule_inverse(ctx):
    ctx.rule("C08.inverse", "T5", "brightness temperatures invert the radiance laws")
    ev = Sym(ctx.repo)
    f, T = sp.symbols("f T", positive=True)
    g = ctx.func(EM, "radiance2planckTb")
    branchwise(ctx, "radiance2planckTb(f, planck(f, T))", ev.call(EM, "radiance2planckTb", f, ev.call(EM, "planck", f, T)), T,
               "radiance2planckTb(f, planck(f, T)) = %s", "T", g.node, g)
    g = ctx.func(EM, "radiance2rayleighjeansTb")
    branchwise(ctx, "radiance2rayleighjeansTb(f, rayleighjeans(f, T))",
               ev.call(EM, "radiance2rayleighjeansTb", f, ev.call(EM, "rayleighjeans", f, T)), T,
               "radiance2rayleighjeansTb(f, rayleighjeans(f, T)) = %s", "T", g.node, g)


def rule_ratio(ctx):
    ctx.rule("C08.ratio", "T5", "planck / rayleighjeans = u / (e^u - 1), u = h f / k T")
    ev = Sym(ctx.repo)
    f, T = sp.symbols("f T", positive=True)
    h, k = ev.const.get("planck"), ev.const.get("boltzmann")
    u = h * f / (k * T)
    g = ctx.func(EM, "planck")
    ratio = ev.call(EM, "planck", f, T) / ev.call(EM, "rayleighjeans", f, T)
    branchwise(ctx, "planck/rayleighjeans", ratio, u / (sp.exp(u) - 1), "planck/rayleighjeans = %s",
               "u/(exp(u) - 1) with u = h f/(k T)  (<= 1, -> 1 as u -> 0)", g.node, g)


CONV = ["frequency2wavelength", "wavelength2frequency", "frequency2wavenumber", "wavenumber2frequency",
        "wavelength2wavenumber", "wavenumber2wavelength"]


def rule_units(ctx):
    ctx.rule("C08.units", "T5", "frequency / wavelength / wavenumber converters are pairwise inverse and the triangle commutes")
    ev = Sym(ctx.repo)
    x = sp.Symbol("x", positive=True)
    t = {n: ev.call(EM, n, x) for n in CONV}
    for a, b in (("frequency2wavelength", "wavelength2frequency"), ("frequency2wavenumber", "wavenumber2frequency"),
                 ("wavelength2wavenumber", "wavenumber2wavelength")):
        for u, v in ((a, b), (b, a)):
            g = ctx.func(EM, v)
            decide(ctx, "%s(%s(x))" % (v, u), t[v].subs(x, t[u]) - x, "%s o %s = %s" % (v, u, sp.simplify(t[v].subs(x, t[u]))), "x", g.node, g)
    g = ctx.func(EM, "wavelength2wavenumber")
    decide(ctx, "wavelength2wavenumber(frequency2wavelength(f)) == frequency2wavenumber(f)",
           t["wavelength2wavenumber"].subs(x, t["frequency2wavelength"]) - t["frequency2wavenumber"], "triangle via wavelength", "0", g.node, g)
    g = ctx.func(EM, "wavenumber2wavelength")
    decide(ctx, "wavenumber2wavelength(frequency2wavenumber(f)) == frequency2wavelength(f)",
           t["wavenumber2wavelength"].subs(x, t["frequency2wavenumber"]) - t["frequency2wavelength"], "triangle via wavenumber", "0", g.node, g)


def _reversal(e):
    """classify how a returned array is reversed: 'axis0' | 'all' | 'none' | None(unknown); and the base expr"""
    if isinstance(e, ast.Subscript):
        s = e.slice
        elts = s.elts if isinstance(s, ast.Tuple) else [s]
        first = elts[0]
        if isinstance(first, ast.Slice) and first.lower is None and first.upper is None and first.step is not None \
                and norm(first.step) == "-1" and all(isinstance(x, ast.Constant) and x.value is Ellipsis or
                                                     (isinstance(x, ast.Slice) and x.lower is None and x.upper is None and x.step is None)
                                                     for x in elts[1:]):
            return "axis0", e.value
        return None, e
    if isinstance(e, ast.Call):
        d = dotted(e.func) or ""
        last = d.split(".")[-1]
        if last == "flipud" and len(e.args) == 1:
            return "axis0", e.args[0]
        if last == "flip" and e.args:
            ax = e.args[1] if len(e.args) > 1 else None
            for k in e.keywords:
                if k.arg == "axis":
                    ax = k.value
            if ax is None:
                return "all", e.args[0]
            if isinstance(ax, ast.Constant) and ax.value == 0:
                return "axis0", e.args[0]
            return None, e
    if isinstance(e, ast.Call) and (dotted(e.func) or "").split(".")[-1] in ("sort", "sorted", "unique", "msort") and e.args:
        return "sorted", e.args[0]
    if isinstance(e, ast.Name):
        return "none", e
    # an arithmetic expression / conversion call without any re-ordering construct inside
    reorder = any((isinstance(n_, ast.Slice) and n_.step is not None) or
                  (isinstance(n_, ast.Call) and (dotted(n_.func) or "").split(".")[-1] in ("flip", "flipud", "fliplr", "sort", "sorted", "argsort", "unique", "msort", "roll", "take"))
                  for n_ in ast.walk(e))
    if not reorder and isinstance(e, (ast.BinOp, ast.Call, ast.Attribute)):
        return "none", e
    return None, e


def rule_perunit(ctx):
    ctx.rule("C08.perunit", "T5+T6", "per-unit converters: Jacobian maps one Planck form onto the other, the two directions "
             "compose to the identity, the same axis-0 reversal is applied to quantity and grid")
    c_sym = None
    for name, gridconv, inverse in (("perfrequency2perwavelength", "frequency2wavelength", "perwavelength2perfrequency"),
                                    ("perwavelength2perfrequency", "wavelength2frequency", "perfrequency2perwavelength"),
                                    ("perfrequency2perwavenumber", "frequency2wavenumber", "perwavenumber2perfrequency"),
                                    ("perwavenumber2perfrequency", "wavenumber2frequency", "perfrequency2perwavenumber")):
        f = ctx.func(EM, name)
        rets = [s for s in f.body if isinstance(s, ast.Return)]
        if len(rets) != 1 or not isinstance(rets[0].value, ast.Tuple) or len(rets[0].value.elts) != 2:
            raise AnalysisError("%s does not return (quantity, grid)" % name)
        qe, ge = rets[0].value.elts
        if isinstance(qe, ast.Name) or isinstance(ge, ast.Name):
            # reversed where they are computed and returned under their names
            fl_ = Flow(f)
            qe = fl_.resolve(qe, at=rets[0], depth=1, stop=tuple(f.params)) if isinstance(qe, ast.Name) else qe
            ge = fl_.resolve(ge, at=rets[0], depth=1, stop=tuple(f.params)) if isinstance(ge, ast.Name) else ge
        kq, bq = _reversal(qe)
        kg, bg = _reversal(ge)
        if kq is None or kg is None:
            raise AnalysisError("%s: unrecognised return form %s" % (name, norm(rets[0].value)))
        wl = "wavelength" in name
        if "sorted" in (kq, kg):
            ok = False
            want = "quantity and grid are permuted by the SAME reversal (sorting the grid on its own breaks the pairing for grids that are not ascending)"
        elif wl:
            ok = kq == "axis0" and kg in ("axis0", "all")
            want = "both reversed along axis 0 (ascending frequency <-> ascending wavelength); the quantity may be multi-dimensional, so only axis 0"
        else:
            ok = kq == "none" and kg == "none"
            want = "neither reversed (wavenumber increases with frequency)"
        ctx.ob("%s.reversal" % name, ok, "quantity: %s (%s), grid: %s (%s)" % (norm(qe), kq, norm(ge), kg), want, node=rets[0], func=f)
        # element-wise Jacobian: evaluate with reversal/reshape as identities
        hooks = {"subscript": lambda base, n, *_: base, "method": lambda base, n, *_: base if n.func.attr in ("reshape",) else NotImplemented,
                 "flip": lambda a, *r, **k: a, "flipud": lambda a: a, "len": lambda *a: sp.Integer(1), "sort": lambda a, *r, **k: a}
        ev = Sym(ctx.repo, hooks=hooks)
        ev.hooks["subscript"] = _sub_hook
        y, g_ = sp.symbols("y g", positive=True)
        try:
            out = ev.call(EM, name, _Arr(y), _Arr(g_))
        except Unsupported as e:
            raise AnalysisError("%s: %s" % (name, e))
        qv, gv = _val(out[0]), _val(out[1])
        gridterm = Sym(ctx.repo).call(EM, gridconv, g_)
        decide(ctx, "%s.grid" % name, gv - gridterm, "grid -> %s" % sp.simplify(gv), "%s(grid)" % gridconv, rets[0], f)
        # composing with the inverse converter gives the identity
        back = Sym(ctx.repo, hooks=dict(ev.hooks))
        back.hooks["subscript"] = _sub_hook
        out2 = back.call(EM, inverse, _Arr(qv), _Arr(gv))
        decide(ctx, "%s(%s(y, g))" % (inverse, name), _val(out2[0]) - y, "round trip of the quantity = %s" % sp.simplify(_val(out2[0])), "y", rets[0], f)
    # Jacobian maps planck(f) onto planck_wavelength(c/f)
    f_, T = sp.symbols("f T", positive=True)
    ev = Sym(ctx.repo, hooks={"len": lambda *a: sp.Integer(1)})
    ev.hooks["subscript"] = _sub_hook
    ev.hooks["method"] = lambda base, n, *_: base if n.func.attr in ("reshape",) else NotImplemented
    B = Sym(ctx.repo).call(EM, "planck", f_, T)
    out = ev.call(EM, "perfrequency2perwavelength", _Arr(B), _Arr(f_))
    g = ctx.func(EM, "perfrequency2perwavelength")
    c = ev.const.get("speed_of_light")
    decide(ctx, "perfrequency2perwavelength(planck) == planck_wavelength", _val(out[0]) - Sym(ctx.repo).call(EM, "planck_wavelength", c / f_, T),
           "Jacobian image of planck(f, T)", "planck_wavelength(c/f, T)", g.node, g)
    out = ev.call(EM, "perfrequency2perwavenumber", _Arr(B), _Arr(f_))
    g = ctx.func(EM, "perfrequency2perwavenumber")
    decide(ctx, "perfrequency2perwavenumber(planck) == planck_wavenumber", _val(out[0]) - Sym(ctx.repo).call(EM, "planck_wavenumber", f_ / c, T),
           "Jacobian image of planck(f, T)", "planck_wavenumber(f/c, T)", g.node, g)


class _Arr:
    """an array valued symbol: element term plus a dummy shape"""
    def __init__(self, v):
        self.v = v


def _val(x):
    return x.v if isinstance(x, _Arr) else x


def _sub_hook(base, n, ev, env, func, depth):
    # X[::-1, ...] / X[::-1] : reversal is the identity on the element model; X.shape[0] -> 1
    if isinstance(base, tuple):
        return NotImplemented
    return base


# make _Arr participate in arithmetic by unwrapping in the evaluator: simplest is to give it
# the operators it needs
def _arr_op(op):
    def f(self, other):
        return getattr(_val(self), op)(_val(other))
    return f


for _op in ("__mul__", "__rmul__", "__truediv__", "__rtruediv__", "__add__", "__radd__", "__sub__", "__rsub__", "__pow__"):
    setattr(_Arr, _op, _arr_op(_op))


def real_decider(assume):
    """decide callback for Sym: tests built from np.all/np.any(np.isreal(<name>)) with not/and/or are evaluated
    under `assume` (name -> is real); any other test is left to the evaluator"""
    def evalb(n):
        if isinstance(n, ast.BoolOp):
            vals = [evalb(v) for v in n.values]
            return all(vals) if isinstance(n.op, ast.And) else any(vals)
        if isinstance(n, ast.UnaryOp) and isinstance(n.op, ast.Not):
            return not evalb(n.operand)
        if isinstance(n, ast.Call) and (dotted(n.func) or "").split(".")[-1] in ("all", "any", "isreal", "isrealobj") and len(n.args) == 1:
            if (dotted(n.func) or "").split(".")[-1] in ("isreal", "isrealobj"):
                return assume[norm(n.args[0])]
            return evalb(n.args[0])
        raise KeyError(norm(n))

    def dec(text):
        try:
            return bool(evalb(ast.parse(str(text), mode="eval").body))
        except (KeyError, SyntaxError):
            return None
    return dec


def rule_snell(ctx):
    ctx.rule("C08.snell", "T5+T1", "real branch of snell: n2 sin(theta2) = n1 sin(theta1), degrees in and out; fresnel at normal "
             "incidence and at the Brewster angle")
    n1, n2, th = sp.symbols("n1 n2 theta1", positive=True)
    f = ctx.func(EM, "snell")

    def choose(text):
        if "isreal(theta2)" in text:
            return False          # `not all(isreal(theta2))` is false on the real branch
        if "isreal" in text:
            return True
        return None
    ev = Sym(ctx.repo, decide=real_decider({"n1": True, "n2": True, "theta2": True}))
    t2 = ev.call(EM, "snell", n1, n2, th)
    lhs = n2 * sp.sin(t2 * sp.pi / 180)
    rhs = n1 * sp.sin(th * sp.pi / 180)
    v, info = is_zero(sp.simplify(lhs - rhs))
    if v is None:
        raise AnalysisError("snell identity undecided: %s" % info)
    ctx.ob("snell.real_branch", v, "n2 sin(theta2) - n1 sin(theta1) = %s" % sp.simplify(lhs - rhs),
           "0 for every incidence angle (no clipping: beyond total reflection arcsin yields NaN, not 90 degrees)", node=f.node, func=f,
           witness=None if v else info)
    ctx.models.append({"rule": "C08.snell", "identity": "snell", "verdict": bool(v), "cases": 1})
    # complex result -> NaN: every return reachable when the refraction angle is not all real yields NaN
    sflow = Flow(f)
    tests = [str(norm(st.test)) for st in sflow.stmts if isinstance(st, ast.If) and "isreal" in str(norm(st.test)) and "theta2" in str(norm(st.test))]
    if not tests:
        raise AnalysisError("snell: the test for a complex refraction angle was not found")
    asm = {}
    for t_ in tests:
        neg = t_.startswith("not ")
        asm[t_] = True if neg else False
        asm[t_[4:] if neg else "not " + t_] = False if neg else True
    rets_c = [r_ for r_ in sflow.stmts if isinstance(r_, ast.Return) and r_.value is not None and sflow.live_under(r_, asm)]
    NAN = ("np.nan", "float('nan')", "numpy.nan", "math.nan")
    vals_c = [str(norm(sflow.resolve_under(r_.value, asm, at=r_, depth=3))) for r_ in rets_c]
    ok = bool(rets_c) and all(v_ in NAN or any(v_ == "%s(%s)" % (w_, n_) for w_ in ("np.rad2deg", "np.degrees") for n_ in NAN) for v_ in vals_c)
    ctx.ob("snell.nan", ok, "complex refraction angle mapped to NaN before the return: %s" % ok,
           "`if not all(isreal(theta2)): theta2 = nan`", node=f.node, func=f)
    return ev, (n1, n2, th)


def rule_fresnel(ctx):
    n1, n2 = sp.symbols("n1 n2", positive=True)
    dec = real_decider({"n1": True, "n2": True, "theta2": True})
    ev = Sym(ctx.repo, decide=dec)
    f = ctx.func(EM, "fresnel")
    ctx.rule("C08.fresnel0", "T5", "|Rv| = |Rh| at normal incidence")
    Rv, Rh = ev.call(EM, "fresnel", n1, n2, sp.Integer(0))
    decide(ctx, "fresnel(theta1=0)", sp.simplify(Rv + Rh), "Rv = %s, Rh = %s" % (sp.simplify(Rv), sp.simplify(Rh)), "Rv = -Rh", f.node, f)
    ctx.rule("C08.brewster", "T5", "Rv = 0 (and Rh != 0) at the Brewster angle tan(theta1) = n2/n1")
    thB = sp.atan(n2 / n1) * 180 / sp.pi
    Rv, Rh = ev.call(EM, "fresnel", n1, n2, thB)
    Rv = sp.simplify(Rv)
    decide(ctx, "fresnel(brewster).Rv", Rv, "Rv at the Brewster angle = %s" % Rv, "0", f.node, f)
    Rh = sp.simplify(Rh)
    v, info = is_zero(Rh)
    ctx.ob("fresnel(brewster).Rh", v is False, "Rh at the Brewster angle = %s" % Rh, "non-zero for n1 != n2 (tells Rv and Rh apart)",
           node=f.node, func=f)
    # beyond the angle of total reflection snell() answers NaN: |Rv|, |Rh| <= 1 needs the documented value 1 there
    ctx.rule("C08.total", "T1", "fresnel: where the refracted angle is NaN (total reflection) both coefficients are set to 1")
    fl = Flow(f)
    rets = [r_ for r_ in fl.stmts if isinstance(r_, ast.Return) and isinstance(r_.value, ast.Tuple) and len(r_.value.elts) == 2]
    if len(rets) != 1:
        raise AnalysisError("fresnel: expected one return of (Rv, Rh)")
    th2 = [st_.targets[0].id for st_ in fl.stmts if isinstance(st_, ast.Assign) and isinstance(st_.targets[0], ast.Name) and calls_in(st_.value, "snell")]
    if len(th2) != 1:
        raise AnalysisError("fresnel: the refracted angle (result of snell) was not found")
    handled = []
    for e_ in rets[0].value.elts:
        v_ = fl.resolve(e_, at=rets[0], depth=3, stop=(th2[0],) + tuple(f.params))
        while isinstance(v_, ast.Subscript) and isinstance(v_.slice, ast.Tuple) and not v_.slice.elts:
            v_ = v_.value
        ok_ = False
        if isinstance(v_, ast.Call) and (dotted(v_.func) or "").split(".")[-1] == "where" and len(v_.args) == 3:
            m_ = fl.resolve(v_.args[0], at=rets[0], depth=3, stop=(th2[0],) + tuple(f.params))
            nan_test = any(isinstance(c_, ast.Call) and (dotted(c_.func) or "").split(".")[-1] == "isnan" and c_.args and str(norm(c_.args[0])) == th2[0] for c_ in ast.walk(m_))
            one = str(norm(v_.args[1])) in ("1.0", "1", "1.0 + 0j")
            ok_ = nan_test and one
        handled.append(ok_)
    ctx.ob("fresnel.total_reflection", all(handled), "Rv, Rh pass through np.where(isnan(%s) ..., 1.0, R): %s" % (th2[0], handled),
           "both coefficients are 1 where the refracted angle is NaN and the inputs are not (docstring: 'Rv and Rh are here set to 1'; NaN is not <= 1)",
           node=rets[0], func=f, witness=None if all(handled) else {"n1": 1.5, "n2": 1.0, "theta1": 60.0, "fresnel": "(nan, nan)"})


INT_TRUNCATING = {"reciprocal": "np.reciprocal of an integer array is integer division (1/500 -> 0)", "floor_divide": "integer division"}


def rule_dtype(ctx):
    ctx.rule("C08.dtype", "lint", "converters do not use ufuncs / operators that truncate for integer input")
    bad = []
    node0 = None
    f0 = None
    for name in CONV + ["planck", "planck_wavelength", "planck_wavenumber", "rayleighjeans", "rayleighjeans_wavelength", "radiance2planckTb",
                        "radiance2rayleighjeansTb", "perfrequency2perwavelength", "perwavelength2perfrequency", "perfrequency2perwavenumber",
                        "perwavenumber2perfrequency"]:
        f = ctx.func(EM, name)
        for n in walk_no_nested(f.node):
            if isinstance(n, ast.Call) and (dotted(n.func) or "").split(".")[-1] in INT_TRUNCATING:
                bad.append("%s: %s (%s)" % (name, norm(n), INT_TRUNCATING[(dotted(n.func) or "").split(".")[-1]]))
                node0, f0 = node0 or n, f0 or f
            if isinstance(n, ast.BinOp) and isinstance(n.op, ast.FloorDiv):
                bad.append("%s: %s (floor division)" % (name, norm(n)))
                node0, f0 = node0 or n, f0 or f
    ctx.ob("em.integer_safe", not bad, "truncating operations: %s" % (bad or "none"), "true division throughout (np.divide / `/`): integer wavenumbers, frequencies or grids are legitimate input",
           node=node0 or ctx.func(EM, "wavenumber2wavelength").node, func=f0 or ctx.func(EM, "wavenumber2wavelength"))


def rule_snell_complex(ctx):
    ctx.rule("C08.snell", "T5+T1", "complex-index branch of snell reduces to Snell's law when the imaginary part vanishes")
    f = ctx.func(EM, "snell")
    n1, s, d = sp.symbols("n1 s d", positive=True)      # s = sin(theta1), n2 = n1 * sqrt(s^2 + d): no total reflection
    n2 = n1 * sp.sqrt(s ** 2 + d)
    TH = sp.Symbol("theta1", positive=True)

    dec = real_decider({"n1": True, "n2": False, "theta2": True})      # take the complex-n2 branch
    hooks = {"sin": lambda u: s if u == TH * sp.pi / 180 else sp.sin(u), "arcsin": lambda u: sp.Function("ASIN")(u), "real": lambda u: u, "imag": lambda u: sp.Integer(0)}
    ev = Sym(ctx.repo, decide=dec, hooks=hooks)
    t2 = ev.call(EM, "snell", n1, n2, TH)
    arg = None
    for a in t2.atoms(sp.Function):
        if a.func.__name__ == "ASIN":
            arg = a.args[0]
    if arg is None:
        raise AnalysisError("snell (complex branch): arcsin not found in the result")
    rem = sp.simplify(n2 * arg - n1 * s)
    ok = rem == 0
    ctx.ob("snell.complex_branch.limit", ok, "with Im(n2) = 0: n2 sin(theta2) - n1 sin(theta1) = %s" % rem,
           "0: the complex-index formula continues the real one (n1 enters only through the relative index)", node=f.node, func=f)
    ctx.models.append({"rule": "C08.snell", "identity": "complex limit", "cases": 1, "verdict": ok})
    # the refraction angle depends on the two media only through the relative index n2/n1: scaling both leaves it unchanged
    A, B, k = sp.symbols("a b k", positive=True)
    N2 = sp.Symbol("N2")
    hooks2 = {"sin": lambda u: s if u == TH * sp.pi / 180 else sp.sin(u), "arcsin": lambda u: sp.Function("ASIN")(u),
              "real": lambda u: A if u == N2 else u, "imag": lambda u: B if u == N2 else sp.Integer(0)}
    ev2 = Sym(ctx.repo, decide=dec, hooks=hooks2)
    t2b = ev2.call(EM, "snell", n1, N2, TH)
    arg2 = None
    for a_ in t2b.atoms(sp.Function):
        if a_.func.__name__ == "ASIN":
            arg2 = a_.args[0]
    if arg2 is None or arg2.has(N2):
        raise AnalysisError("snell (complex branch): refraction angle not expressed through real and imaginary part of n2")
    scaled = arg2.subs({n1: k * n1, A: k * A, B: k * B}, simultaneous=True)
    v2, info2 = is_zero(sp.simplify(scaled - arg2))
    if v2 is None:
        raise AnalysisError("snell (complex branch): scale invariance undecided: %s" % info2)
    ctx.ob("snell.complex_branch.relative_index", v2 is True, "sin(theta2)(k n1, k n2) - sin(theta2)(n1, n2) = %s" % sp.simplify(scaled - arg2),
           "0: only the relative index n2/n1 enters (real and imaginary part are both divided by n1 before squaring)", node=f.node, func=f,
           witness=None if v2 else info2)


def run(ctx):
    for r in (rule_forms, rule_inverse, rule_ratio, rule_units, rule_perunit, rule_snell, rule_snell_complex, rule_fresnel, rule_dtype):
        ctx.attempt(r, ctx)
    from ..purity import rule_pure
    ctx.attempt(rule_pure, ctx, "C08.pure", [(EM, n) for n in CONV + ["planck", "planck_wavelength", "planck_wavenumber", "rayleighjeans",
                "rayleighjeans_wavelength", "radiance2planckTb", "radiance2rayleighjeansTb", "perfrequency2perwavelength", "perwavelength2perfrequency",
                "perfrequency2perwavenumber", "perwavenumber2perfrequency", "snell", "fresnel"]])
    # the caller's arguments (arrays, filter / fill dictionaries) are not modified: an in-place update makes the next call on the same objects wrong
    from ..purity import rule_pure as _rule_args
    ctx.attempt(_rule_args, ctx, "C08.args", [('typhon/physics/em.py', 'planck'), ('typhon/physics/em.py', 'snell'), ('typhon/physics/em.py', 'fresnel'), ('typhon/physics/em.py', 'radiance2planckTb'), ('typhon/physics/em.py', 'perfrequency2perwavelength'), ('typhon/physics/em.py', 'perwavelength2perfrequency')], "the caller's arguments are not modified in place")
