"""C01 - FileSet.find returns exactly the files that overlap the requested period.

Decided: the semi-open period as composed from find()'s own statements and IntervalTree's
predicate (T4 on a tick model, the decrement read from the code); soundness of the directory
pruning with a one-period look-back (T4 implication on a two-level model, extracted signs,
operators and truncations); anchoring/escaping of the path regex (T1+T3); exclusion by name and
period (T1); white/black list split (T4 boolean); sort key and bundling partition (T6); field
truncation and the resolution table (T3); len/iter/contains agreement (T1); completeness of the
path setter (T1 definite assignment) and cache reset; plus the IntervalTree rules reachable
from find / is_excluded (shared with C03).  The file-system walk, handler-provided times and
pandas grouping are not decided.
"""
import ast
import itertools
from ..core import AnalysisError, norm, dotted, calls_in, walk_no_nested, parent, enclosing_stmt, const_value
from ..cfg import ENTRY, EXIT, RAISE
from ..flow import Flow, conjuncts
from ..order import Interp, Model
from ..algebra_lin import linear_form

FILESET = "typhon/files/fileset.py"
TIMEUTILS = "typhon/utils/timeutils.py"
TREES = "typhon/trees.py"
EXPECT = {"C01.args": 3, "C01.semiopen": 4, "C01.prune": 9, "C01.anchor": 3, "C01.exclude": 3, "C01.blacklist": 3, "C01.sortkey": 2, "C01.bundle": 3,
          "C01.trunc": 1, "C01.restable": 2, "C01.len": 3, "C01.pathstate": 1, "C01.reset": 1, "C01.answer": 2, "C01.fill": 1, "C01.trip": 1, "C01.helpers": 2, "C02.table": 19, "C02.doy": 4}

US = {"microseconds": 1, "milliseconds": 1000, "seconds": 10 ** 6, "minutes": 60 * 10 ** 6, "hours": 3600 * 10 ** 6, "days": 86400 * 10 ** 6, "weeks": 7 * 86400 * 10 ** 6}


def timedelta_ticks(n):
    """constant-fold timedelta(...) into microseconds"""
    if not (isinstance(n, ast.Call) and (dotted(n.func) or "").split(".")[-1] == "timedelta"):
        raise AnalysisError("not a timedelta literal: %s" % norm(n))
    order = ["days", "seconds", "microseconds", "milliseconds", "minutes", "hours", "weeks"]
    total = 0
    for i, a in enumerate(n.args):
        total += const_value(a) * US[order[i]]
    for k in n.keywords:
        if k.arg not in US:
            raise AnalysisError("timedelta keyword %s" % k.arg)
        total += const_value(k.value) * US[k.arg]
    return total


def _value_chain(flow, name, at, base_syms):
    """Linear form (over base symbols and ticks) of `name` at statement `at`, following
    AugAssign / Assign chains; `to_datetime(x)` and `x if ... else` are looked through."""
    defs = flow.defs(name, at)
    if len(defs) != 1:
        raise AnalysisError("value of %s at line %d has %d definitions" % (name, getattr(at, "lineno", 0), len(defs)))
    d = defs[0]
    if d == "param":
        return {base_syms[name]: 1}
    if isinstance(d, ast.AugAssign) and isinstance(d.op, (ast.Sub, ast.Add)):
        prev = _value_chain(flow, name, d, base_syms)
        ticks = timedelta_ticks(d.value)
        out = dict(prev)
        out["tick"] = out.get("tick", 0) + (ticks if isinstance(d.op, ast.Add) else -ticks)
        return out
    if isinstance(d, ast.Assign):
        v = d.value
        if isinstance(v, ast.IfExp):
            v = v.orelse       # `datetime.max if end is None else to_datetime(end)`: the given-value arm
        if isinstance(v, ast.Call) and (dotted(v.func) or "").split(".")[-1] == "to_datetime" and isinstance(v.args[0], ast.Name):
            return _value_chain(flow, v.args[0].id, d, base_syms)
        if isinstance(v, ast.BinOp) and isinstance(v.op, (ast.Add, ast.Sub)) and isinstance(v.left, ast.Name):
            prev = _value_chain(flow, v.left.id, d, base_syms)
            ticks = timedelta_ticks(v.right)
            out = dict(prev)
            out["tick"] = out.get("tick", 0) + (ticks if isinstance(v.op, ast.Add) else -ticks)
            return out
    raise AnalysisError("unsupported definition of %s: %s" % (name, norm(d)[:60] if not isinstance(d, str) else d))


def rule_semiopen(ctx):
    ctx.rule("C01.semiopen", "T4 equivalence + def-use", "the test applied to a file [t0, t1] for find(S, E) is t0 < E and t1 >= S (1 us clock)")
    from .C16 import ob_time_resolution
    ob_time_resolution(ctx)
    from .C03 import TreeFacts
    T = TreeFacts(ctx)
    f = ctx.func(FILESET, "FileSet.find")
    flow = Flow(f)
    sname, ename = f.params[1], f.params[2]
    gm = calls_in(f.node, "_get_matching_files")
    if len(gm) != 1:
        raise AnalysisError("find: expected one _get_matching_files call")
    c = gm[0]
    st = enclosing_stmt(c)
    a_start, a_end = c.args[2], c.args[3]
    if not (isinstance(a_start, ast.Name) and isinstance(a_end, ast.Name)):
        raise AnalysisError("find: start/end arguments of _get_matching_files are not names")
    base = {sname: "S", ename: "E"}
    fs = _value_chain(flow, a_start.id, st, base)
    fe = _value_chain(flow, a_end.id, st, base)
    g = ctx.func(FILESET, "FileSet._get_matching_files")
    ps, pe = g.params[3], g.params[4]
    ov = calls_in(g.node, "interval_overlaps")
    if not ov:
        raise AnalysisError("_get_matching_files: no interval_overlaps call")
    ys = [n for n in walk_no_nested(g.node) if isinstance(n, ast.Yield)]
    cond = None
    if ys:
        from ..flow import facts_at
        hits = [e_ for e_, tr_ in facts_at(enclosing_stmt(ys[0])) if tr_ and any(n_ is ov[0] for n_ in ast.walk(e_))]
        cond = hits[0] if hits else None

    def val(form, S, E):
        return form.get("S", 0) * S + form.get("E", 0) * E + form.get("tick", 0)

    def extracted(a):
        A, B = val(fs, a["S"], a["E"]), val(fe, a["S"], a["E"])
        env = {"file_info.times": (a["t0"], a["t1"]), ps: A, pe: B}
        return bool(Interp(env, {"interval_overlaps": T.OV}).ev(ov[0]))
    m = Model(["t0", "t1", "S", "E"], domain="box", bound=10 if ctx.tier == "thorough" else 6, constraint=lambda a: a["t0"] <= a["t1"] and a["S"] < a["E"])
    ok, wit, stt = m.compare(extracted, lambda a: a["t0"] < a["E"] and a["t1"] >= a["S"])
    ctx.models.append(dict(stt, rule="C01.semiopen", exhaustive=False))
    ctx.ob("FileSet.find.period", ok and cond is not None and any(n is ov[0] for n in ast.walk(cond)),
           "files are tested with %s where start = %s, end = %s (ticks of 1 us)" % (norm(ov[0]), fs, fe),
           "t0 < E and t1 >= S for every t0 <= t1, S < E (box 0..6): the end is exclusive by exactly one clock tick", node=c, func=f, witness=wit)
    # the guard rejects only empty periods
    gd = [s for s in flow.stmts if isinstance(s, ast.If) and any(isinstance(x, ast.Raise) for x in s.body) and ename in norm(s.test) and sname in norm(s.test)]
    okg = False
    fact = None
    if gd:
        fg_s = _value_chain(flow, sname, gd[0], base)
        fg_e = _value_chain(flow, ename, gd[0], base)
        bad = None
        for S, E in itertools.product(range(5), repeat=2):
            r = bool(Interp({sname: val(fg_s, S, E), ename: val(fg_e, S, E)}).ev(gd[0].test))
            if r != (E <= S):
                bad = (S, E, r)
        okg = bad is None
        fact = "raise if %s with start = %s, end = %s" % (norm(gd[0].test), fg_s, fg_e)
    ctx.ob("FileSet.find.guard", okg, fact, "ValueError exactly for E <= S (an empty semi-open period)", node=gd[0] if gd else f.node, func=f)
    # single-file arm uses the same decremented bounds
    sf = [c2 for c2 in calls_in(f.node, "interval_overlaps")]
    oks = False
    if sf:
        a = sf[0].args[1]
        a0 = flow.resolve(sf[0].args[0], at=sf[0], depth=2)
        the_file = str(norm(a0)).replace(" ", "") in ("self.get_info(self.path).times", "file_info.times")
        oks = isinstance(a, ast.Tuple) and [norm(e) for e in a.elts] == [a_start.id, a_end.id] and the_file \
            and _value_chain(flow, a_end.id, enclosing_stmt(sf[0]), base) == fe
    ctx.ob("FileSet.find.single_file", oks, "%s" % (norm(sf[0]) if sf else None), "the single-file arm applies the same test to (start, end - 1 tick)", node=sf[0] if sf else f.node, func=f)
    # __contains__
    h = ctx.func(FILESET, "FileSet.__contains__")
    hflow = Flow(h)
    fc = calls_in(h.node, "find")
    okc = False
    fact = None
    if fc:
        c2 = fc[0]
        kw = {k.arg: norm(k.value) for k in c2.keywords}
        kwn = {k.arg: k.value for k in c2.keywords}
        a_s = c2.args[0] if len(c2.args) > 0 else kwn.get("start")
        a_e = c2.args[1] if len(c2.args) > 1 else kwn.get("end")
        if a_s is None or a_e is None:
            raise AnalysisError("__contains__: the period handed to find() was not found in %s" % norm(c2)[:70])
        sdefs = hflow.defs(norm(a_s), enclosing_stmt(c2))
        edefs = hflow.defs(norm(a_e), enclosing_stmt(c2))
        scalar_end = [d for d in edefs if isinstance(d, ast.Assign) and isinstance(d.value, ast.BinOp)]
        eps = None
        if scalar_end and isinstance(scalar_end[0].value.op, ast.Add) and norm(scalar_end[0].value.left) == norm(a_s):
            eps = timedelta_ticks(scalar_end[0].value.right)
        if eps is None:
            # the period built as a pair under "not a sequence": (t, t + 1 tick), unpacked into the two arguments
            asm_ = {"isinstance(%s, (tuple, list))" % h.params[1]: False, "isinstance(%s, (list, tuple))" % h.params[1]: False}
            try:
                v_s = hflow.resolve_under(a_s, asm_, at=c2, depth=4, stop=(h.params[1],))
                v_e = hflow.resolve_under(a_e, asm_, at=c2, depth=4, stop=(h.params[1],))
                if isinstance(v_e, ast.BinOp) and isinstance(v_e.op, ast.Add) and norm(v_e.left) == norm(v_s):
                    eps = timedelta_ticks(v_e.right)
            except AnalysisError:
                eps = None
        fact = "find(%s, %s, %s); scalar arm end = start + %s tick(s)" % (norm(a_s), norm(a_e), {k_: v_ for k_, v_ in kw.items() if k_ not in ("start", "end")}, eps)
        okc = eps == 1 and kw.get("no_files_error") == "False"
    ctx.ob("FileSet.__contains__", okc, fact, "`t in fileset` searches [t, t + 1 tick) i.e. t0 <= t <= t1; no error for an empty answer", node=fc[0] if fc else h.node, func=h)


def rule_prune(ctx):
    ctx.rule("C01.prune", "T4 implication + def-use", "directory pruning is sound: a file overlapping the query lies in a directory that passes the checks")
    f = ctx.func(FILESET, "FileSet.find")
    flow = Flow(f)
    sname, ename = f.params[1], f.params[2]
    sd = calls_in(f.node, "_get_search_dirs")
    if len(sd) != 1:
        raise AnalysisError("find: expected one _get_search_dirs call")
    c = sd[0]
    a0 = c.args[0]
    defs = flow.defs(a0.id, enclosing_stmt(c)) if isinstance(a0, ast.Name) else []
    forms = []
    guards = []
    for d in defs:
        if isinstance(d, ast.Assign):
            v_ = d.value
            if isinstance(v_, ast.IfExp):
                v_ = v_.orelse      # `datetime.min if start is None else to_datetime(start)`: the given-value arm
            forms.append(linear_form(v_, {sname: "S", "self._sub_dir_time_resolution": "R"}))
            g = parent(d)
            if isinstance(g, ast.If):
                guards.append(norm(g.test))
    okf = sorted(map(lambda x: sorted(x.items()), forms)) == sorted([sorted({"S": 1}.items()), sorted({"S": 1, "R": -1}.items())])
    ctx.ob("FileSet.find.lookback", okf, "dir_start in %s (guards %s)" % (forms, guards),
           "dir_start = start - sub-directory resolution (look-BACK by one period of the finest directory level), or start when there is none",
           node=c, func=f)
    # the look-back is given up only where there is no directory period or nothing before the start
    from ..flow import guard_chain as _gc
    lb = [d for d in defs if isinstance(d, ast.Assign) and not isinstance(d.value, ast.IfExp)
          and linear_form(d.value, {sname: "S", "self._sub_dir_time_resolution": "R"}) == {"S": 1, "R": -1}]
    if okf and len(lb) == 1:
        atoms = []

        def _add(e_, truth):
            while isinstance(e_, ast.UnaryOp) and isinstance(e_.op, ast.Not):
                e_, truth = e_.operand, not truth
            if isinstance(e_, ast.BoolOp) and ((isinstance(e_.op, ast.And) and truth) or (isinstance(e_.op, ast.Or) and not truth)):
                for v__ in e_.values:
                    _add(v__, truth)
            else:
                e2 = flow.resolve(e_, at=lb[0], stop=(sname,))
                if e2 is not e_ and isinstance(e2, (ast.BoolOp, ast.UnaryOp)):
                    _add(e2, truth)
                else:
                    atoms.append((e2, truth))
        for t_, pol_ in _gc(lb[0]):
            _add(t_, pol_)
        R = "self._sub_dir_time_resolution"
        accepted = {("%s is None" % R, False), ("%s is not None" % R, True), (R, True), ("%s == datetime.min" % sname, False),
                    ("%s != datetime.min" % sname, True), ("%s > datetime.min" % sname, True), ("datetime.min < %s" % sname, True),
                    ("%s <= datetime.min" % sname, False), ("datetime.min == %s" % sname, False), ("datetime.min != %s" % sname, True)}
        foreign = []
        for e_, tr_ in atoms:
            if (str(norm(e_)), tr_) in accepted:
                continue
            names_ = {norm(n_) for n_ in ast.walk(e_) if isinstance(n_, (ast.Name, ast.Attribute))}
            if R in names_ or sname in names_ or "self._sub_dir" in names_:
                raise AnalysisError("find: the look-back is taken under %s%s - a condition on the start or the resolution that is not analysed" % ("" if tr_ else "not ", norm(e_)))
            foreign.append(("" if tr_ else "not ") + str(norm(e_))[:90])
        ctx.ob("FileSet.find.lookback.always", not foreign, "look-back taken only if also: %s" % (foreign or "nothing else"),
               "given up only without a directory period or for a search from the beginning of time: a file may always reach beyond the "
               "period of its directory (its end comes from the name, the handler or time_coverage)", node=lb[0], func=f)
    else:
        ctx.ob("FileSet.find.lookback.always", okf, "look-back forms not recognised", "see FileSet.find.lookback", node=c, func=f)
    base = {sname: "S", ename: "E"}
    e_form = _value_chain(flow, c.args[1].id, enclosing_stmt(c), base) if isinstance(c.args[1], ast.Name) else None
    ctx.ob("FileSet.find.search_end", e_form == {"E": 1, "tick": -1}, "second argument of _get_search_dirs = %s" % e_form, "the (exclusive) end minus one tick", node=c, func=f)
    # R is the finest resolution of the directory part
    ps = ctx.func(FILESET, "FileSet.path.setter")
    asg = [st for st in walk_no_nested(ps.node) if isinstance(st, ast.Assign) and norm(st.targets[0]) == "self._sub_dir_time_resolution"]
    okR = bool(asg) and norm(asg[0].value).replace(" ", "") == "self._get_time_resolution(self._sub_dir)[1]"
    gt = ctx.func(FILESET, "FileSet._get_time_resolution")
    hi = [st for st in walk_no_nested(gt.node) if isinstance(st, ast.If) and norm(st.test) == "highest"]
    okmin = bool(hi) and isinstance(hi[0].body[0], ast.Assign) and dotted(hi[0].body[0].value.func) == "min" and "_temporal_resolution[k]" in norm(hi[0].body[0].value)
    dfl = gt.defaults().get("highest")
    ctx.ob("FileSet.path.setter.resolution", okR and okmin and dfl is not None and norm(dfl) == "True",
           "%s; highest -> %s" % (norm(asg[0]) if asg else None, dotted(hi[0].body[0].value.func) if hi else None),
           "resolution of the DIRECTORY part only (self._sub_dir), the finest unit in it (min by table value): a look-back computed from the "
           "file-name part would be shorter than a directory period", node=asg[0] if asg else ps.node, func=ps)
    # _get_search_dirs: both bounds truncated to the chunk's unit, passed in order
    g = ctx.func(FILESET, "FileSet._get_search_dirs")
    gs, ge = g.params[1], g.params[2]
    A = {}
    for st in walk_no_nested(g.node):
        if isinstance(st, ast.Assign) and isinstance(st.targets[0], ast.Name):
            A[st.targets[0].id] = st
    cp = calls_in(g.node, "_check_placeholders")
    okt = False
    fact = None
    if cp:
        s_arg, e_arg = norm(cp[0].args[1]), norm(cp[0].args[2])
        gflow = Flow(g)
        accs = tuple(st.targets[0].id for st in walk_no_nested(g.node) if isinstance(st, ast.Assign) and isinstance(st.targets[0], ast.Name)
                     and any(isinstance(n_, ast.Name) and n_.id == st.targets[0].id for n_ in ast.walk(st.value)))
        sv = gflow.resolve(cp[0].args[1], at=cp[0], depth=3, stop=(gs, ge) + accs)
        ev = gflow.resolve(cp[0].args[2], at=cp[0], depth=3, stop=(gs, ge) + accs)
        fact = "%s = %s; %s = %s" % (s_arg, norm(sv), e_arg, norm(ev))
        # both bounds truncated with set_time_resolution(<bound>, <unit>), the same unit, in this order
        okt = False
        units = []
        for v_, b_ in ((sv, gs), (ev, ge)):
            if isinstance(v_, ast.Call) and dotted(v_.func) == "set_time_resolution" and len(v_.args) == 2 and norm(v_.args[0]) == b_:
                units.append(v_.args[1])
        if len(units) != 2:
            if not (calls_in(sv, "set_time_resolution") or calls_in(ev, "set_time_resolution")):
                raise AnalysisError("_get_search_dirs: truncation of the search bounds not found")
        else:
            okt = norm(units[0]) == norm(units[1])
    ctx.ob("FileSet._get_search_dirs.truncate", okt, fact, "start_check / end_check = the search bounds truncated to the unit of this directory level, in this order",
           node=cp[0] if cp else g.node, func=g)
    # the unit is the finest one among ALL directory levels down to the current one: a directory's attributes include those
    # parsed from its parents, so truncating to the unit of the current level alone (which falls back to 'year' for a level
    # without temporal placeholders) compares a date with a bound that is too coarse and prunes directories inside the range
    if cp and len(units) == 2:
        u = units[0]
        src = None
        if isinstance(u, ast.Subscript) and isinstance(u.value, ast.Call) and dotted(u.value.func) == "self._get_time_resolution" and u.value.args \
                and isinstance(u.slice, ast.Constant) and u.slice.value == 0:
            src = u.value.args[0]
        if src is None:
            raise AnalysisError("_get_search_dirs: truncation unit %s is not self._get_time_resolution(<levels>)[0]" % norm(u))
        lp_ = [st for st in gflow.stmts if isinstance(st, ast.For) and norm(st.iter) == "self._sub_dir_chunks"]
        if len(lp_) != 1 or not isinstance(lp_[0].target, ast.Name):
            raise AnalysisError("_get_search_dirs: loop over the sub directory levels not found")
        chunk = lp_[0].target.id
        okacc = False
        why = "unit derived from %s" % norm(src)
        if isinstance(src, ast.Name) and src.id != chunk:
            # an accumulator: initialised before the loop, extended by the chunk on EVERY iteration (before any `continue`)
            upd = [st for st in lp_[0].body if isinstance(st, ast.Assign) and norm(st.targets[0]) == src.id]
            init = [d_ for d_ in gflow.defs(src.id, lp_[0]) if d_ != "param" and not any(d_ is x for x in ast.walk(lp_[0]))]
            first_jump = min([k_ for k_, st in enumerate(lp_[0].body) if any(isinstance(n_, ast.Continue) for n_ in ast.walk(st))] or [len(lp_[0].body)])
            okacc = len(upd) == 1 and lp_[0].body.index(upd[0]) < first_jump and len(init) == 1 \
                and any(isinstance(n_, ast.Name) and n_.id == chunk for n_ in ast.walk(upd[0].value)) \
                and any(isinstance(n_, ast.Name) and n_.id == src.id for n_ in ast.walk(upd[0].value))
            why = "unit from %s, accumulated as %s" % (src.id, norm(upd[0]) if upd else None)
        elif isinstance(src, ast.Name) and src.id == chunk:
            why = "unit from the current level `%s` alone" % chunk
        elif norm(src) in ("self._sub_dir",):
            okacc = True         # the whole directory part: at least as fine as every level
        else:
            raise AnalysisError("_get_search_dirs: source %s of the truncation unit not understood" % norm(src))
        ctx.ob("FileSet._get_search_dirs.unit", okacc, why,
               "the finest temporal unit among this and all upper directory levels (the directory's attributes include its parents')",
               node=cp[0], func=g)
    # a level without placeholders is appended WITH a trailing separator: the next level globs for `<dir>*`
    # (_get_matching_dirs), which would otherwise match the literal directory itself instead of its children
    md = ctx.func(FILESET, "FileSet._get_matching_dirs")
    globs = [c for c in calls_in(md.node, "glob") if c.args]
    needs_sep = any("+ '*'" in str(norm(c.args[0])).replace('"', "'") or "+'*'" in str(norm(c.args[0])).replace('"', "'").replace(" ", "") for c in globs)
    if not globs:
        raise AnalysisError("_get_matching_dirs: glob call not found")
    lp_ = [st for st in walk_no_nested(g.node) if isinstance(st, ast.For) and norm(st.iter) == "self._sub_dir_chunks"]
    if len(lp_) == 1 and isinstance(lp_[0].target, ast.Name) and needs_sep:
        chunk = lp_[0].target.id
        lit = [c for c in calls_in(lp_[0], "join") if dotted(c.func) in ("posixpath.join", "os.path.join") and any(norm(a_) == chunk for a_ in c.args)
               and not calls_in(c, "_get_time_resolution") and not any(c is x for st in lp_[0].body if isinstance(st, ast.Assign) and isinstance(st.targets[0], ast.Name)
                                                                           for x in ast.walk(st.value) if any(isinstance(n_, ast.Name) and n_.id == st.targets[0].id for n_ in ast.walk(st.value)))]
        if len(lit) != 1:
            raise AnalysisError("_get_search_dirs: the join that appends a literal level was not found (%d candidates)" % len(lit))
        j = lit[0]
        last = j.args[-1]
        oksep = (isinstance(last, ast.Constant) and last.value == "") or (isinstance(parent(j), ast.BinOp) and isinstance(parent(j).op, ast.Add)
                                                                         and isinstance(parent(j).right, ast.Constant) and parent(j).right.value in ("/", ))
        ctx.ob("FileSet._get_search_dirs.literal_level", oksep, "%s; the next level globs for %s" % (norm(j), norm(globs[0].args[0])),
               "posixpath.join(dir, level, '') - the directory handed to the next level ends with the separator", node=j, func=g)
    # _check_placeholders comparison + model
    h = ctx.func(FILESET, "FileSet._check_placeholders")
    hs, he = h.params[2], h.params[3]
    # (a try around the parsing of the directory's date - a directory naming a date that does not exist is skipped - is not the comparison)
    tries = [t_ for t_ in walk_no_nested(h.node) if isinstance(t_, ast.Try) and any(isinstance(n_, ast.Compare) for s_ in t_.body for n_ in ast.walk(s_))]
    if len(tries) != 1 or len(tries[0].handlers) != 1:
        raise AnalysisError("_check_placeholders: the comparison inside try/except was not found")
    from ..normalize import _returns_to_ifexp
    main = _returns_to_ifexp(tries[0].body)
    if main is None and len(tries[0].body) == 1 and isinstance(tries[0].body[0], ast.Assign) and isinstance(tries[0].body[0].targets[0], ast.Name) \
            and len(tries[0].orelse) == 1 and isinstance(tries[0].orelse[0], ast.Return) and norm(tries[0].orelse[0].value) == tries[0].body[0].targets[0].id:
        main = tries[0].body[0].value        # try: v = <comparison>  except: ...  else: return v
    fbx = _returns_to_ifexp(tries[0].handlers[0].body)
    if main is None or fbx is None:
        raise AnalysisError("_check_placeholders: try body / handler is not a decision between returned values")
    rets = [r for r in walk_no_nested(tries[0]) if isinstance(r, ast.Return)]
    merged = [st for st in walk_no_nested(h.node) if isinstance(st, ast.Assign) and norm(st.targets[0]) == "attr_end"
              and norm(st.value) == "{**attr_start, **attr_end}"]
    okm = bool(merged)
    a_coef = -1 if okf else None
    bad = None
    n = 0
    if a_coef is not None:
        rho1, rho2 = 3, 6
        hi_ = 36 if ctx.tier == "thorough" else 24
        for t0, dlen, S, E in itertools.product(range(6, hi_), range(0, rho1 + 1), range(6, hi_), range(6, hi_ + 1)):
            if not S < E:
                continue
            t1 = t0 + dlen
            B = E - 1
            if not (t0 <= B and t1 >= S):
                continue
            n += 1
            A_ = S + a_coef * rho1
            for rho in (rho1, rho2):
                D = t0 - t0 % rho
                env = {"datetime(**attr_start)": D, "datetime(**attr_end)": D, hs: A_ - A_ % rho, he: B - B % rho}
                if not Interp(env).ev(main):
                    bad = {"t0": t0, "t1": t1, "S": S, "E": E, "level period": rho, "dir": D, "start_check": env[hs], "end_check": env[he]}
                    break
            if bad:
                break
    ctx.models.append({"rule": "C01.prune", "cases": n, "domain": "ticks 6..24, periods 3 and 6, files up to one fine period long", "exhaustive": False})
    ctx.ob("FileSet._check_placeholders.sound", bad is None and okm and a_coef is not None, "directory passes iff %s (end fields merged over start fields: %s); %d overlapping cases" % (norm(main), okm, n),
           "(file overlaps [S, E) and lasts <= one finest period and sits in the directory of its start) => its directory passes on both levels",
           node=tries[0], func=h, witness=bad)
    # fallback: year-only comparison with the same shape
    # fallback (datetime construction failed: coarse fields only): it must never prune a directory that lies inside the searched
    # range - decided over all small (year, month) combinations, the range compared lexicographically
    okfb = True
    wit_fb = None
    rng = range(3)
    for ys, ms, ye, me, sy, sm, ey, em in itertools.product(rng, repeat=8):
        if (ys, ms) > (ye, me) or (sy, sm) > (ey, em):
            continue
        inside = (sy, sm) <= (ys, ms) and (ye, me) <= (ey, em)
        if not inside:
            continue
        env = {"year": ys, "%s.year" % hs: sy, "%s.month" % hs: sm, "%s.year" % he: ey, "%s.month" % he: em}
        for q in ("'", '"'):
            env["attr_start[%syear%s]" % (q, q)] = ys
            env["attr_start[%smonth%s]" % (q, q)] = ms
            env["attr_end[%syear%s]" % (q, q)] = ye
            env["attr_end[%smonth%s]" % (q, q)] = me
            env["%smonth%s in attr_start" % (q, q)] = True
            env["%smonth%s in attr_end" % (q, q)] = True
            for nm_, (y_, m_) in (("attr_start", (ys, ms)), ("attr_end", (ye, me))):
                for key_, val_ in (("year", y_), ("month", m_)):
                    env["%s.get(%s%s%s)" % (nm_, q, key_, q)] = val_
                    env["%s.get(%s%s%s, None)" % (nm_, q, key_, q)] = val_
        try:
            got = bool(Interp(env).ev(fbx))
        except AnalysisError as e_:
            raise AnalysisError("_check_placeholders: fallback %s outside the model: %s" % (norm(fbx)[:80], e_))
        if not got:
            okfb = False
            wit_fb = {"directory": [(ys, ms), (ye, me)], "searched": [(sy, sm), (ey, em)], "fallback": got}
            break
    ctx.ob("FileSet._check_placeholders.fallback", okfb, "%s" % norm(fbx)[:160],
           "a directory inside the searched range (year, month compared lexicographically) is never pruned by the coarse fallback",
           node=tries[0].handlers[0], func=h, witness=wit_fb)


def rule_exclude(ctx):
    ctx.rule("C01.exclude", "T1", "every file yielded passed the overlap test and `not is_excluded`; is_excluded = name hit or period membership")
    g = ctx.func(FILESET, "FileSet._get_matching_files")
    ys = [n for n in walk_no_nested(g.node) if isinstance(n, ast.Yield)]
    ok = False
    fact = None
    if len(ys) == 1:
        from ..flow import facts_at
        fa = facts_at(enclosing_stmt(ys[0]))
        guards = [("" if tr else "not ") + str(norm(e)) for e, tr in fa]
        fact = guards
        ok = "not self.is_excluded(file_info)" in guards and any(x.startswith("IntervalTree.interval_overlaps(file_info.times") for x in guards) \
            and any(x.startswith("regex.match") for x in guards) and norm(ys[0].value) == "file_info"
    ctx.ob("FileSet._get_matching_files.yield", ok, "yield guarded by %s" % fact, "regex match, interval overlap and `not self.is_excluded(file_info)`", node=ys[0] if ys else g.node, func=g)
    # the single-file branch of find() yields its one file under the same exclusion test
    fnd = ctx.func(FILESET, "FileSet.find")
    sf = [st for st in fnd.body if isinstance(st, ast.If) and str(norm(st.test)) == "self.single_file"]
    if len(sf) != 1:
        raise AnalysisError("find: the single-file branch was not found")
    ys1 = [n for n in walk_no_nested(sf[0]) if isinstance(n, ast.Yield) and any(n is x for b_ in sf[0].body for x in ast.walk(b_))]
    if len(ys1) != 1:
        raise AnalysisError("find: expected one yield in the single-file branch")
    from ..flow import facts_at
    from ..flow import expand_none_facts
    fnd_flow = Flow(fnd)
    fa1, vals1 = expand_none_facts(fnd_flow, facts_at(enclosing_stmt(ys1[0])), enclosing_stmt(ys1[0]))
    g1 = [("" if tr else "not ") + str(norm(e_)) for e_, tr in fa1]
    v1 = str(norm(ys1[0].value))
    if v1 in vals1:
        v1 = str(norm(vals1[v1]))        # `single = info` on the one path that does not bind None: the file yielded is `info`
    ok1 = ("not self.is_excluded(%s)" % v1) in g1 and any(x.startswith("IntervalTree.interval_overlaps(%s.times" % v1) for x in g1)
    ctx.ob("FileSet.find.single_file.yield", ok1, "yield guarded by %s" % g1, "interval overlap and `not self.is_excluded(file_info)`: an excluded single file is omitted like any other",
           node=ys1[0], func=fnd, witness=None if ok1 else {"FileSet": "one file, time_coverage given, exclude=[(2018-01-02, 2018-01-03)]", "'2018-01-05' in fs": True})
    e = ctx.func(FILESET, "FileSet.is_excluded")
    body = [norm(s) for s in e.body]
    p = e.params[1]
    # truth table over (name listed, no period tree, times inside a period): True iff listed or (tree and inside); without a tree the
    # membership test must not be evaluated at all (None does not support `in`)
    from ..order import eval_function
    wrong = None
    for a_, b_, c_ in itertools.product((False, True), repeat=3):
        env_ = {"%s.path in self._exclude_files" % p: a_, "%s.path not in self._exclude_files" % p: not a_, "self._exclude_times is None": b_,
                "self._exclude_times is not None": not b_, "not self._exclude_times": b_, "self._exclude_times": not b_}
        if not b_:
            env_["%s.times in self._exclude_times" % p] = c_
            env_["%s.times not in self._exclude_times" % p] = not c_
        try:
            got_ = eval_function(e, ["<file>"], env=env_)
        except AnalysisError as ex_:
            if b_ and "_exclude_times" in str(ex_):
                got_ = "membership in a missing tree evaluated"
            else:
                raise AnalysisError("is_excluded outside the model: %s" % ex_)
        if got_ is not (a_ or (not b_ and c_)) and wrong is None:
            wrong = {"name listed": a_, "period tree": not b_, "times in a period": c_, "is_excluded": got_}
    ctx.ob("FileSet.is_excluded", wrong is None, "%s" % body, "name in the exclusion set -> True; no period tree -> False; else `file.times in tree` (interval membership)", node=e.node, func=e,
           witness=wrong)
    x = ctx.func(FILESET, "FileSet.exclude_times")
    okx = False
    for st in walk_no_nested(x.node):
        if isinstance(st, ast.If) and st.orelse:
            t = [norm(s) for s in st.body]
            o = [norm(s) for s in st.orelse]
            okx = t == ["self._exclude_times = None"] and o == ["self._exclude_times = IntervalTree(%s)" % x.params[1]] and "None" in norm(st.test)
    ctx.ob("FileSet.exclude_times", okx, "%s" % norm(x.node.body[-1])[:100], "no periods -> None; otherwise an IntervalTree of all given periods", node=x.node, func=x)


def rule_blacklist(ctx):
    ctx.rule("C01.blacklist", "T4 (boolean)", "filters split by the '!' prefix; a file is kept iff no black-listed placeholder matches")
    f = ctx.func(FILESET, "FileSet.find")
    dcs = [n for n in walk_no_nested(f.node) if isinstance(n, ast.DictComp) and norm(n.generators[0].iter) == "%s.items()" % f.params[6]]
    def kv(d):
        t = d.generators[0].target
        return (norm(t.elts[0]), norm(t.elts[1])) if isinstance(t, ast.Tuple) and len(t.elts) == 2 else ("?", "?")
    white = [d for d in dcs if [norm(i) for i in d.generators[0].ifs] == ["not %s.startswith('!')" % kv(d)[0]]]
    black = [d for d in dcs if [norm(i) for i in d.generators[0].ifs] == ["%s.startswith('!')" % kv(d)[0]]]
    okw = len(white) == 1 and norm(white[0].key) == kv(white[0])[0] and norm(white[0].value) == kv(white[0])[1]
    okb = len(black) == 1 and norm(black[0].key) in ("%s.lstrip('!')" % kv(black[0])[0], "%s[1:]" % kv(black[0])[0])
    if okb:
        # the black-list value is a function of the filter value only (compiled to a regex by a helper or in place)
        bv = black[0].value
        vname = kv(black[0])[1]
        free = {n_.id for n_ in ast.walk(bv) if isinstance(n_, ast.Name) and isinstance(n_.ctx, ast.Load)}
        if isinstance(bv, ast.Call) and len(bv.args) == 1 and norm(bv.args[0]) == vname:
            okb = True
        elif vname in free and free <= {vname, "re", "isinstance", "tuple", "list", "str", "convert"} and calls_in(bv, "compile"):
            okb = True
        else:
            raise AnalysisError("find: black-list value %s not understood" % norm(bv)[:80])
    if not white and not black and not dcs:
        raise AnalysisError("find: white/black list construction not recognised")
    ctx.ob("FileSet.find.filter_split", okw and okb, "white: %s; black: %s" % ([norm(d) for d in white], [norm(d) for d in black]),
           "keys without '!' -> white list (into the regex); keys with '!' -> black list under the stripped name", node=dcs[0] if dcs else f.node, func=f)
    gen = [n for n in walk_no_nested(f.node) if isinstance(n, ast.GeneratorExp) and len(n.generators) == 2]
    okk = False
    fact = None
    if gen:
        ifs = [norm(i) for i in gen[0].generators[1].ifs]
        fact = ifs
        if len(gen[0].generators[1].ifs) == 1:
            t = gen[0].generators[1].ifs[0]
            tt = {}
            for bl, chk in itertools.product([False, True], repeat=2):
                tt[(bl, chk)] = bool(Interp({"black_list": bl, "self._check_file(black_list, file_info.attr)": chk}).ev(t))
            okk = all(tt[(bl, chk)] == ((not bl) or chk) for bl, chk in tt)
    ctx.ob("FileSet.find.filter_keep", okk, "kept iff %s" % fact, "not black_list or _check_file(black_list, file.attr)", node=gen[0] if gen else f.node, func=f)
    c = ctx.func(FILESET, "FileSet._check_file")
    bl, ph = c.params[0], c.params[1]
    fact, okc = _check_file_table(c, bl, ph)
    ctx.ob("FileSet._check_file", okc, fact, "False only when a forbidden regex matches the file's WHOLE value of that placeholder (fullmatch, as the white list selects whole values); absent placeholders are skipped; True otherwise", node=c.node, func=c)


class _Crash(Exception):
    pass


def _check_file_table(c, bl, ph):
    """reduce _check_file to `rejected iff some entry (k, rx) of the black list satisfies R(k, rx)` and decide R by a truth table
    over the states of the file's value for k (absent / None / a string) and of the regex methods on it"""
    lp = [s for s in c.body if isinstance(s, ast.For)]
    if lp and len(c.body) == 2 and c.body[0] is lp[0] and norm(c.body[1]) == "return True" and not lp[0].orelse:
        loop = lp[0]
        it, target = loop.iter, loop.target
        env, conds, reject = {}, [], None

        def sub(e):
            from ..normalize import _Subst, clone
            return _Subst(dict(env)).visit(clone(e))
        for st in loop.body:
            if isinstance(st, ast.Assign) and len(st.targets) == 1 and isinstance(st.targets[0], ast.Name):
                env[st.targets[0].id] = sub(st.value)
            elif isinstance(st, ast.If) and not st.orelse and len(st.body) == 1 and isinstance(st.body[0], ast.Continue):
                conds.append(ast.UnaryOp(op=ast.Not(), operand=sub(st.test)))
            elif isinstance(st, ast.If) and not st.orelse and len(st.body) == 1 and norm(st.body[0]) == "return False" and reject is None:
                reject = ast.BoolOp(op=ast.And(), values=conds + [sub(st.test)]) if conds else sub(st.test)
            elif isinstance(st, ast.If) and not st.orelse and reject is None and len(st.body) == 1 and isinstance(st.body[0], ast.If) \
                    and not st.body[0].orelse and len(st.body[0].body) == 1 and norm(st.body[0].body[0]) == "return False":
                reject = ast.BoolOp(op=ast.And(), values=conds + [sub(st.test), sub(st.body[0].test)])
            elif isinstance(st, ast.Return) and st is loop.body[-1] and st.value is not None and not isinstance(st.value, ast.Constant):
                # an unconditional return at the end of the loop body: the verdict of the FIRST present entry decides, later black lists are never consulted
                return "for %s in %s: ... return %s  [the loop returns on its first pass: only the first black-listed placeholder is consulted]" % (
                    norm(target), norm(it), norm(st.value)[:80]), False
            else:
                raise AnalysisError("_check_file: loop statement not understood: %s" % norm(st)[:80])
        if reject is None:
            raise AnalysisError("_check_file: the loop never returns False")
    elif not lp and len(c.body) == 1 and isinstance(c.body[0], ast.Return):
        v = c.body[0].value
        neg = isinstance(v, ast.UnaryOp) and isinstance(v.op, ast.Not)
        inner = v.operand if neg else v
        if not (isinstance(inner, ast.Call) and dotted(inner.func) in ("any", "all") and len(inner.args) == 1 and not inner.keywords
                and isinstance(inner.args[0], (ast.GeneratorExp, ast.ListComp)) and len(inner.args[0].generators) == 1):
            raise AnalysisError("_check_file: single return expression not understood")
        g = inner.args[0].generators[0]
        it, target = g.iter, g.target
        elt = inner.args[0].elt
        if dotted(inner.func) == "any" and neg:
            last = elt
        elif dotted(inner.func) == "all" and not neg:
            last = ast.UnaryOp(op=ast.Not(), operand=elt)
        else:
            return "%s" % norm(v)[:160], False        # any() without not / not all(): the sense is inverted
        reject = ast.BoolOp(op=ast.And(), values=list(g.ifs) + [last]) if g.ifs else last
    else:
        raise AnalysisError("_check_file: neither the loop form nor a single any(...) / all(...) expression")
    if norm(it) == "%s.items()" % bl and isinstance(target, ast.Tuple) and len(target.elts) == 2 and all(isinstance(e, ast.Name) for e in target.elts):
        k_, rx_ = [e.id for e in target.elts]
        rx_e = rx_
    elif norm(it) in (bl, "%s.keys()" % bl) and isinstance(target, ast.Name):
        k_, rx_e = target.id, "%s[%s]" % (bl, target.id)
    else:
        raise AnalysisError("_check_file: iteration %s over %s not understood" % (norm(target), norm(it)))
    val_texts = {"%s.get(%s,None)" % (ph, k_): "get", "%s.get(%s)" % (ph, k_): "get", "%s[%s]" % (ph, k_): "item"}

    def ev(e, st):
        state, m = st
        txt = str(norm(e)).replace(" ", "")
        if txt in val_texts:
            if val_texts[txt] == "item" and state == "absent":
                raise _Crash("KeyError")
            return "v" if state == "str" else None
        if txt in ("%sin%s" % (k_, ph), "%sin%s.keys()" % (k_, ph)):
            return state != "absent"
        if txt in ("%snotin%s" % (k_, ph),):
            return state == "absent"
        if isinstance(e, ast.Constant) and (e.value is None or isinstance(e.value, bool)):
            return e.value
        if isinstance(e, ast.BoolOp):
            r = None
            for x in e.values:
                r = ev(x, st)
                if (isinstance(e.op, ast.And) and not r) or (isinstance(e.op, ast.Or) and r):
                    return r
            return r
        if isinstance(e, ast.UnaryOp) and isinstance(e.op, ast.Not):
            return not ev(e.operand, st)
        if isinstance(e, ast.Compare) and len(e.ops) == 1 and isinstance(e.ops[0], (ast.Is, ast.IsNot)) and norm(e.comparators[0]) == "None":
            r = ev(e.left, st) is None
            return r if isinstance(e.ops[0], ast.Is) else not r
        if isinstance(e, ast.Call) and isinstance(e.func, ast.Attribute) and str(norm(e.func.value)).replace(" ", "") == rx_e and len(e.args) == 1 and not e.keywords \
                and e.func.attr in ("fullmatch", "match", "search"):
            a = ev(e.args[0], st)
            if a is None:
                raise _Crash("TypeError: the regex applied to None")
            return m[e.func.attr]
        if isinstance(e, ast.Call) and dotted(e.func) == "bool" and len(e.args) == 1:
            return bool(ev(e.args[0], st))
        raise AnalysisError("_check_file: expression %s outside the modelled class" % norm(e)[:80])
    wrong = []
    for state in ("absent", "none", "str"):
        for full, begin in ((False, False), (False, True), (True, True)):       # fullmatch implies match and search
            st = (state, {"fullmatch": full, "match": begin, "search": begin})
            try:
                got = bool(ev(reject, st))
            except _Crash as e_:
                wrong.append("value %s: %s" % (state, e_))
                continue
            want = state == "str" and full
            if got != want:
                wrong.append("value %s, matches whole=%s beginning=%s: rejected=%s" % (state, full, begin, got))
    fact = "for %s in %s: rejected iff %s" % (norm(target), norm(it), norm(reject)[:200])
    if wrong:
        fact += "  [%s]" % "; ".join(wrong[:3])
        if any("beginning=True" in w and "whole=False" in w for w in wrong):
            fact += " [a regex anchored only at the beginning: the value 'NOAA18' is rejected by the forbidden value 'NOAA1']"
    return fact, not wrong


def rule_sort_bundle(ctx):
    ctx.rule("C01.sortkey", "T6+T4", "the stream is sorted exactly when sort or a bundle (by count or by time frequency) is requested, ascending by (t0, t1)")
    f = ctx.func(FILESET, "FileSet._prepare_find_return")
    fi, so, op, bs = f.params[:4]
    first = next((s_ for s_ in f.body if not isinstance(s_, (ast.FunctionDef, ast.Assign))), f.body[0])
    ok = False
    fact = None
    if isinstance(first, ast.If):
        tt = {}
        for s, kind_ in itertools.product([False, True], ("none", "int", "str")):
            env_b = {so: s, "isinstance(%s, int)" % bs: kind_ == "int", "isinstance(%s, str)" % bs: kind_ == "str", "isinstance(%s, (int, str))" % bs: kind_ != "none",
                     "isinstance(%s, (str, int))" % bs: kind_ != "none", "%s is not None" % bs: kind_ != "none", "%s is None" % bs: kind_ == "none", bs: kind_ != "none"}
            tt[(s, kind_)] = bool(Interp(env_b).ev(first.test))
        srt = calls_in(first, "sorted")
        fact = "if %s: %s  [sorted for (sort, bundle): %s]" % (norm(first.test), norm(first.body[0])[:80], sorted(k for k, v in tt.items() if v))
        ok = all(tt[k] == (k[0] or k[1] != "none") for k in tt) and len(srt) == 1
        if ok:
            kw = {k.arg: k.value for k in srt[0].keywords}
            key = kw.get("key")
            kx = None
            if isinstance(key, ast.Lambda) and len(key.args.args) == 1:
                kx = (key.args.args[0].arg, key.body)
            elif isinstance(key, ast.Name):
                nested = [n_ for n_ in ast.walk(f.node) if isinstance(n_, ast.FunctionDef) and n_ is not f.node and n_.name == key.id]
                if len(nested) == 1 and len(nested[0].args.args) == 1:
                    from ..flow import straight_env
                    rr = [r_ for r_ in nested[0].body if isinstance(r_, ast.Return)]
                    if len(rr) == 1 and nested[0].body[-1] is rr[0]:
                        env_ = straight_env(nested[0], upto=rr[0])

                        class _S(ast.NodeTransformer):
                            def visit_Name(self, n_):
                                if isinstance(n_.ctx, ast.Load) and n_.id in env_:
                                    return env_[n_.id]
                                return n_
                        from ..core import clone
                        kx = (nested[0].args.args[0].arg, _S().visit(clone(rr[0].value)))
            if key is not None and kx is None:
                raise AnalysisError("_prepare_find_return: sort key %s not understood" % norm(key)[:60])
            okk = kx is not None and norm(kx[1]).replace(" ", "") in ("(%s.times[0],%s.times[1])" % (kx[0], kx[0]), "tuple(%s.times)" % kx[0], "%s.times" % kx[0]) \
                and "reverse" not in kw
            tgt_ = str(norm(first.body[0].targets[0]))
            same_stream = tgt_ == fi or (len(first.orelse) == 1 and isinstance(first.orelse[0], ast.Assign) and str(norm(first.orelse[0].targets[0])) == tgt_
                                         and str(norm(first.orelse[0].value)) == fi)
            ok = okk and norm(srt[0].args[0]) == fi and same_stream
    ctx.ob("FileSet._prepare_find_return.sort", ok, fact, "sorted(files, key=(t0, t1)) ascending iff sort or isinstance(bundle, int)", node=first, func=f)
    d = ctx.func(FILESET, "FileSet.find").defaults()
    ctx.ob("FileSet.find.sort_default", norm(d.get("sort", ast.Constant(None))) == "True", "find(sort=%s)" % norm(d.get("sort")) if "sort" in d else "no default", "sort defaults to True",
           node=ctx.func(FILESET, "FileSet.find").node, func=ctx.func(FILESET, "FileSet.find"))
    ctx.rule("C01.bundle", "T6", "bundling only partitions the ordered sequence")
    from ..flow import iteration_constructs
    ge = [c for c in iteration_constructs(f.node) if isinstance(c["iter"], ast.Call) and dotted(c["iter"].func) == "range"]
    okb = False
    fact = None
    if ge:
        g = ge[0]
        fact = "%s for %s in %s" % ([norm(e) for e in g["elts"]], norm(g["target"]), norm(g["iter"]))
        r = g["iter"]
        i = norm(g["target"])
        okb = len(g["elts"]) == 1 and norm(g["elts"][0]).replace(" ", "") == "files[%s:%s+%s]" % (i, i, bs) and [norm(a) for a in r.args] == ["0", "len(files)", bs] \
            and not g["ifs"]
    elif not [c for c in iteration_constructs(f.node)]:
        raise AnalysisError("_prepare_find_return: integer bundling construct not recognised")
    ctx.ob("FileSet._prepare_find_return.bundle_int", okb, fact, "files[i:i+w] for i in range(0, len(files), w): stride == width, nothing dropped or repeated", node=ge[0]["node"] if ge else f.node, func=f)
    none_arm = [s for s in f.body if isinstance(s, ast.If) and norm(s.test) == "%s is None" % bs]
    okn = bool(none_arm) and [norm(s) for s in none_arm[0].body] == ["yield from %s" % fi, "return"]
    bflow = Flow(f)
    if not okn and none_arm and len(none_arm[0].body) == 2 and isinstance(none_arm[0].body[1], ast.Return) and none_arm[0].body[1].value is None \
            and isinstance(none_arm[0].body[0], ast.Expr) and isinstance(none_arm[0].body[0].value, ast.YieldFrom) and isinstance(none_arm[0].body[0].value.value, ast.Name):
        # the stream under another name: every definition of it is the iterator itself or its sorted list
        nm_ = none_arm[0].body[0].value.value.id
        ds_ = [d_ for d_ in bflow.defs(nm_, none_arm[0]) if d_ != "param"]
        okn = bool(ds_) and all(isinstance(d_, ast.Assign) and (str(norm(d_.value)) == fi or str(norm(d_.value)).replace(" ", "").startswith("sorted(%s," % fi)
                                                                 or str(norm(d_.value)) == "list(%s)" % fi) for d_ in ds_)
    sers = [c_ for c_ in calls_in(f.node, "Series") if (dotted(c_.func) or "").split(".")[-1] == "Series"]
    okts = False
    ts_txt = None
    if len(sers) == 1:
        tc = sers[0]
        ts_txt = str(norm(tc))
        data = tc.args[0] if tc.args else next((k_.value for k_ in tc.keywords if k_.arg == "data"), None)
        index = tc.args[1] if len(tc.args) > 1 else next((k_.value for k_ in tc.keywords if k_.arg == "index"), None)
        if isinstance(data, ast.Name) and index is not None:
            src = bflow.resolve(data, at=tc, depth=1)
            okts = str(norm(src)) == "list(%s)" % fi and norm(index) == "[file.times[0] for file in %s]" % data.id
            if not okts and isinstance(src, ast.Name):
                # the list bound where the stream is sorted (a bundle size is given on this path: the sorted arm is the live one)
                bs_ = f.params[-1] if f.params else "bundle_size"
                asm_b = {"%s is None" % bs_: False, "%s is not None" % bs_: True}
                for sn_ in ("sort",):
                    asm_b["%s or %s is not None" % (sn_, bs_)] = True
                src2 = bflow.resolve_under(data, asm_b, at=tc, depth=2, stop=(fi,))
                t2_ = str(norm(src2)).replace(" ", "")
                okts = (t2_ == "list(%s)" % fi or t2_.startswith("sorted(%s," % fi)) and norm(index) == "[file.times[0] for file in %s]" % data.id
            # grouping by time frequency needs a DatetimeIndex: an empty selection has none (pandas raises TypeError) - with nothing
            # selected the series is not even built
            N = data.id
            empty_asm = {"not %s" % N: True, N: False, "len(%s) == 0" % N: True, "not len(%s)" % N: True, "len(%s)" % N: False, "len(%s) > 0" % N: False}
            dead = not bflow.live_under(enclosing_stmt(tc), empty_asm)
            ctx.ob("FileSet._prepare_find_return.bundle_empty", dead, "the time series is built under an emptiness guard of %s: %s" % (N, dead),
                   "an empty selection yields no bundle (find(bundle='1h', no_files_error=False) on a period without files raised TypeError: Only valid with DatetimeIndex)",
                   node=tc, func=f, witness=None if dead else {"find": "bundle='1h', no_files_error=False, period without files", "raises": "TypeError"})
    elif not sers:
        raise AnalysisError("_prepare_find_return: the time series used for bundling by frequency was not found")
    ts = [sers[0]] if sers else []
    ctx.ob("FileSet._prepare_find_return.bundle_other", okn and okts, "no bundle: %s; by frequency: %s" % ([norm(s) for s in none_arm[0].body] if none_arm else None, ts_txt),
           "no bundle -> the stream itself; by frequency -> groups of the same list indexed by start time", node=f.node, func=f)


FIELD_ORDER = ["month", "day", "hour", "minute", "second", "microsecond"]
RESETS = {"day": {"hour", "minute", "second", "microsecond"}, "hour": {"minute", "second", "microsecond"}, "minute": {"second", "microsecond"},
          "second": {"microsecond"}}


def rule_trunc_table(ctx):
    ctx.rule("C01.trunc", "T3", "set_time_resolution(u) resets exactly the fields finer than u")
    f = ctx.func(TIMEUTILS, "set_time_resolution")
    flow = Flow(f)
    unit = f.params[1]
    tests = [n for n in ast.walk(f.node) if isinstance(n, ast.Compare) and len(n.ops) == 1 and norm(n.left) == unit]

    def assumptions(u):
        """truth value of every comparison of the unit parameter with constants when it equals u"""
        out = {}
        for t in tests:
            c = t.comparators[0]
            try:
                v = ast.literal_eval(c)
            except Exception:
                raise AnalysisError("set_time_resolution: comparison %s of the unit with a non-constant" % norm(t))
            op = t.ops[0]
            if isinstance(op, (ast.Eq, ast.NotEq)):
                r = (u == v) == isinstance(op, ast.Eq)
            elif isinstance(op, (ast.In, ast.NotIn)):
                r = (u in v) == isinstance(op, ast.In)
            else:
                raise AnalysisError("set_time_resolution: comparison %s of the unit outside ==, !=, in" % norm(t))
            out[str(norm(t))] = r
        return out
    exits = [st for st in flow.stmts if isinstance(st, (ast.Return, ast.Raise))]
    units_known = set()
    for t in tests:
        try:
            v = ast.literal_eval(t.comparators[0])
        except Exception:
            continue
        units_known.update([v] if isinstance(v, str) else [x for x in v if isinstance(x, str)])
    arms = {}
    for u in sorted(units_known):
        asm = assumptions(u)
        live = [st for st in exits if flow.live_under(st, asm)]
        if len(live) != 1:
            raise AnalysisError("set_time_resolution: %d exits reachable for unit '%s'" % (len(live), u))
        if isinstance(live[0], ast.Return):
            arms[u] = (live[0], asm)
    bad = []

    def value_fields(e, asm, at, depth):
        if depth > 6:
            return None
        if norm(e) == f.params[0]:
            return {}
        if isinstance(e, ast.Call) and isinstance(e.func, ast.Attribute) and e.func.attr == "replace" and not e.args:
            inner = value_fields(e.func.value, asm, at, depth + 1)
            if inner is None:
                return None
            inner = dict(inner)
            inner.update({k.arg: norm(k.value) for k in e.keywords})
            return inner
        if isinstance(e, ast.Call) and dotted(e.func) == "set_time_resolution" and len(e.args) == 2 and norm(e.args[0]) == f.params[0] \
                and isinstance(e.args[1], ast.Constant):
            return fields(e.args[1].value, depth + 1)
        return None

    def fields(u, depth=0):
        """field -> value set by the exit reached for unit u (following `set_time_resolution(x, 'v')`, temporaries and `.replace(...)` chains)"""
        if u not in arms or depth > 6:
            return None
        r, asm = arms[u]
        if r.value is None:
            return None
        return value_fields(flow.resolve_under(r.value, asm, at=r, stop=(f.params[0], unit)), asm, r, depth)
    want_all = dict((u, {k: "0" for k in v}) for u, v in RESETS.items())
    want_all["month"] = dict(want_all["day"], day="1")
    want_all["year"] = dict(want_all["day"], day="1", month="1")
    for u, want in want_all.items():
        got = fields(u)
        if got is None:
            if u not in arms:
                bad.append("%s: missing" % u)
            else:
                raise AnalysisError("set_time_resolution: branch '%s' is not a .replace(...) of the argument" % u)
        elif got != want:
            bad.append("%s: sets %s" % (u, got))
    ctx.ob("set_time_resolution", not bad, "branches deviating: %s" % (bad or "none"), "year/month via day; each unit zeroes exactly the finer fields", node=f.node, func=f)
    ctx.rule("C01.restable", "T3", "_temporal_resolution is strictly decreasing, covers the directory units, month >= 31 d, year >= 366 d")
    mod = ctx.mod(FILESET)
    t = mod.table("_temporal_resolution", scope="FileSet")
    if isinstance(t, ast.Call) and t.args:
        t = t.args[0]
    keys = [const_value(k) for k in t.keys]
    vals = [timedelta_ticks(v) for v in t.values]
    dec = all(a > b for a, b in zip(vals, vals[1:]))
    fobj = ctx.func(FILESET, "FileSet._get_superior_time_resolution")
    ctx.ob("FileSet._temporal_resolution.order", dec and keys[:6] == ["year", "month", "day", "hour", "minute", "second"], "keys %s; strictly decreasing: %s" % (keys, dec),
           "coarse to fine in insertion order (the superior unit is found at index - 1)", node=t, func=fobj)
    d = dict(zip(keys, vals))
    okv = d.get("month", 0) >= 31 * US["days"] and d.get("year", 0) >= 366 * US["days"] and d.get("day") == US["days"] and d.get("hour") == US["hours"]
    ctx.ob("FileSet._temporal_resolution.values", okv, "year=%s d, month=%s d" % (d.get("year", 0) / US["days"], d.get("month", 0) / US["days"]),
           "year >= 366 d and month >= 31 d: the fixed look-back over-approximates the variable periods", node=t, func=fobj)


def emptiness_test_kind_(t):
    """a test that holds exactly for an empty list / array: a size test, or `not <name>` on a list"""
    from ..flow import emptiness_test_kind
    if emptiness_test_kind(t) == "size":
        return True
    return isinstance(t, ast.UnaryOp) and isinstance(t.op, ast.Not) and isinstance(t.operand, ast.Name)


def rule_len(ctx):
    ctx.rule("C01.len", "T1", "len(fileset) counts find() with default arguments; iteration iterates it; the defaults of find cover the whole axis")
    f = ctx.func(FILESET, "FileSet.__len__")
    fc = [c for c in calls_in(f.node, "find") if norm(c.func) == "self.find"]
    if len(f.body) != 1 or not isinstance(f.body[0], ast.Return) or len(fc) != 1:
        raise AnalysisError("__len__: not a single return counting one self.find(...) call")
    kw = {k.arg: str(norm(k.value)) for k in fc[0].keywords}
    import copy as _copy
    bare = _copy.deepcopy(f.body[0])
    for c_ in ast.walk(bare):
        if isinstance(c_, ast.Call) and norm(c_.func) == "self.find":
            c_.keywords = []
    counted = norm(bare).replace(" ", "") in ("returnsum((1for_inself.find()))", "returnlen(list(self.find()))")
    # the whole axis, every file, one by one - and an empty set is counted as 0, not reported as NoFilesError
    ok = counted and not fc[0].args and set(kw) <= {"no_files_error", "sort"} and kw.get("no_files_error") == "False"
    ctx.ob("FileSet.__len__", ok, "%s" % norm(f.body[0]), "number of elements of self.find(no_files_error=False): 0 for a fileset without (permitted) files - find() with its default raises NoFilesError there",
           node=f.node, func=f, witness=None if ok else {"len(FileSet(<empty directory>/{year}{month}{day}.nc))": "NoFilesError", "expected": 0})
    g = ctx.func(FILESET, "FileSet.__iter__")
    ctx.ob("FileSet.__iter__", len(g.body) == 1 and norm(g.body[0]) == "return iter(self.find())", "%s" % norm(g.body[0]), "iter(self.find())", node=g.node, func=g)
    h = ctx.func(FILESET, "FileSet.find")
    d = h.defaults()
    s0 = [st for st in h.body if isinstance(st, ast.Assign) and norm(st.targets[0]) == h.params[1]]
    e0 = [st for st in h.body if isinstance(st, ast.Assign) and norm(st.targets[0]) == h.params[2]]
    okd = norm(d.get(h.params[1])) == "None" and norm(d.get(h.params[2])) == "None" and bool(s0) and bool(e0) \
        and norm(s0[0].value) == "datetime.min if %s is None else to_datetime(%s)" % (h.params[1], h.params[1]) \
        and norm(e0[0].value) == "datetime.max if %s is None else to_datetime(%s)" % (h.params[2], h.params[2])
    ctx.ob("FileSet.find.defaults", okd, "start: %s; end: %s" % (norm(s0[0].value) if s0 else None, norm(e0[0].value) if e0 else None),
           "None -> datetime.min / datetime.max (the whole time axis)", node=s0[0] if s0 else h.node, func=h)


def rule_pathstate(ctx, rule="C01.pathstate"):
    """Every attribute the path setter derives from the path is (re)assigned on every normal path
    through it - otherwise a fileset whose path is changed keeps state of the old layout."""
    ctx.rule(rule, "T1 definite assignment", "the path setter re-derives every path-dependent attribute on every path")
    f = ctx.func(FILESET, "FileSet.path.setter")
    flow = Flow(f)
    cfg = flow.cfg
    stores = {}
    for st in flow.stmts:
        if isinstance(st, ast.Assign):
            for t in st.targets:
                d = dotted(t)
                if d and d.startswith("self.") and d.count(".") == 1:
                    stores.setdefault(d, []).extend(cfg.nodes(st))
    partial = []
    for attr, nodes in sorted(stores.items()):
        if EXIT in cfg.reach([ENTRY], avoid=set(nodes), skip_labels=("exc", "gen")):
            partial.append(attr)
    ctx.ob("FileSet.path.setter.complete", not partial, "attributes assigned on some paths only: %s (all: %d)" % (partial or "none", len(stores)),
           "none: after `fileset.path = new` (as move() does on the copied destination) no attribute of the old layout survives, e.g. the "
           "sub-directory part when the new template is flat", node=f.node, func=f)


def run(ctx):
    from ..calendar_rule import rule_leap
    ctx.attempt(rule_leap, ctx, "C01.calendar", ['typhon/files/fileset.py', 'typhon/utils/timeutils.py'])
    from .C03 import tree_rules
    from .C02 import rule_anchor
    from .C15 import rule_reset
    for r in (rule_semiopen, rule_prune, rule_exclude, rule_blacklist, rule_sort_bundle, rule_trunc_table, rule_len, rule_pathstate):
        ctx.attempt(r, ctx)
    # the time coverage that find() compares comes out of the names: the writer / reader chain of C02 is run here too (shared rules, their own ids)
    from .C02 import fill_evaluated, trip_evaluated, helpers_evaluated, rule_table, rule_year2, rule_doy_subsec, rule_endfill
    helpers_evaluated(ctx, "C01.helpers")
    if not trip_evaluated(ctx, "C01.trip", (rule_table, (ctx,), ("C02.table",)), (rule_year2, (ctx,), ("C02.year2",)), (rule_doy_subsec, (ctx,), ("C02.doy", "C02.subsec"))):
        # the round trip could not be evaluated on this (restructured) tree: the structural rule about the completion of end times looks at
        # _retrieve_time_coverage instead, so that the function is examined either way
        ctx.attempt(rule_endfill, ctx)
    fill_evaluated(ctx, "C01.fill", (rule_anchor, (ctx, "C01.anchor"), ("C01.anchor",)))
    from ..early import rule_early_table
    rule_early_table(ctx, "C01.answer", [
        (FILESET, "FileSet.__contains__", ("find", "find_closest"), "the search", ()),
        (FILESET, "FileSet.__getitem__", ("find_closest", "find", "collect"), "the search", ()),
    ])
    from .C02 import rule_memo
    ctx.attempt(rule_memo, ctx, "C02.memo")
    ctx.rule("C01.reset", "T1", "changing time_coverage resets the cached file infos (their end times depend on it)")
    ctx.attempt(rule_reset, ctx, "C01.reset")
    # IntervalTree code reachable from find (overlap test) and is_excluded (`times in tree`)
    tree_rules(ctx, which=("pred", "partition", "descent_q", "scan_q", "early_q", "rows", "empty", "extent", "member"))
    # the caller's arguments (arrays, filter / fill dictionaries) are not modified: an in-place update makes the next call on the same objects wrong
    from ..purity import rule_pure as _rule_args
    ctx.attempt(_rule_args, ctx, "C01.args", [('typhon/files/fileset.py', 'FileSet.find'), ('typhon/files/fileset.py', 'FileSet._check_file'), ('typhon/files/fileset.py', 'FileSet._get_matching_files')], "the caller's arguments are not modified in place")
