"""C16 - indexing a fileset by a timestamp returns the covering or the nearest file.

Decided (T1/T5/T6): the exact-name short cut answers only for an existing, non-excluded file
and only when no filters are given, swallowing placeholder errors only; the search window is
[t - R, t + R] (whole axis without sub-directory resolution) and forwards the filters; a
covering file is returned before any distance is computed; otherwise argmin over the min
distance to either end, indexing the same list; dispatch of fileset[t] / fileset[t, filters].
Ties and behaviour outside one directory period are not decided.
"""
import ast
from ..core import AnalysisError, norm, dotted, calls_in, walk_no_nested, parent, enclosing_stmt
from ..flow import Flow, conjuncts
from ..order import Interp
from ..algebra_lin import linear_form

FILESET = "typhon/files/fileset.py"
EXPECT = {"C16.shortcut": 3, "C16.window": 3, "C16.cover": 2, "C16.nearest": 2, "C16.single": 1, "C16.dispatch": 2}


def _guards(node):
    """conjuncts of all enclosing `if` tests on the true branch (negated for else branches)"""
    out = []
    child = node
    n = parent(node)
    while n is not None and not isinstance(n, (ast.FunctionDef, ast.AsyncFunctionDef)):
        if isinstance(n, ast.If):
            if any(child is s for s in n.body):
                out.extend(norm(c) for c in conjuncts(n.test))
            elif any(child is s for s in n.orelse):
                out.append("not (%s)" % norm(n.test))
        child = n
        n = parent(n)
    return out


def rule_shortcut(ctx):
    ctx.rule("C16.shortcut", "T1", "exact-name short cut: existing file, not excluded, no filters; only placeholder errors are swallowed")
    f = ctx.func(FILESET, "FileSet.find_closest")
    ts, flt = f.params[1], f.params[2]
    flow = Flow(f)
    tries = [st for st in flow.stmts if isinstance(st, ast.Try) and any(calls_in(s, "get_filename") for s in st.body)]
    if not tries:
        # no short cut at all: nothing can go wrong here
        ctx.ob("FileSet.find_closest.shortcut", True, "no exact-name short cut", "absent or guarded", node=f.node, func=f)
        ctx.ob("FileSet.find_closest.shortcut.errors", True, "no exact-name short cut", "-", node=f.node, func=f)
        ctx.ob("FileSet.find_closest.shortcut.name", True, "no exact-name short cut", "-", node=f.node, func=f)
        return
    t = tries[0]
    gf = [c for s in t.body for c in calls_in(s, "get_filename")][0]
    pst = enclosing_stmt(gf)
    pname = norm(pst.targets[0]) if isinstance(pst, ast.Assign) else None
    okn = pname is not None and gf.args and norm(gf.args[0]) == ts and not any(k.arg == "fill" for k in gf.keywords)
    ctx.ob("FileSet.find_closest.shortcut.name", okn, "%s" % norm(pst), "path = self.get_filename(<the timestamp>)", node=gf, func=f)
    rets = [r for s in t.body for r in walk_no_nested(s) if isinstance(r, ast.Return)]
    bad = []
    for r in rets:
        g = _guards(r)
        val = flow.resolve(r.value, at=r, depth=1)
        info_ok = norm(val) == "self.get_info(%s)" % pname
        need = {"exists": any(x == "self.file_system.isfile(%s)" % pname for x in g),
                "not excluded": any(x in ("not self.is_excluded(%s)" % norm(r.value), "not self.is_excluded(self.get_info(%s))" % pname) for x in g),
                "no filters": any(x == "%s is None" % flt for x in g)}
        miss = [k for k, v in need.items() if not v]
        if miss or not info_ok:
            bad.append("line %d: return %s guarded by %s - missing: %s" % (r.lineno, norm(r.value), g, miss or "wrong value"))
    ctx.ob("FileSet.find_closest.shortcut", bool(rets) and not bad, "short-cut returns: %s" % (bad or "%d, all guarded" % len(rets)),
           "returned only if the file exists, is not excluded (full is_excluded: names AND periods) and no filters were given "
           "(every other answer comes from find(), which applies all three)", node=rets[0] if rets else t, func=f)
    caught = []
    for h in t.handlers:
        if h.type is None:
            caught.append("<bare>")
        else:
            for e in (h.type.elts if isinstance(h.type, ast.Tuple) else [h.type]):
                caught.append(norm(e))
    okc = set(caught) <= {"UnknownPlaceholderError", "UnfilledPlaceholderError"} and bool(caught) \
        and all(all(isinstance(s, ast.Pass) for s in h.body) for h in t.handlers)
    ctx.ob("FileSet.find_closest.shortcut.errors", okc, "handlers catch %s" % caught,
           "only the two placeholder errors are swallowed (the template needs more than a timestamp); everything else propagates", node=t, func=f)


def rule_window(ctx):
    ctx.rule("C16.window", "T5+T6", "search window [t - R, t + R], R the sub-directory resolution (whole axis when there is none); filters forwarded")
    f = ctx.func(FILESET, "FileSet.find_closest")
    ts, flt = f.params[1], f.params[2]
    flow = Flow(f)
    finds = calls_in(f.node, "find")
    if len(finds) != 1:
        raise AnalysisError("find_closest: expected exactly one self.find(...) call")
    c = finds[0]
    sname, ename = norm(c.args[0]), norm(c.args[1])
    kw = {k.arg: norm(k.value) for k in c.keywords}
    ctx.ob("FileSet.find_closest.filters", kw.get("filters") == flt, "find(%s, %s, %s)" % (sname, ename, kw), "filters=<the caller's filters>", node=c, func=f)
    arms = {}
    for st in flow.stmts:
        if isinstance(st, ast.If) and "_sub_dir_time_resolution" in norm(st.test):
            neg = "is None" in norm(st.test) and "is not None" not in norm(st.test)
            none_arm, res_arm = (st.body, st.orelse) if neg else (st.orelse, st.body)
            for nm, arm in (("none", none_arm), ("res", res_arm)):
                arms[nm] = {norm(s.targets[0]): s for s in arm if isinstance(s, ast.Assign)}
    if not arms:
        raise AnalysisError("find_closest: branch on the sub-directory resolution not found")
    env = {ts: "T", "self._sub_dir_time_resolution": "R"}
    try:
        ls = linear_form(arms["res"][sname].value, env)
        le = linear_form(arms["res"][ename].value, env)
    except (KeyError, AnalysisError) as e:
        raise AnalysisError("find_closest: window expressions not linear in (t, R): %s" % e)
    ctx.ob("FileSet.find_closest.window", ls == {"T": 1, "R": -1} and le == {"T": 1, "R": 1}, "start = %s, end = %s" % (ls, le),
           "start = t - R and end = t + R (symmetric: the nearest file may lie before or after t)", node=arms["res"][sname], func=f)
    nn = {k: norm(v.value) for k, v in arms["none"].items()}
    ctx.ob("FileSet.find_closest.window.all", nn.get(sname) == "datetime.min" and nn.get(ename) == "datetime.max", "without resolution: %s" % nn,
           "the whole time axis", node=list(arms["none"].values())[0] if arms["none"] else f.node, func=f)


def rule_cover(ctx):
    ctx.rule("C16.cover", "T1+T4", "a covering file (closed containment) is returned before any distance is computed")
    f = ctx.func(FILESET, "FileSet.find_closest")
    ts = f.params[1]
    flow = Flow(f)
    loops = [st for st in flow.stmts if isinstance(st, ast.For) and any(isinstance(r, ast.Return) for s in st.body for r in ast.walk(s))]
    if not loops:
        ctx.ob("FileSet.find_closest.cover", False, "no loop returning a covering file", "covering file preferred", node=f.node, func=f)
        return
    lp = loops[0]
    en = calls_in(lp.iter, "enumerate")
    ok = False
    fact = norm(lp.iter)
    if en and isinstance(lp.target, ast.Tuple):
        idx, tc = [norm(e) for e in lp.target.elts]
        seq = norm(en[0].args[0])
        sdef = flow.single_def_value(seq, lp)
        files = None
        if sdef and isinstance(sdef[0], ast.ListComp) and norm(sdef[0].elt).endswith(".times"):
            files = norm(sdef[0].generators[0].iter)
        ifs = [s for s in lp.body if isinstance(s, ast.If)]
        if ifs and files:
            t = ifs[0].test
            r = [s for s in ifs[0].body if isinstance(s, ast.Return)]
            from .C03 import TreeFacts
            T = TreeFacts(ctx)
            tt = {}
            for a, b, p in ((0, 2, 1), (0, 2, 0), (0, 2, 2), (0, 2, 3), (1, 2, 0)):
                tt[(a, b, p)] = bool(Interp({tc: (a, b), ts: p}, {"interval_contains": T.IN, "interval_overlaps": T.OV}).ev(t))
            want = {(0, 2, 1): True, (0, 2, 0): True, (0, 2, 2): True, (0, 2, 3): False, (1, 2, 0): False}
            ok = tt == want and bool(r) and norm(r[0].value) == "%s[%s]" % (files, idx)
            fact = "for %s, %s in enumerate(%s): if %s: return %s" % (idx, tc, seq, norm(t), norm(r[0].value) if r else None)
    ctx.ob("FileSet.find_closest.cover", ok, fact, "the first file whose closed coverage contains t is returned, indexing the list the coverages came from", node=lp, func=f)
    # precedes the distance computation
    am = calls_in(f.node, "argmin")
    okp = bool(am) and lp.lineno < am[0].lineno and all(flow.cfg.dominated_by(n, set(flow.cfg.nodes(lp))) for n in flow.cfg.nodes(enclosing_stmt(am[0])))
    ctx.ob("FileSet.find_closest.cover.first", okp, "cover loop precedes the nearest-file computation: %s" % okp, "covering file first, nearest file only otherwise",
           node=am[0] if am else f.node, func=f)


def rule_nearest(ctx):
    ctx.rule("C16.nearest", "T6", "argmin over files of the min over both ends of |times - t|")
    f = ctx.func(FILESET, "FileSet.find_closest")
    ts = f.params[1]
    flow = Flow(f)
    am = calls_in(f.node, "argmin")
    if not am:
        raise AnalysisError("find_closest: argmin not found")
    rst = enclosing_stmt(am[0])
    arg = flow.resolve(am[0].args[0], at=am[0], depth=1)
    t = norm(arg).replace(" ", "")
    seq = None
    ok = False
    for cand in ("np.min(np.abs(np.asarray(%s)-%s),axis=1)", "np.abs(np.asarray(%s)-%s).min(axis=1)", "np.min(np.abs(np.array(%s)-%s),axis=1)"):
        for nm in set(n.id for n in ast.walk(arg) if isinstance(n, ast.Name)):
            if t == cand % (nm, ts):
                seq = nm
                ok = True
    ctx.ob("FileSet.find_closest.distance", ok, "distance per file = %s" % norm(arg), "min over the two ends (axis=1) of |coverage - t|: abs BEFORE min", node=am[0], func=f)
    files = None
    if seq:
        sdef = flow.single_def_value(seq, am[0])
        if sdef and isinstance(sdef[0], ast.ListComp) and norm(sdef[0].elt).endswith(".times"):
            files = norm(sdef[0].generators[0].iter)
    okr = isinstance(rst, ast.Return) and files is not None and norm(rst.value).replace(" ", "") == "%s[np.argmin(%s)]" % (files, norm(am[0].args[0]))
    ctx.ob("FileSet.find_closest.pick", okr, "%s" % norm(rst), "files[argmin(distances)] - indexes the list the coverages were taken from", node=rst, func=f)


def rule_single(ctx):
    ctx.rule("C16.single", "T1", "single-file filesets answer with their one file; an empty neighbourhood yields None")
    f = ctx.func(FILESET, "FileSet.find_closest")
    first = f.body[0]
    ok = isinstance(first, ast.If) and norm(first.test) == "self.single_file"
    if ok:
        inner = first.body[0]
        ok = isinstance(inner, ast.If) and norm(inner.test) == "self.file_system.isfile(self.path)" and norm(inner.body[0]) == "return self.path" \
            and any(isinstance(s, ast.Raise) for s in inner.orelse)
    none_ret = [st for st in walk_no_nested(f.node) if isinstance(st, ast.If) and norm(st.test).startswith("not ") and len(st.body) == 1
                and isinstance(st.body[0], ast.Return) and norm(st.body[0].value) == "None"]
    ctx.ob("FileSet.find_closest.single", ok and bool(none_ret), "first statement: %s; empty-result guard: %s" % (norm(first.test) if isinstance(first, ast.If) else None,
                                                                                                              [norm(s.test) for s in none_ret]),
           "single file -> its path (ValueError if it does not exist); no files in the window -> None", node=first, func=f)


def rule_dispatch(ctx):
    ctx.rule("C16.dispatch", "T6", "fileset[t] / fileset[t, filters] pass the filters through, propagate None and read the found file")
    f = ctx.func(FILESET, "FileSet.__getitem__")
    item = f.params[1]
    first = f.body[0]
    ok = isinstance(first, ast.If) and "isinstance(%s, (tuple, list))" % item == norm(first.test)
    if ok:
        b = {norm(s.targets[0]): norm(s.value) for s in first.body if isinstance(s, ast.Assign)}
        e = {norm(s.targets[0]): norm(s.value) for s in first.orelse if isinstance(s, ast.Assign)}
        ok = b == {"time_args": "%s[0]" % item, "filters": "%s[1]" % item} and e == {"time_args": item, "filters": "None"}
    ctx.ob("FileSet.__getitem__.unpack", ok, "%s" % norm(first)[:140], "(t, filters) tuples are split; a bare key has no filters", node=first, func=f)
    fc = calls_in(f.node, "find_closest")
    okc = False
    fact = None
    if fc:
        c = fc[0]
        st = enclosing_stmt(c)
        nm = norm(st.targets[0]) if isinstance(st, ast.Assign) else None
        kw = {k.arg: norm(k.value) for k in c.keywords}
        fact = norm(st)
        par = parent(st)
        body = par.body if isinstance(par, ast.If) else []
        i = body.index(st) if st in body else -1
        rest = [norm(s) for s in body[i + 1:]] if i >= 0 else []
        okc = norm(c.args[0]) == "time_args" and kw.get("filters") == "filters" and rest[:2] == ["if %s is None:\n    return None" % nm, "return self.read(%s)" % nm]
    ctx.ob("FileSet.__getitem__.closest", okc, "%s" % fact, "find_closest(time_args, filters=filters); None propagates; otherwise self.read(found)", node=fc[0] if fc else f.node, func=f)


def run(ctx):
    for r in (rule_shortcut, rule_window, rule_cover, rule_nearest, rule_single, rule_dispatch):
        ctx.attempt(r, ctx)
    # the window is computed from _sub_dir_time_resolution, which the path setter must keep current
    from .C01 import rule_pathstate
    ctx.attempt(rule_pathstate, ctx, "C01.pathstate")
