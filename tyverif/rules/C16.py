"""C16 - indexing a fileset by a timestamp returns the covering or the nearest file.

Decided (T1/T5/T6): the exact-name short cut answers only for an existing, non-excluded file
and only when no filters are given, swallowing placeholder errors only; the search window is
[t - R, t + R] (whole axis without sub-directory resolution) and forwards the filters; a
covering file is returned before any distance is computed; otherwise argmin over the min
distance to either end, indexing the same list; dispatch of fileset[t] / fileset[t, filters].
Ties and behaviour outside one directory period are not decided.
"""
import ast
from ..core import AnalysisError, norm, dotted, calls_in, walk_no_nested, parent, enclosing_stmt
from ..flow import Flow, conjuncts
from ..order import Interp
from ..algebra_lin import linear_form

FILESET = "typhon/files/fileset.py"
EXPECT = {"C16.args": 2, "C16.keys": 4, "C16.shortcut": 4, "C16.window": 3, "C16.cover": 2, "C16.nearest": 2, "C16.single": 1, "C16.dispatch": 2, "C16.fill": 1, "C16.trip": 1, "C16.helpers": 2, "C02.table": 19, "C02.doy": 4}


def _guards(node):
    """conjuncts of all enclosing `if` tests on the true branch (negated for else branches)"""
    out = []
    child = node
    n = parent(node)
    while n is not None and not isinstance(n, (ast.FunctionDef, ast.AsyncFunctionDef)):
        if isinstance(n, ast.If):
            if any(child is s for s in n.body):
                out.extend(norm(c) for c in conjuncts(n.test))
            elif any(child is s for s in n.orelse):
                out.append("not (%s)" % norm(n.test))
        child = n
        n = parent(n)
    return out


def _valued_returns_under(flow, atoms, stop=()):
    """return statements with a value other than None that are reachable under the assumption `atoms`"""
    from ..flow import reach_under
    live = reach_under(flow, atoms, stop=stop)
    out = []
    for r in flow.stmts:
        if isinstance(r, ast.Return) and r.value is not None and not (isinstance(r.value, ast.Constant) and r.value.value is None):
            if any(n in live for n in flow.cfg.nodes(r)):
                out.append(r)
    return out


def _early_returns(ctx, f, flow, flt, known):
    """a file returned without asking find() - a short cut, a remembered answer - is returned only when no filters were given:
    reachability of every such return under the assumption `filters is not None`, helpers of the class followed one level"""
    finds = [c for c in calls_in(f.node, "find") if norm(c.func) == "self.find"]
    if not finds:
        raise AnalysisError("find_closest: no call of self.find")
    fst = set(flow.cfg.nodes(enclosing_stmt(finds[0])))
    atoms = {"%s is None" % flt: False, "%s is not None" % flt: True, "%s == None" % flt: False, "%s != None" % flt: True}
    bad = []
    for r in _valued_returns_under(flow, atoms, stop=(flt,)):
        if all(flow.cfg.dominated_by(n, fst) for n in flow.cfg.nodes(r)):
            continue
        g = _guards(r)
        if "self.single_file" in g:
            continue        # the one file of a fileset without placeholders: decided by C16.single
        val = flow.resolve(r.value, at=r, depth=2, stop=(flt,))
        if isinstance(val, ast.Call) and isinstance(val.func, ast.Attribute) and norm(val.func.value) == "self" and val.func.attr != "get_info":
            try:
                h = ctx.func(FILESET, "FileSet." + val.func.attr)
            except AnalysisError:
                h = None
            if h is not None:
                hp = h.params if h.is_static else h.params[1:]
                hatoms = {}
                for i_, a_ in enumerate(val.args):
                    if i_ < len(hp):
                        _bind_atom(hatoms, hp[i_], a_, flt)
                for k_ in val.keywords:
                    if k_.arg in hp:
                        _bind_atom(hatoms, k_.arg, k_.value, flt)
                hflow = Flow(h)
                live = _valued_returns_under(hflow, hatoms, stop=tuple(hp))
                if not live:
                    continue        # with filters the helper answers None only
                bad.append("line %d: return %s, where %s can return %s although filters were given" % (r.lineno, norm(r.value), h.qualname, norm(live[0].value)))
                continue
        bad.append("line %d: return %s under %s" % (r.lineno, norm(r.value), g))
    ctx.ob("FileSet.find_closest.early", not bad, "files returned without a search although filters were given: %s" % (bad or "none"),
           "none: an answer that does not come from find(..., filters=filters) is given only when `filters is None`", node=f.node, func=f)


def _bind_atom(atoms, param, arg, flt):
    t = str(norm(arg))
    if t == flt:
        atoms.update({"%s is None" % param: False, "%s is not None" % param: True, "%s == None" % param: False, "%s != None" % param: True})
    elif t in ("%s is None" % flt, "%s == None" % flt, "not %s" % flt):
        if t != "not %s" % flt:
            atoms[param] = False
    elif t in ("%s is not None" % flt, "%s != None" % flt):
        atoms[param] = True


def _selection_site(ctx):
    """(function, name of the timestamp in it) where the covering / nearest file is selected: find_closest itself, or the private
    method its tail hands the found files and the timestamp to (`return self._pick(files, timestamp)`)"""
    f = ctx.func(FILESET, "FileSet.find_closest")
    ts = f.params[1]
    if calls_in(f.node, "argmin") or calls_in(f.node, "argmax"):
        return f, ts
    rets = [r_ for r_ in walk_no_nested(f.node) if isinstance(r_, ast.Return) and isinstance(r_.value, ast.Call)
            and isinstance(r_.value.func, ast.Attribute) and norm(r_.value.func.value) in ("self", "FileSet")]
    for r_ in reversed(rets):
        try:
            h = ctx.func(FILESET, "FileSet." + r_.value.func.attr)
        except AnalysisError:
            continue
        hp = h.params if h.is_static else h.params[1:]
        for i_, a_ in enumerate(r_.value.args):
            if norm(a_) == ts and i_ < len(hp) and calls_in(h.node, "argmin"):
                return h, hp[i_]
    return f, ts


def rule_shortcut(ctx):
    ctx.rule("C16.shortcut", "T1", "exact-name short cut: existing file, not excluded, no filters; only placeholder errors are swallowed")
    f = ctx.func(FILESET, "FileSet.find_closest")
    ts, flt = f.params[1], f.params[2]
    flow = Flow(f)
    tries = [st for st in flow.stmts if isinstance(st, ast.Try) and any(calls_in(s, "get_filename") for s in st.body)]
    if not tries:
        # no short cut at all: nothing can go wrong here
        ctx.ob("FileSet.find_closest.shortcut", True, "no exact-name short cut", "absent or guarded", node=f.node, func=f)
        ctx.ob("FileSet.find_closest.shortcut.errors", True, "no exact-name short cut", "-", node=f.node, func=f)
        ctx.ob("FileSet.find_closest.shortcut.name", True, "no exact-name short cut", "-", node=f.node, func=f)
        _early_returns(ctx, f, flow, flt, [])
        return
    t = tries[0]
    gf = [c for s in t.body for c in calls_in(s, "get_filename")][0]
    pst = enclosing_stmt(gf)
    pname = norm(pst.targets[0]) if isinstance(pst, ast.Assign) else None
    okn = pname is not None and gf.args and norm(gf.args[0]) == ts and not any(k.arg == "fill" for k in gf.keywords)
    ctx.ob("FileSet.find_closest.shortcut.name", okn, "%s" % norm(pst), "path = self.get_filename(<the timestamp>)", node=gf, func=f)
    rets = [r for s in t.body for r in walk_no_nested(s) if isinstance(r, ast.Return)]
    bad = []
    for r in rets:
        g = _guards(r)
        val = flow.resolve(r.value, at=r, depth=1)
        info_ok = norm(val) == "self.get_info(%s)" % pname
        need = {"exists": any(x == "self.file_system.isfile(%s)" % pname for x in g),
                "not excluded": any(x in ("not self.is_excluded(%s)" % norm(r.value), "not self.is_excluded(self.get_info(%s))" % pname) for x in g),
                "no filters": any(x == "%s is None" % flt for x in g)}
        miss = [k for k, v in need.items() if not v]
        if miss or not info_ok:
            bad.append("line %d: return %s guarded by %s - missing: %s" % (r.lineno, norm(r.value), g, miss or "wrong value"))
    ctx.ob("FileSet.find_closest.shortcut", bool(rets) and not bad, "short-cut returns: %s" % (bad or "%d, all guarded" % len(rets)),
           "returned only if the file exists, is not excluded (full is_excluded: names AND periods) and no filters were given "
           "(every other answer comes from find(), which applies all three)", node=rets[0] if rets else t, func=f)
    _early_returns(ctx, f, flow, flt, rets)
    caught = []
    for h in t.handlers:
        if h.type is None:
            caught.append("<bare>")
        else:
            for e in (h.type.elts if isinstance(h.type, ast.Tuple) else [h.type]):
                caught.append(norm(e))
    okc = set(caught) <= {"UnknownPlaceholderError", "UnfilledPlaceholderError"} and bool(caught) \
        and all(all(isinstance(s, ast.Pass) for s in h.body) for h in t.handlers)
    ctx.ob("FileSet.find_closest.shortcut.errors", okc, "handlers catch %s" % caught,
           "only the two placeholder errors are swallowed (the template needs more than a timestamp); everything else propagates", node=t, func=f)


def rule_window(ctx):
    ctx.rule("C16.window", "T5+T6", "search window [t - R, t + R], R the sub-directory resolution (whole axis when there is none); filters forwarded")
    f = ctx.func(FILESET, "FileSet.find_closest")
    ts, flt = f.params[1], f.params[2]
    flow = Flow(f)
    finds = calls_in(f.node, "find")
    if len(finds) != 1:
        raise AnalysisError("find_closest: expected exactly one self.find(...) call")
    c = finds[0]
    wargs = list(c.args)
    if len(wargs) == 1 and isinstance(wargs[0], ast.Starred):
        # find(*window, ...): the two bounds are the elements of the unpacked pair
        wargs = [ast.copy_location(ast.Subscript(value=wargs[0].value, slice=ast.Constant(value=k_), ctx=ast.Load()), wargs[0]) for k_ in (0, 1)]
        for w_ in wargs:
            ast.fix_missing_locations(w_)
            w_._parent = c
    fnd = ctx.func(FILESET, "FileSet.find")
    p_start, p_end = fnd.params[1], fnd.params[2]
    kwv = {k.arg: k.value for k in c.keywords}
    if len(wargs) == 0 and p_start in kwv and p_end in kwv:
        wargs = [kwv[p_start], kwv[p_end]]
    elif len(wargs) == 1 and p_end in kwv:
        wargs = [wargs[0], kwv[p_end]]
    if len(wargs) < 2:
        raise AnalysisError("find_closest: find() is not called with (start, end)")
    sname, ename = norm(wargs[0]), norm(wargs[1])
    kw = {k.arg: norm(k.value) for k in c.keywords}
    ctx.ob("FileSet.find_closest.filters", kw.get("filters") == flt, "find(%s, %s, %s)" % (sname, ename, kw), "filters=<the caller's filters>", node=c, func=f)
    cond = "self._sub_dir_time_resolution is None"
    R = "self._sub_dir_time_resolution"
    if not any(R in norm(n) for n in walk_no_nested(f.node) if isinstance(n, (ast.If, ast.IfExp))) and not any(
            isinstance(n, (ast.If, ast.IfExp)) and R in norm(flow.resolve(n.test, at=n)) for n in walk_no_nested(f.node)):
        raise AnalysisError("find_closest: branch on the sub-directory resolution not found")
    env = {ts: "T", R: "R"}
    sR = flow.resolve_under(wargs[0], {cond: False}, at=c, stop=(ts,))
    eR = flow.resolve_under(wargs[1], {cond: False}, at=c, stop=(ts,))
    try:
        ls = linear_form(sR, env)
        le = linear_form(eR, env)
    except (KeyError, AnalysisError) as e:
        raise AnalysisError("find_closest: window expressions not linear in (t, R): %s" % e)
    ctx.ob("FileSet.find_closest.window", ls == {"T": 1, "R": -1} and le == {"T": 1, "R": 1}, "start = %s, end = %s" % (ls, le),
           "start = t - R and end = t + R (symmetric: the nearest file may lie before or after t)", node=c, func=f)
    nn = {sname: norm(flow.resolve_under(wargs[0], {cond: True}, at=c, stop=(ts,))), ename: norm(flow.resolve_under(wargs[1], {cond: True}, at=c, stop=(ts,)))}
    ctx.ob("FileSet.find_closest.window.all", nn.get(sname) == "datetime.min" and nn.get(ename) == "datetime.max", "without resolution: %s" % nn,
           "the whole time axis", node=c, func=f)


def rule_cover(ctx):
    ctx.rule("C16.cover", "T1+T4", "a covering file (closed containment) is returned before any distance is computed")
    f, ts = _selection_site(ctx)
    flow = Flow(f)
    loops = [st for st in flow.stmts if isinstance(st, ast.For) and any(isinstance(r, ast.Return) for s in st.body for r in ast.walk(s))]
    if not loops:
        ctx.ob("FileSet.find_closest.cover", False, "no loop returning a covering file", "covering file preferred", node=f.node, func=f)
        return
    lp = loops[0]
    ok = False
    fact = norm(lp.iter)
    from ..flow import elementwise, elementwise_elt
    binds = elementwise(lp.target, lp.iter)
    if binds is None:
        raise AnalysisError("find_closest: the cover loop %s is not an element-wise iteration" % norm(lp.iter))

    class _S(ast.NodeTransformer):
        def visit_Name(self, n):
            if isinstance(n.ctx, ast.Load) and n.id in binds:
                return binds[n.id]
            return n

    def at_index(e):
        """expression over the loop variables -> expression over the common index, list comprehensions looked through"""
        e = _S().visit(ast.parse(norm(e), mode="eval").body)
        if isinstance(e, ast.Subscript) and isinstance(e.value, ast.Name) and norm(e.slice) == "_i":
            sdef = flow.single_def_value(e.value.id, lp)
            if sdef and isinstance(sdef[0], ast.ListComp):
                ee = elementwise_elt(sdef[0])
                if ee is not None:
                    return ee
            if sdef and isinstance(sdef[0], ast.List) and not sdef[0].elts:
                # an accumulator filled by one loop: acc = []; for x in X: acc.append(E(x))   ==   [E(x) for x in X]
                fills = [l_ for l_ in flow.stmts if isinstance(l_, ast.For) and l_ is not lp and len(l_.body) == 1 and isinstance(l_.body[0], ast.Expr)
                         and isinstance(l_.body[0].value, ast.Call) and isinstance(l_.body[0].value.func, ast.Attribute) and l_.body[0].value.func.attr == "append"
                         and norm(l_.body[0].value.func.value) == e.value.id and len(l_.body[0].value.args) == 1]
                others = [c_ for c_ in calls_in(f.node) if isinstance(c_.func, ast.Attribute) and norm(c_.func.value) == e.value.id
                          and c_.func.attr in ("append", "extend", "insert", "pop", "remove", "sort", "reverse") and not any(c_ is fl_.body[0].value for fl_ in fills)]
                if len(fills) == 1 and not others:
                    comp = ast.ListComp(elt=fills[0].body[0].value.args[0], generators=[ast.comprehension(target=fills[0].target, iter=fills[0].iter, ifs=[], is_async=0)])
                    ee = elementwise_elt(ast.fix_missing_locations(comp))
                    if ee is not None:
                        return ee
        return e
    ifs = [s for s in lp.body if isinstance(s, ast.If)]
    if ifs:
        t = ifs[0].test
        r = [s for s in ifs[0].body if isinstance(s, ast.Return)]
        cc = calls_in(t, "interval_contains")
        covexpr = cc[0].args[0] if len(cc) == 1 and len(cc[0].args) == 2 else None
        if covexpr is None and not cc:
            # the containment written out as comparisons on one loop-bound coverage
            cands = [n_ for n_ in ast.walk(t) if isinstance(n_, ast.Name) and n_.id in binds and str(norm(at_index(n_))).endswith(".times")]
            if cands and len({c_.id for c_ in cands}) == 1:
                covexpr = cands[0]
        if covexpr is not None and r:
            cov = at_index(covexpr)
            ret = at_index(r[0].value)
            from .C03 import TreeFacts
            T = TreeFacts(ctx)
            tt = {}
            key = norm(covexpr)
            for a, b, p in ((0, 2, 1), (0, 2, 0), (0, 2, 2), (0, 2, 3), (1, 2, 0)):
                tt[(a, b, p)] = bool(Interp({key: (a, b), ts: p}, {"interval_contains": T.IN, "interval_overlaps": T.OV}).ev(t))
            want = {(0, 2, 1): True, (0, 2, 0): True, (0, 2, 2): True, (0, 2, 3): False, (1, 2, 0): False}
            ok = tt == want and norm(cov) == "%s.times" % norm(ret) and isinstance(ret, ast.Subscript) and norm(ret.slice) == "_i"
            fact = "for %s in %s: if %s: return %s   [element i: coverage %s, returned %s]" % (norm(lp.target), norm(lp.iter), norm(t), norm(r[0].value), norm(cov), norm(ret))
    ctx.ob("FileSet.find_closest.cover", ok, fact, "the first file whose closed coverage contains t is returned, indexing the list the coverages came from", node=lp, func=f)
    # precedes the distance computation
    am = calls_in(f.node, "argmin")
    okp = bool(am) and all(flow.cfg.dominated_by(n, set(flow.cfg.nodes(lp))) for n in flow.cfg.nodes(enclosing_stmt(am[0])))
    ctx.ob("FileSet.find_closest.cover.first", okp, "cover loop precedes the nearest-file computation: %s" % okp, "covering file first, nearest file only otherwise",
           node=am[0] if am else f.node, func=f)


def rule_nearest(ctx):
    ctx.rule("C16.nearest", "T6", "argmin over files of the min over both ends of |times - t|")
    f, ts = _selection_site(ctx)
    flow = Flow(f)
    am = calls_in(f.node, "argmin")
    if not am:
        raise AnalysisError("find_closest: argmin not found")
    from ..canon import canon
    cam = canon(am[0])
    if not cam.args:
        raise AnalysisError("find_closest: argmin without argument")
    arg = canon(flow.resolve(cam.args[0], at=am[0], depth=3, stop=(ts,)))
    # stop the resolution at the list of coverages
    seq = None
    acc_files = None
    ok = False
    todo, seen_ = [cam.args[0]], set()
    while todo and seq is None:
        e_ = todo.pop(0)
        for nm in sorted(set(n.id for n in ast.walk(e_) if isinstance(n, ast.Name)) - seen_):
            seen_.add(nm)
            sd = flow.single_def_value(nm, am[0])
            if sd and isinstance(sd[0], ast.ListComp):
                seq = nm
                break
            if sd and isinstance(sd[0], ast.List) and not sd[0].elts:
                # an accumulator filled in a loop over the files (`times.append(file.times)` on every pass that does not return)
                for lp_ in [st_ for st_ in flow.stmts if isinstance(st_, ast.For) and isinstance(st_.target, ast.Name)]:
                    apps = [st_ for st_ in lp_.body if isinstance(st_, ast.Expr) and isinstance(st_.value, ast.Call) and str(norm(st_.value.func)) == "%s.append" % nm
                            and len(st_.value.args) == 1]
                    jumps = [n_ for b_ in lp_.body for n_ in ast.walk(b_) if isinstance(n_, (ast.Continue, ast.Break))]
                    if len(apps) == 1 and not jumps and str(norm(apps[0].value.args[0])) == "%s.times" % lp_.target.id:
                        seq = nm
                        acc_files = str(norm(lp_.iter))
                if seq is not None:
                    break
            if sd:
                todo.append(sd[0])
    if seq is None:
        raise AnalysisError("find_closest: the list of coverages feeding argmin was not found")
    arg = flow.resolve(cam.args[0], at=am[0], depth=3, stop=(ts, seq))
    t = norm(arg).replace(" ", "")
    for cand in ("np.min(np.abs(np.asarray(%s)-%s),axis=1)", "np.min(np.abs(np.array(%s)-%s),axis=1)"):
        if t == cand % (seq, ts):
            ok = True
    ctx.ob("FileSet.find_closest.distance", ok, "distance per file = %s" % norm(arg), "min over the two ends (axis=1) of |coverage - t|: abs BEFORE min", node=am[0], func=f)
    files = None
    sdef = flow.single_def_value(seq, am[0])
    if sdef and isinstance(sdef[0], ast.ListComp) and norm(sdef[0].elt).endswith(".times") and not sdef[0].generators[0].ifs:
        files = norm(sdef[0].generators[0].iter)
    elif acc_files is not None:
        files = acc_files
    rets = [s_ for s_ in flow.stmts if isinstance(s_, ast.Return) and s_.value is not None
            and any(isinstance(n_, ast.Call) and isinstance(n_.func, ast.Attribute) and n_.func.attr == "argmin" for n_ in ast.walk(flow.resolve(s_.value, at=s_, depth=3, stop=(ts, seq))))]
    okr = False
    rst = rets[-1] if rets else enclosing_stmt(am[0])
    if rets and files is not None:
        rv = flow.resolve(rets[-1].value, at=rets[-1], depth=3, stop=(ts, seq, files))
        okr = norm(rv).replace(" ", "") == "%s[np.argmin(%s)]" % (files, norm(arg).replace(" ", ""))
    ctx.ob("FileSet.find_closest.pick", okr, "%s" % norm(rst), "files[argmin(distances)] - indexes the list the coverages were taken from", node=rst, func=f)


def rule_single(ctx):
    ctx.rule("C16.single", "T1", "single-file filesets answer with their one file; an empty neighbourhood yields None")
    f = ctx.func(FILESET, "FileSet.find_closest")
    first = f.body[0]
    ok = isinstance(first, ast.If) and norm(first.test) == "self.single_file"
    if ok:
        from ..flow import arms
        inner = first.body[0]
        ab = arms(inner, "self.file_system.isfile(self.path)", first.body) if isinstance(inner, ast.If) else None
        if ab is None:
            raise AnalysisError("find_closest: the single-file branch does not test self.file_system.isfile(self.path)")
        ok = bool(ab[0]) and norm(ab[0][0]) == "return self.path" and any(isinstance(s, ast.Raise) for s in ab[1]) \
            and not any(isinstance(s, ast.Return) for s in ab[1])
    # an empty candidate list yields None: `if not files` / `if len(files) == 0` (canonically the same test)
    none_ret = [st for st in walk_no_nested(f.node) if isinstance(st, ast.If) and len(st.body) == 1
                and isinstance(st.body[0], ast.Return) and norm(st.body[0].value) == "None"
                and any(norm(st.test) == "not %s" % nm_ or norm(st.test) == "not len(%s)" % nm_ for nm_ in
                        {n_.id for n_ in ast.walk(st.test) if isinstance(n_, ast.Name)})]
    ctx.ob("FileSet.find_closest.single", ok and bool(none_ret), "first statement: %s; empty-result guard: %s" % (norm(first.test) if isinstance(first, ast.If) else None,
                                                                                                              [norm(s.test) for s in none_ret]),
           "single file -> its path (ValueError if it does not exist); no files in the window -> None", node=first, func=f)


def rule_dispatch(ctx):
    ctx.rule("C16.dispatch", "T6", "fileset[t] / fileset[t, filters] pass the filters through, propagate None and read the found file")
    f = ctx.func(FILESET, "FileSet.__getitem__")
    item = f.params[1]
    flow = Flow(f)
    fc = calls_in(f.node, "find_closest")
    if len(fc) != 1:
        raise AnalysisError("__getitem__: expected one self.find_closest(...) call")
    c = fc[0]
    g = ctx.func(FILESET, "FileSet.find_closest")
    from ..calls import bind_args
    b = bind_args(c, g)
    targ, farg = b.get(g.params[1]), b.get(g.params[2])
    cond = "isinstance(%s, (tuple, list))" % item
    got = {}
    for v in (True, False):
        got[v] = (norm(flow.resolve_under(targ, {cond: v}, at=c, stop=(item,))) if targ is not None else None,
                  norm(flow.resolve_under(farg, {cond: v}, at=c, stop=(item,))) if farg is not None else None)
    ok = got[True] == ("%s[0]" % item, "%s[1]" % item) and got[False] == (item, "None")
    ctx.ob("FileSet.__getitem__.unpack", ok, "find_closest(t, filters) receives %s for a tuple key and %s for a bare key" % (got[True], got[False]),
           "(t, filters) tuples are split; a bare key has no filters", node=c, func=f)
    st = enclosing_stmt(c)
    nm = st.targets[0].id if isinstance(st, ast.Assign) and isinstance(st.targets[0], ast.Name) else None
    if nm is None:
        raise AnalysisError("__getitem__: the result of find_closest is not bound to a name")
    reads = [r_ for r_ in flow.stmts if isinstance(r_, ast.Return) and r_.value is not None
             and any(isinstance(n_, ast.Name) and n_.id == nm for n_ in ast.walk(r_.value)) and calls_in(r_.value)]
    if len(reads) != 1:
        raise AnalysisError("__getitem__: expected one return that hands the found file to a reader")
    rr = reads[0]
    some_case = flow.resolve_under(rr.value, {"%s is None" % nm: False}, at=rr, stop=(nm,))
    okc = norm(some_case) == "self.read(%s)" % nm
    # with nothing found, no reader is reached: every return that is live then returns None
    after = [r_ for r_ in flow.stmts if isinstance(r_, ast.Return) and flow._order(r_) > flow._order(st)
             and any(x is r_ for b_ in [parent(st)] for x in ast.walk(b_))]
    live_none = [r_ for r_ in after if flow.live_under(r_, {"%s is None" % nm: True}, stop=(nm,))]
    vals_none = [norm(flow.resolve_under(r_.value, {"%s is None" % nm: True}, at=r_, stop=(nm,))) if r_.value is not None else "None" for r_ in live_none]
    okc = okc and bool(live_none) and vals_none[0] == "None"
    ctx.ob("FileSet.__getitem__.closest", okc, "%s; then %s" % (norm(st), norm(rr)), "find_closest(time_args, filters=filters); None propagates; otherwise self.read(found)", node=c, func=f)


def rule_keys(ctx):
    """A timestamp in any notation find_closest understands: fileset[t] must hand every key that is not a slice to find_closest (an
    `elif isinstance(t, (datetime, str))` without else answers numpy.datetime64 / date keys with None, the "no file" answer), and
    to_datetime must return a plain datetime for a pandas.Timestamp (a datetime subclass numpy cannot subtract from datetimes: the
    nearest-file computation raised TypeError for a Timestamp in a gap)."""
    ctx.rule("C16.keys", "T1", "every non-slice key reaches find_closest; to_datetime turns a pandas.Timestamp into a python datetime")
    ob_time_resolution(ctx)
    f = ctx.func(FILESET, "FileSet.__getitem__")
    flow = Flow(f)
    fc = calls_in(f.node, "find_closest")
    if len(fc) != 1:
        raise AnalysisError("__getitem__: expected one self.find_closest(...) call")
    from ..flow import guard_chain
    gc = guard_chain(enclosing_stmt(fc[0]), implicit=True)
    def _pos(t_, pol):
        while isinstance(t_, ast.UnaryOp) and isinstance(t_.op, ast.Not):
            t_, pol = t_.operand, not pol
        return t_, pol
    gc = [_pos(flow.resolve(t_, at=t_, depth=1), pol) for t_, pol in gc]
    tests = [(str(norm(t_)).replace(" ", ""), pol) for t_, pol in gc]
    narrowing = [t_ for t_, pol in tests if pol and t_.startswith("isinstance(") and ("datetime" in t_ or "str" in t_)]
    only_slice = all((not pol and t_.startswith("isinstance(") and t_.endswith(",slice)")) for t_, pol in tests)
    if not narrowing and not only_slice:
        raise AnalysisError("__getitem__: condition %s in front of find_closest not understood" % tests)
    ctx.ob("FileSet.__getitem__.keys", only_slice, "find_closest is reached under: %s" % [("%s" if pol else "not %s") % t_ for t_, pol in tests],
           "every key that is not a slice (str, datetime, date, numpy.datetime64, pandas.Timestamp ...): a type test that lets other timestamps fall through "
           "returns None, the answer for 'no file'", node=fc[0], func=f,
           witness=None if only_slice else {"fs[np.datetime64('2018-01-04')]": None, "fs.find_closest(np.datetime64('2018-01-04'))": "the file of that day"})
    g = ctx.func("typhon/utils/timeutils.py", "to_datetime")
    gflow = Flow(g)
    obj = g.params[0]
    TS = ["isinstance(%s, pd.Timestamp)" % obj, "isinstance(%s, pandas.Timestamp)" % obj]
    DT = ["isinstance(%s, datetime)" % obj, "isinstance(%s, datetime.datetime)" % obj]
    asm = {t_: True for t_ in TS + DT}
    asm.update({"isinstance(%s, datetime) and not isinstance(%s, pd.Timestamp)" % (obj, obj): False, "not isinstance(%s, pd.Timestamp)" % obj: False})
    rets = [r_ for r_ in gflow.stmts if isinstance(r_, ast.Return) and r_.value is not None and gflow.live_under(r_, asm, stop=(obj,))]
    if len(rets) != 1:
        raise AnalysisError("to_datetime: %d returns reachable for a pandas.Timestamp" % len(rets))
    val = str(norm(gflow.resolve_under(rets[0].value, asm, at=rets[0], stop=(obj,)))).replace(" ", "")
    if val == obj:
        okt = False
    elif val in ("%s.to_pydatetime()" % obj, "pd.to_datetime(%s).to_pydatetime()" % obj, "pd.Timestamp(%s).to_pydatetime()" % obj):
        okt = True
    else:
        raise AnalysisError("to_datetime: value %s returned for a pandas.Timestamp not understood" % val)
    ctx.ob("to_datetime.timestamp", okt, "a pandas.Timestamp is returned as %s" % val, "obj.to_pydatetime(): the Timestamp branch comes before `isinstance(obj, datetime)` "
           "(Timestamp is a datetime subclass) - find_closest computes |coverage - t| with numpy on python datetimes", node=rets[0], func=g,
           witness=None if okt else {"find_closest(pd.Timestamp('2018-01-05'))": "TypeError: unsupported operand type(s) for -: 'numpy.ndarray' and 'Timestamp'"})


def ob_time_resolution(ctx):
    """to_datetime / to_timedelta keep the microseconds of what they convert: every period limit, timestamp key and interval of the
    file and collocation properties goes through them.  A cast to a numpy time unit coarser than microseconds floors the value."""
    import re as _re
    COARSE = {"Y", "M", "W", "D", "h", "m", "s", "ms"}
    for name in ("to_datetime", "to_timedelta"):
        g = ctx.func("typhon/utils/timeutils.py", name)
        floors = []
        for n_ in ast.walk(g.node):
            if isinstance(n_, ast.Constant) and isinstance(n_.value, str):
                m_ = _re.fullmatch(r"[<>=]?(datetime64|timedelta64|M8|m8)\[(\w+)\]", n_.value.strip())
                if m_ and m_.group(2) in COARSE:
                    floors.append(n_.value)
            if isinstance(n_, ast.Call) and isinstance(n_.func, ast.Attribute) and n_.func.attr == "replace" \
                    and any(k_.arg in ("microsecond", "second") for k_ in n_.keywords):
                floors.append(str(norm(n_))[:50])
            if isinstance(n_, ast.Call) and isinstance(n_.func, ast.Attribute) and n_.func.attr in ("floor", "round", "ceil") and n_.args \
                    and isinstance(n_.args[0], ast.Constant) and isinstance(n_.args[0].value, str) and n_.args[0].value.lower() in ("s", "1s", "ms", "min", "h", "d", "t"):
                floors.append(str(norm(n_))[:50])
        ctx.ob("%s.resolution" % name, not floors, "conversions to a unit coarser than microseconds: %s" % (floors or "none"),
               "none: a limit such as numpy.datetime64('...T12:00:00.4') keeps its fraction of a second (floored to whole seconds, points up to 1 s outside "
               "the period are included / inside it are dropped)", node=g.node, func=g)


def run(ctx):
    from ..calendar_rule import rule_leap
    ctx.attempt(rule_leap, ctx, "C16.calendar", ['typhon/files/fileset.py', 'typhon/utils/timeutils.py'])
    for r in (rule_shortcut, rule_window, rule_cover, rule_nearest, rule_single, rule_dispatch, rule_keys):
        ctx.attempt(r, ctx)
    # the window is computed from _sub_dir_time_resolution, which the path setter must keep current
    from . import C01
    ctx.attempt(C01.rule_pathstate, ctx, "C01.pathstate")
    # the candidates are what find(start, end, filters=...) yields: "nearest among all files in the neighbourhood" holds only
    # if find() yields all of them - the selection rules of C01 are reachable from find_closest
    # (rule_trunc_table: the periods of the directory units - the window of find_closest is +- one such period: month >= 31 d, year >= 366 d)
    for r in (C01.rule_semiopen, C01.rule_prune, C01.rule_exclude, C01.rule_blacklist, C01.rule_trunc_table):
        ctx.attempt(r, ctx)
    from .C03 import tree_rules
    from .C02 import rule_anchor
    from .C02 import fill_evaluated, trip_evaluated, helpers_evaluated, rule_table, rule_year2, rule_doy_subsec, rule_endfill
    helpers_evaluated(ctx, "C16.helpers")
    if not trip_evaluated(ctx, "C16.trip", (rule_table, (ctx,), ("C02.table",)), (rule_year2, (ctx,), ("C02.year2",)), (rule_doy_subsec, (ctx,), ("C02.doy", "C02.subsec"))):
        # the round trip could not be evaluated on this (restructured) tree: the structural rule about the completion of end times looks at
        # _retrieve_time_coverage instead, so that the function is examined either way
        ctx.attempt(rule_endfill, ctx)
    fill_evaluated(ctx, "C16.fill", (rule_anchor, (ctx, "C01.anchor"), ("C01.anchor",)))
    tree_rules(ctx, which=("pred", "partition", "descent_q", "scan_q", "early_q", "rows", "empty", "extent", "member"))
    # the caller's arguments (arrays, filter / fill dictionaries) are not modified: an in-place update makes the next call on the same objects wrong
    from ..purity import rule_pure as _rule_args
    ctx.attempt(_rule_args, ctx, "C16.args", [('typhon/files/fileset.py', 'FileSet.find_closest'), ('typhon/files/fileset.py', 'FileSet.__getitem__')], "the caller's arguments are not modified in place")
