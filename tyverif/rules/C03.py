"""C03 - interval queries and file matching report exactly the overlapping intervals.

A centred interval tree is correct iff (i) every stored row keeps its own (left, right,
index), (ii) each node's three bins partition its rows, (iii) a node tests all of its centre
rows with the exact predicate, (iv) a subtree is skipped only if none of its rows can match,
(v) recursion descends into the child it tested, (vi) every early return returns the complete
answer.  Each premise is one rule; the predicates are read from the AST and compared with the
specification over all weak orderings of their symbols (complete for comparison predicates).
"""
import ast
import itertools
from ..core import AnalysisError, norm, dotted, calls_in, walk_no_nested, call_arg, parent, enclosing_stmt
from ..order import Interp, Model, eval_function, Raised
from ..flow import Flow, conjuncts, emptiness_test_kind, iteration_constructs

TREES = "typhon/trees.py"
FILESET = "typhon/files/fileset.py"

EXPECT = {"C03.args": 4, "C03.pred": 2, "C03.partition": 2, "C03.descent": 12, "C03.early": 2, "C03.rows": 4,
          "C03.empty": 2, "C03.scan": 8, "C03.match": 16, "C03.extent": 2, "C03.member": 1, "C03.api": 2, "C03.answer": 2}


def OVspec(a, b):
    return max(a[0], b[0]) <= min(a[1], b[1])


def INspec(i, p):
    return i[0] <= p <= i[1]


# ---------------------------------------------------------------------------------
def tree_rules(ctx, which=("pred", "partition", "descent_q", "descent_p", "early_q", "early_p", "rows",
                           "empty", "extent", "member", "scan_q", "scan_p", "api")):
    """The IntervalTree rules.  `which` lets other properties (C01, C05) share the subset
    reachable from their own entry points."""
    T = TreeFacts(ctx)
    table = [("pred", T.rule_pred, ()), ("partition", T.rule_partition, ()),
             ("descent_q", T.rule_descent, ("_query", "q")), ("descent_p", T.rule_descent, ("_query_point", "p")),
             ("scan_q", T.rule_scan, ("_query", "q")), ("scan_p", T.rule_scan, ("_query_point", "p")),
             ("early_q", T.rule_early, ("_query", "q")), ("early_p", T.rule_early, ("_query_point", "p")),
             ("rows", T.rule_rows, ()), ("empty", T.rule_empty, ()), ("extent", T.rule_extent, ()),
             ("member", T.rule_member, ()), ("api", T.rule_api, ())]
    for key, fn, a in table:
        if key in which:
            ctx.attempt(fn, *a)
    return T


class TreeFacts:
    def __init__(self, ctx):
        self.ctx = ctx
        self.f_ov = ctx.func(TREES, "IntervalTree.interval_overlaps")
        self.f_in = ctx.func(TREES, "IntervalTree.interval_contains")
        self.f_init = ctx.func(TREES, "IntervalTree.__init__")
        self.f_build = ctx.func(TREES, "IntervalTree._build_tree")
        self.f_node = ctx.func(TREES, "IntervalTreeNode.__init__")
        self._node_attrs = None
        self._masks = None

    # extracted predicates as python callables over abstract values
    def OV(self, a, b):
        return bool(eval_function(self.f_ov, [a, b]))

    def IN(self, i, p):
        return bool(eval_function(self.f_in, [i, p]))

    # -- C03.pred ------------------------------------------------------------------
    def rule_pred(self):
        ctx = self.ctx
        ctx.rule("C03.pred", "T4 equivalence",
                 "interval_overlaps == closed intervals intersect; interval_contains == i0 <= p <= i1")
        m = Model(["a0", "a1", "b0", "b1"], constraint=lambda a: a["a0"] <= a["a1"] and a["b0"] <= a["b1"])
        ok, wit, st = m.compare(lambda a: self.OV((a["a0"], a["a1"]), (a["b0"], a["b1"])),
                                lambda a: OVspec((a["a0"], a["a1"]), (a["b0"], a["b1"])))
        ctx.models.append(dict(st, rule="C03.pred", exhaustive=True))
        ctx.ob("IntervalTree.interval_overlaps", ok, "return " + _ret_text(self.f_ov),
               "max(a0,b0) <= min(a1,b1) on every weak ordering of (a0<=a1, b0<=b1)",
               node=self.f_ov.node, func=self.f_ov, witness=wit)
        m = Model(["i0", "i1", "p"], constraint=lambda a: a["i0"] <= a["i1"])
        ok, wit, st = m.compare(lambda a: self.IN((a["i0"], a["i1"]), a["p"]),
                                lambda a: INspec((a["i0"], a["i1"]), a["p"]))
        ctx.models.append(dict(st, rule="C03.pred", exhaustive=True))
        ctx.ob("IntervalTree.interval_contains", ok, "return " + _ret_text(self.f_in),
               "i0 <= p <= i1 on every weak ordering", node=self.f_in.node, func=self.f_in, witness=wit)

    # -- node attribute mapping ------------------------------------------------------
    def node_attrs(self):
        """IntervalTreeNode.__init__: attribute name -> constructor parameter it stores
        (looking through np.asarray etc.)."""
        if self._node_attrs is None:
            m = {}
            params = self.f_node.params[1:]
            for st in self.f_node.body:
                if isinstance(st, ast.Assign) and len(st.targets) == 1:
                    t = st.targets[0]
                    if isinstance(t, ast.Attribute) and isinstance(t.value, ast.Name) and t.value.id == "self":
                        names = [n.id for n in ast.walk(st.value) if isinstance(n, ast.Name) and n.id in params]
                        if len(names) == 1:
                            m[t.attr] = names[0]
            self._node_attrs = (m, params)
        return self._node_attrs

    def masks(self):
        """From _build_tree: role -> mask expression, for roles given by the parameter of
        IntervalTreeNode.__init__ each selected row set is passed to; plus the centre-point
        expression and the attribute names of the node for (centre point, centre rows, children)."""
        if self._masks is not None:
            return self._masks
        f = self.f_build
        flow = Flow(f)
        P = f.params[1]
        attrs, nparams = self.node_attrs()
        # the constructor call that builds the node
        ctor = None
        for st in flow.stmts:
            if isinstance(st, ast.Return) and st.value is not None:
                for c in calls_in(st.value, "IntervalTreeNode"):
                    ctor = c
        if ctor is None:
            raise AnalysisError("_build_tree does not return an IntervalTreeNode(...)")
        bound = {}
        for i, a in enumerate(ctor.args):
            bound[nparams[i]] = a
        for k in ctor.keywords:
            bound[k.arg] = k.value
        roles = {}
        for pname, arg in bound.items():
            arg = flow.resolve(arg, at=ctor, stop=(P,))
            rec = calls_in(arg, "_build_tree")
            inner = rec[0].args[0] if rec else arg
            val = inner
            roles[pname] = (val, bool(rec))
        # classify: the parameter receiving a non-recursive row selection is the centre bin,
        # the one receiving no row selection at all is the centre point
        info = {"P": P}
        children = []
        for pname, (val, is_rec) in roles.items():
            sel = _row_selection(val, P)
            if is_rec:
                children.append((pname, sel, val))
            elif sel is not None:
                info["center_param"] = pname
                info["center_mask"] = sel
            else:
                info["cp_param"] = pname
                info["cp_expr"] = val
        if len(children) != 2 or "center_param" not in info or "cp_param" not in info:
            raise AnalysisError("cannot identify centre point / centre bin / two children in _build_tree")
        info["children"] = children
        # attribute names under which the node stores them
        inv = {}
        for a, p in attrs.items():
            inv.setdefault(p, a)
        info["attr_of"] = inv
        # the centre point expression, with _get_center inlined
        cp = info["cp_expr"]
        cpc = calls_in(cp, "_get_center")
        if cpc:
            g = self.ctx.func(TREES, "IntervalTree._get_center")
            rets = [s for s in g.body if isinstance(s, ast.Return)]
            if len(rets) != 1 or not all(isinstance(s, (ast.Return, ast.Assign)) for s in g.body):
                raise AnalysisError("_get_center is not straight-line code ending in one return")
            info["cp_sub"] = (Flow(g).resolve(rets[0].value, at=rets[0], stop=(g.params[-1],)), g.params[-1])
        else:
            info["cp_sub"] = (cp, P)
        self._masks = info
        return info

    def mask_fn(self, mask, P, cpname_texts):
        """mask expression -> function(l, r, c)"""
        if mask == "SLICE":
            raise AnalysisError("row set selected by position, not by a comparison mask")

        def fn(l, r, c):
            env = {"%s[:, 0]" % P: l, "%s[:, 1]" % P: r}
            for t in cpname_texts:
                env[t] = c
            return bool(Interp(env).ev(mask))
        return fn

    # -- C03.partition ---------------------------------------------------------------
    def rule_partition(self):
        ctx = self.ctx
        ctx.rule("C03.partition", "T4", "centre/left/right masks of _build_tree partition the rows (l <= r); "
                 "the centre point is an end point of a stored row")
        info = self.masks()
        f = self.f_build
        P = info["P"]
        cptexts = self._cp_texts(info)
        fns = []
        texts = []
        bad_kind = None
        for name, m in [(info["center_param"], info["center_mask"])] + [(c[0], c[1]) for c in info["children"]]:
            if m is None or m == "SLICE":
                bad_kind = (name, m)
                continue
            fns.append(self.mask_fn(m, P, cptexts))
            texts.append("%s: %s" % (name, norm(m)))
        if bad_kind is not None:
            # a bin chosen by row position is not a function of the row's own end points:
            # rows with equal end points can then land in two bins or in none
            ctx.ob("IntervalTree._build_tree", False,
                   "bin '%s' is not selected by a comparison mask over the row's end points" % bad_kind[0],
                   "each bin is {row : predicate(l, r, centre)} and the three predicates partition l <= r",
                   node=f.node, func=f)
            return
        m = Model(["l", "r", "c"], constraint=lambda a: a["l"] <= a["r"])
        ok, wit, st = m.compare(lambda a: sum(1 for fn in fns if fn(a["l"], a["r"], a["c"])) == 1,
                                lambda a: True)
        ctx.models.append(dict(st, rule="C03.partition", exhaustive=True))
        ctx.ob("IntervalTree._build_tree", ok, "; ".join(texts),
               "exactly one of the three masks holds for every row l <= r and every centre c",
               node=f.node, func=f, witness=wit)
        # centre point is an end point of a stored row and that row is in the centre bin
        sub, p2 = info["cp_sub"]
        col = None
        if isinstance(sub, ast.Subscript) and isinstance(sub.value, ast.Name) and sub.value.id == p2 \
                and isinstance(sub.slice, ast.Tuple) and len(sub.slice.elts) == 2 \
                and isinstance(sub.slice.elts[1], ast.Constant) and sub.slice.elts[1].value in (0, 1):
            col = sub.slice.elts[1].value
        cfn = fns[0]
        ok = col is not None and all(
            cfn(l, r, (l, r)[col]) for l in range(3) for r in range(l, 3))
        if ok:
            # the row index must address an existing row for every row count n >= 1
            from ..ratinterp import Rat
            from fractions import Fraction
            try:
                for nrows in range(1, 7):
                    idx = Rat({"%s.shape[0]" % p2: Fraction(nrows), "len(%s)" % p2: Fraction(nrows)}).ev(sub.slice.elts[0])
                    if not (idx.denominator == 1 and -nrows <= idx < nrows):
                        ok = False
            except AnalysisError:
                raise AnalysisError("_get_center: row index %s outside the index model" % norm(sub.slice.elts[0]))
        ctx.ob("IntervalTree._get_center", ok, "centre point = %s" % norm(sub),
               "an end point (column 0 or 1) of one of the rows, and that row satisfies the centre mask "
               "(non-empty centre bin: the recursion terminates)", node=sub, func=f)

    def _cp_texts(self, info):
        # the texts under which the centre point appears inside the (resolved) masks
        return {norm(info["cp_expr"]), "center_point"} | ({norm(info["cp_sub"][0])})

    # -- C03.descent -----------------------------------------------------------------
    def rule_descent(self, fname, kind):
        ctx = self.ctx
        ctx.rule("C03.descent", "T4 implication + T6",
                 "a subtree is entered whenever one of its rows can match, and the recursive call "
                 "receives the child whose presence the guard tested")
        info = self.masks()
        f = ctx.func(TREES, "IntervalTree." + fname)
        q, nodep = f.params[1], f.params[2]
        attr_of = info["attr_of"]
        cp_attr = attr_of.get(info["cp_param"])
        P = info["P"]
        cptexts = self._cp_texts(info)
        child_masks = {attr_of.get(c[0]): c for c in info["children"]}
        found = {}
        dflow = Flow(f)
        from ..flow import guard_chain
        descents = [(c_, enclosing_stmt(c_), None) for c_ in sorted(calls_in(f.node, fname), key=lambda c_: (c_.lineno, c_.col_offset))]
        # iterative descent: `node = node.<child>` in tail position of a `while True` loop that scans the node
        for st_ in walk_no_nested(f.node):
            if isinstance(st_, ast.Assign) and len(st_.targets) == 1 and norm(st_.targets[0]) == nodep and isinstance(st_.value, ast.Attribute) \
                    and norm(st_.value.value) == nodep:
                cur_, loop_ = st_, None
                while cur_ is not f.node:
                    par_ = parent(cur_)
                    if isinstance(par_, ast.While):
                        loop_ = par_
                        if cur_ is not par_.body[-1]:
                            raise AnalysisError("%s: the node is replaced by its child before the end of the loop body" % fname)
                        break
                    blocks_ = [b_ for b_ in (getattr(par_, "body", None), getattr(par_, "orelse", None)) if isinstance(b_, list) and any(x is cur_ for x in b_)]
                    if not isinstance(par_, ast.If) or not blocks_ or blocks_[0][-1] is not cur_:
                        raise AnalysisError("%s: `%s` is not in tail position of a loop" % (fname, norm(st_)))
                    cur_ = par_
                if loop_ is None or not (isinstance(loop_.test, ast.Constant) and loop_.test.value is True):
                    raise AnalysisError("%s: `%s` outside a `while True` loop" % (fname, norm(st_)))
                if any(isinstance(n_, ast.Name) and n_.id == q and isinstance(n_.ctx, ast.Store) for n_ in ast.walk(f.node)):
                    raise AnalysisError("%s: the query is reassigned in the iterative descent" % fname)
                descents.append((None, st_, loop_))
        # "select the subtree, then recurse once": a recursive call whose node argument is a local bound to node.<child> on several paths
        # is one descent per such binding - its guard is the guard of the binding plus the guard of the call with the local replaced
        expanded = []
        from ..core import clone as _cl
        for call, st, loop_ in descents:
            sel = None
            if call is not None:
                pa = _bind_call(call, f).get(nodep)
                if isinstance(pa, ast.Name) and pa.id != nodep:
                    sel = pa.id
            if sel is None:
                expanded.append((call, st, loop_, None, None))
                continue
            for d_ in dflow.defs(sel, call):
                if d_ == "param" or not isinstance(d_, ast.Assign):
                    raise AnalysisError("%s: the subtree handed to the recursive call is not bound by plain assignments" % fname)
                v_ = d_.value
                if isinstance(v_, ast.Constant) and v_.value is None:
                    continue                 # "no subtree": the call is guarded by `<local> is not None`
                if not (isinstance(v_, ast.Attribute) and norm(v_.value) == nodep):
                    raise AnalysisError("%s: the subtree handed to the recursive call is bound to %s" % (fname, norm(v_)))

                class _R(ast.NodeTransformer):
                    def visit_Name(self, n_):
                        return _cl(v_) if n_.id == sel and isinstance(n_.ctx, ast.Load) else n_
                ch = list(guard_chain(d_)) + [(ast.fix_missing_locations(_R().visit(_cl(t_))), p_) for t_, p_ in guard_chain(st, stop=loop_)]
                expanded.append((call, st, loop_, ch, v_))
        for call, st, loop_, chain_over, passed_over in expanded:
            orig = st
            chain = chain_over if chain_over is not None else guard_chain(st, stop=loop_)
            if not chain:
                raise AnalysisError("%s: unguarded recursive call" % fname)
            # which child does the guard test for presence
            tested = None
            guard = []
            presence = []
            for test_, pol_ in chain:
                test_ = dflow.resolve(test_, at=test_, stop=(q, nodep))
                if not pol_:
                    # presence tests of the *other* child inside a negated guard are free booleans
                    class _P(ast.NodeTransformer):
                        def visit_Compare(self, n_):
                            a_ = _is_not_none(n_)
                            if a_ is not None and isinstance(a_, ast.Attribute) and norm(a_.value) == nodep:
                                nm_ = "__present_%s" % a_.attr
                                if nm_ not in presence:
                                    presence.append(nm_)
                                return ast.Name(id=nm_, ctx=ast.Load())
                            return n_
                    from ..core import clone as _clone
                    guard.append(ast.UnaryOp(op=ast.Not(), operand=_P().visit(_clone(test_))))
                    continue
                for cj in conjuncts(test_):
                    a = _is_not_none(cj)
                    if a is not None and isinstance(a, ast.Attribute) and isinstance(a.value, ast.Name) and a.value.id == nodep:
                        tested = a.attr
                    else:
                        guard.append(cj)
            st = [n_ for n_, _ in [(parent(st), 0)] if isinstance(n_, ast.If)][0] if isinstance(parent(st), ast.If) else st
            # the child handed to the recursive call
            if call is not None:
                bound = _bind_call(call, f)
            else:
                bound = {nodep: orig.value, q: ast.Name(id=q, ctx=ast.Load())}
            passed = passed_over if passed_over is not None else bound.get(nodep)
            passed_attr = passed.attr if (isinstance(passed, ast.Attribute) and isinstance(passed.value, ast.Name)
                                          and passed.value.id == nodep) else None
            call = call if call is not None else st
            construct = "IntervalTree.%s[%s]" % (fname, tested or norm(chain[-1][0]))
            ctx.ob(construct + ".child", passed_attr is not None and passed_attr == tested and tested in child_masks,
                   "guard tests %s.%s, recursive call receives %s" % (nodep, tested, norm(passed) if passed is not None else None),
                   "the recursive call descends into the child whose presence was tested",
                   node=call, func=f)
            qpassed = bound.get(q)
            ctx.ob(construct + ".query", qpassed is not None and norm(qpassed) == q,
                   "recursive call passes %s as the query" % (norm(qpassed) if qpassed is not None else None),
                   "the unchanged query", node=call, func=f)
            if tested not in child_masks:
                continue
            found[tested] = True
            pname, mask, _ = child_masks[tested]
            mfn = self.mask_fn(mask, P, cptexts) if mask not in (None, "SLICE") else None
            if mfn is None:
                raise AnalysisError("child bin of _build_tree is not a comparison mask")
            gexpr = ast.BoolOp(op=ast.And(), values=guard) if len(guard) > 1 else (guard[0] if guard else ast.Constant(True))

            if kind == "q":
                syms = ["l", "r", "c", "q0", "q1"]
                cons = lambda a: a["l"] <= a["r"] and a["q0"] <= a["q1"]

                def gfn(a, gexpr=gexpr, presence=tuple(presence)):
                    return all(bool(Interp(dict({q: (a["q0"], a["q1"]), "%s.%s" % (nodep, cp_attr): a["c"]}, **dict(zip(presence, pv))),
                                           {"interval_overlaps": self.OV, "interval_contains": self.IN}).ev(gexpr))
                               for pv in itertools.product((False, True), repeat=len(presence)))

                def spec(a, mfn=mfn):
                    return mfn(a["l"], a["r"], a["c"]) and OVspec((a["l"], a["r"]), (a["q0"], a["q1"]))
            else:
                syms = ["l", "r", "c", "p"]
                cons = lambda a: a["l"] <= a["r"]

                def gfn(a, gexpr=gexpr, presence=tuple(presence)):
                    return all(bool(Interp(dict({q: a["p"], "%s.%s" % (nodep, cp_attr): a["c"]}, **dict(zip(presence, pv))),
                                           {"interval_overlaps": self.OV, "interval_contains": self.IN}).ev(gexpr))
                               for pv in itertools.product((False, True), repeat=len(presence)))

                def spec(a, mfn=mfn):
                    return mfn(a["l"], a["r"], a["c"]) and INspec((a["l"], a["r"]), a["p"])
            m = Model(syms, constraint=cons)
            ok, wit, st_ = m.compare(gfn, spec, mode="implies")
            ctx.models.append(dict(st_, rule="C03.descent", exhaustive=True))
            ctx.ob(construct + ".guard", ok, "descend into %s iff %s" % (tested, norm(gexpr)),
                   "(row in bin '%s': %s) and row matches the query  =>  guard" % (pname, norm(mask)),
                   node=st, func=f, witness=wit)
        for a in child_masks:
            if a not in found:
                ctx.ob("IntervalTree.%s[%s]" % (fname, a), False, "no guarded recursive call for child '%s'" % a,
                       "both children are searched", node=f.node, func=f)

    # -- C03.scan --------------------------------------------------------------------
    def rule_scan(self, fname, kind):
        ctx = self.ctx
        ctx.rule("C03.scan", "T4 equivalence + T6", "every centre row of a visited node is tested with the exact "
                 "predicate and contributes its index column")
        info = self.masks()
        f = ctx.func(TREES, "IntervalTree." + fname)
        q, nodep = f.params[1], f.params[2]
        center_attr = info["attr_of"].get(info["center_param"])
        flow = Flow(f)
        its = []
        for ic in iteration_constructs(f.node):
            it = flow.resolve(ic["iter"], at=ic["node"], stop=(q, nodep))
            if isinstance(it, ast.Attribute) and isinstance(it.value, ast.Name) and it.value.id == nodep:
                its.append((ic, it))
        construct = "IntervalTree.%s.scan" % fname
        if len(its) != 1 or len(its[0][0]["elts"]) != 1:
            raise AnalysisError("%s: expected exactly one scan (comprehension or loop) over an attribute of %s, found %d" % (fname, nodep, len(its)))
        ic, it = its[0]
        comp = ic["node"]
        ctx.ob(construct + ".rows", it.attr == center_attr, "iterates %s" % norm(it),
               "%s.%s (the centre bin stored by IntervalTreeNode)" % (nodep, center_attr), node=comp, func=f)
        self._scan_guard(ctx, f, flow, fname, kind, comp, q, nodep, center_attr, construct)
        row = ic["target"].id if isinstance(ic["target"], ast.Name) else None
        if row is None:
            raise AnalysisError("scan target is not a name")
        ifs = [flow.resolve(x, at=comp, stop=(q, nodep, row)) for x in ic["ifs"]]
        filt = ast.BoolOp(op=ast.And(), values=ifs) if len(ifs) > 1 else (ifs[0] if ifs else ast.Constant(True))
        funcs = {"interval_overlaps": lambda a, b: OVspec(a, b), "interval_contains": lambda i, p: INspec(i, p)}
        # the extracted predicates are checked by C03.pred; here the spec versions are composed
        funcs = {"interval_overlaps": self.OV, "interval_contains": self.IN}
        if kind == "q":
            m = Model(["l", "r", "q0", "q1"], constraint=lambda a: a["l"] <= a["r"] and a["q0"] <= a["q1"])
            ext = lambda a: bool(Interp({row: (a["l"], a["r"]), q: (a["q0"], a["q1"])}, funcs).ev(filt))
            spec = lambda a: OVspec((a["l"], a["r"]), (a["q0"], a["q1"]))
        else:
            m = Model(["l", "r", "p"], constraint=lambda a: a["l"] <= a["r"])
            ext = lambda a: bool(Interp({row: (a["l"], a["r"]), q: a["p"]}, funcs).ev(filt))
            spec = lambda a: INspec((a["l"], a["r"]), a["p"])
        ok, wit, st_ = m.compare(ext, spec)
        ctx.models.append(dict(st_, rule="C03.scan", exhaustive=True))
        ctx.ob(construct + ".filter", ok, "keep row iff %s" % norm(filt),
               "row %s the query (closed bounds)" % ("overlaps" if kind == "q" else "contains"),
               node=comp, func=f, witness=wit)
        elt = ic["elts"][0]
        while isinstance(elt, ast.Call) and dotted(elt.func) == "int" and elt.args:
            elt = elt.args[0]
        ok = isinstance(elt, ast.Subscript) and isinstance(elt.value, ast.Name) and elt.value.id == row \
            and isinstance(elt.slice, ast.Constant) and elt.slice.value in (2, -1)
        ctx.ob(construct + ".index", ok, "collects %s" % norm(ic["elts"][0]), "the index column (column 2 / last) of the row",
               node=comp, func=f)

    def _scan_guard(self, ctx, f, flow, fname, kind, comp, q, nodep, center_attr, construct):
        """the scan of the centre rows is skipped only when no centre row can match: decided over all centre bins of up to three
        rows (each containing the centre point, in the order the tree stores them) and all queries on a small grid"""
        from ..flow import guard_chain
        st = enclosing_stmt(comp)
        chain = [(flow.resolve(t_, at=st, stop=(q, nodep)), pol_) for t_, pol_ in guard_chain(st)]
        if not chain:
            ctx.ob(construct + ".always", True, "the scan is unconditional", "every centre row of a visited node is looked at", node=comp, func=f)
            return
        init = ctx.func(TREES, "IntervalTree.__init__")
        by_lower = any(norm(c_.args[0]).replace(" ", "").endswith("[:,0]") for c_ in calls_in(init.node, "argsort") if c_.args)
        C = "%s.%s" % (nodep, center_attr)
        grid = range(4)
        bad = None
        n = 0
        rows_all = [(l, r) for l in grid for r in grid if l <= r]
        for k in (1, 2, 3):
            for rows in itertools.product(rows_all, repeat=k):
                if by_lower and any(rows[i][0] > rows[i + 1][0] for i in range(k - 1)):
                    continue
                for cp in grid:
                    if any(not (l <= cp <= r) for l, r in rows):
                        continue
                    for qq in ([(a, b) for a in grid for b in grid if a <= b] if kind == "q" else list(grid)):
                        env = {q: qq, "%s.center_point" % nodep: cp, "len(%s)" % C: k, "%s.shape[0]" % C: k, "%s.size" % C: 3 * k, C: True}
                        for i in list(range(k)) + [-j - 1 for j in range(k)]:
                            for col in (0, 1):
                                env["%s[%d, %d]" % (C, i, col)] = rows[i][col]
                                env["%s[%d][%d]" % (C, i, col)] = rows[i][col]
                        for col, fn_ in ((0, min), (1, max)):
                            pass
                        for col in (0, 1):
                            vals = [r_[col] for r_ in rows]
                            for spelled, v_ in (("%s[:, %d].min()", min(vals)), ("%s[:, %d].max()", max(vals)), ("np.min(%s[:, %d])", min(vals)),
                                                ("np.max(%s[:, %d])", max(vals)), ("min(%s[:, %d])", min(vals)), ("max(%s[:, %d])", max(vals))):
                                env[spelled % (C, col)] = v_
                        try:
                            taken = all(bool(Interp(env, {"interval_overlaps": self.OV, "interval_contains": self.IN}).ev(t_)) == pol_ for t_, pol_ in chain)
                        except AnalysisError as e_:
                            raise AnalysisError("%s: the condition under which the centre rows are scanned is outside the model: %s" % (fname, e_))
                        n += 1
                        if not taken:
                            hit = [rw for rw in rows if (OVspec(rw, qq) if kind == "q" else INspec(rw, qq))]
                            if hit and bad is None:
                                bad = {"centre rows": list(rows), "centre point": cp, "query": qq, "matching rows skipped": hit}
        ctx.models.append({"rule": "C03.scan", "cases": n, "domain": "centre bins of 1..3 rows on a grid of 4 values, every query on the grid", "exhaustive": True})
        ctx.ob(construct + ".always", bad is None, "scan performed only under %s; %d cases" % ([("%s" if p_ else "not (%s)") % norm(t_) for t_, p_ in chain], n),
               "whenever the scan is skipped no centre row matches the query (rows %s)" % ("sorted by lower bound only" if by_lower else "in no particular order"),
               node=comp, func=f, witness=bad)

    # -- C03.early -------------------------------------------------------------------
    def rule_early(self, fname, kind):
        ctx = self.ctx
        ctx.rule("C03.early", "T4", "every early return before the scan returns the complete answer")
        f = ctx.func(TREES, "IntervalTree." + fname)
        q, nodep = f.params[1], f.params[2]
        flag = f.params[3] if len(f.params) > 3 else None
        # attributes holding the global extent
        ext = self.extent_attrs()
        n = 0
        from ..flow import guard_chain
        eflow = Flow(f)
        scan_pos = None
        for k_, st in enumerate(f.body):
            if _contains_scan(st, nodep):
                scan_pos = k_
                break
        if scan_pos is None:
            raise AnalysisError("%s: scan of the centre rows not found" % fname)
        early = []
        for st in f.body[:scan_pos]:
            for r_ in [x for x in walk_no_nested(st) if isinstance(x, ast.Return)] if not isinstance(st, ast.Return) else [st]:
                early.append(r_)
        for ret in early:
            chain = guard_chain(ret)
            if not chain:
                raise AnalysisError("%s: unconditional return before the scan" % fname)
            st = ret
            while parent(st) is not f.node:
                st = parent(st)
            n += 1
            kind_ret = self._return_kind(ret.value)
            if len(chain) == 1 and chain[0][1] and str(norm(chain[0][0])) in ("%s is None" % nodep, "not %s" % nodep):
                # the (sub)tree is empty: no stored row at all, the complete answer is the empty list
                ctx.ob("IntervalTree.%s.early[no node]" % fname, kind_ret == "EMPTY", "if %s: return %s" % (norm(chain[0][0]), norm(ret.value) if ret.value is not None else None),
                       "an empty tree (no node) answers with the empty list", node=ret, func=f)
                continue
            guard = []
            for t_, pol_ in chain:
                t_ = eflow.resolve(t_, at=t_, stop=(q, nodep))
                if pol_:
                    guard.extend(cj for cj in conjuncts(t_) if not (isinstance(cj, ast.Name) and cj.id == flag))
                else:
                    guard.append(ast.UnaryOp(op=ast.Not(), operand=t_))
            if not guard:
                raise AnalysisError("%s: early return guarded by the flag only" % fname)
            gexpr = ast.BoolOp(op=ast.And(), values=guard) if len(guard) > 1 else guard[0]
            funcs = {"interval_overlaps": self.OV, "interval_contains": self.IN}
            lo, hi = ext

            def gfn(a, gexpr=gexpr):
                env = {"self." + lo: a["mn"], "self." + hi: a["mx"]}
                env[q] = (a["q0"], a["q1"]) if kind == "q" else a["p"]
                return bool(Interp(env, funcs).ev(gexpr))
            if kind == "q":
                syms = ["mn", "l", "r", "mx", "q0", "q1"]
                cons = lambda a: a["mn"] <= a["l"] <= a["r"] <= a["mx"] and a["q0"] <= a["q1"]
                match = lambda a: OVspec((a["l"], a["r"]), (a["q0"], a["q1"]))
            else:
                syms = ["mn", "l", "r", "mx", "p"]
                cons = lambda a: a["mn"] <= a["l"] <= a["r"] <= a["mx"]
                match = lambda a: INspec((a["l"], a["r"]), a["p"])
            m = Model(syms, constraint=cons)
            construct = "IntervalTree.%s.early[%s]" % (fname, "ALL" if kind_ret.startswith("WRONGCOUNT") else kind_ret)
            if kind_ret == "EMPTY":
                ok, wit, st_ = m.compare(lambda a: not gfn(a), match, mode="implies")
                oracle = "guard => no stored row (mn <= l <= r <= mx) matches the query"
            elif kind_ret == "ALL":
                ok, wit, st_ = m.compare(lambda a: match(a), gfn, mode="implies")
                oracle = "guard => every stored row (mn <= l <= r <= mx) matches the query"
            elif kind_ret.startswith("WRONGCOUNT"):
                ctx.ob(construct, False, "if %s: return %s" % (norm(gexpr), norm(ret.value)),
                       "`all indices` must be range(number of stored intervals); %s" % kind_ret[11:], node=st, func=f)
                continue
            else:
                raise AnalysisError("early return value %s of %s is neither empty nor provably all indices" % (
                    norm(ret.value), fname))
            ctx.models.append(dict(st_, rule="C03.early", exhaustive=True))
            ctx.ob(construct, ok, "if %s: return %s" % (norm(gexpr), norm(ret.value)), oracle,
                   node=st, func=f, witness=wit)
        return n

    def _return_kind(self, v):
        if isinstance(v, (ast.List, ast.Tuple)) and not v.elts:
            return "EMPTY"
        if isinstance(v, ast.Call) and dotted(v.func) == "list" and len(v.args) == 1 and not v.args[0:][0:0]:
            inner = v.args[0]
            if isinstance(inner, ast.Call) and dotted(inner.func) == "range" and len(inner.args) == 1:
                n = inner.args[0]
                if self._is_row_count(n):
                    return "ALL"
                why = self._wrong_count(n)
                if why:
                    return "WRONGCOUNT:" + why
        if isinstance(v, ast.Call) and dotted(v.func) in ("np.arange", "numpy.arange") and len(v.args) == 1 \
                and self._is_row_count(v.args[0]):
            return "ALL"
        return "OTHER"

    def _wrong_count(self, n):
        """n is self.X assigned in __init__ from something that is recognisably NOT the row count"""
        if not (isinstance(n, ast.Attribute) and isinstance(n.value, ast.Name) and n.value.id == "self"):
            return None
        P = self.f_init.params[1]
        flow = Flow(self.f_init)
        for st in walk_no_nested(self.f_init.node):
            if isinstance(st, ast.Assign) and len(st.targets) == 1 and dotted(st.targets[0]) == "self." + n.attr:
                v = norm(flow.resolve(st.value, at=st, stop=(P,)))
                if v in ("%s.size" % P, "np.size(%s)" % P, "%s.shape[1]" % P, "len(%s[0])" % P, "%s.shape[0] * 2" % P):
                    return "self.%s = %s counts end points / columns, not intervals" % (n.attr, v)
        return None

    def _is_row_count(self, n):
        """n is `self.X` with X assigned in __init__ from the row count of the interval array."""
        if not (isinstance(n, ast.Attribute) and isinstance(n.value, ast.Name) and n.value.id == "self"):
            return False
        P = self.f_init.params[1]
        flow = Flow(self.f_init)
        for st in walk_no_nested(self.f_init.node):
            if isinstance(st, ast.Assign) and len(st.targets) == 1 and isinstance(st.targets[0], ast.Attribute) \
                    and st.targets[0].attr == n.attr and dotted(st.targets[0]) == "self." + n.attr:
                v = norm(flow.resolve(st.value, at=st, stop=(P,)))
                if v in ("%s.shape[0]" % P, "len(%s)" % P):
                    return True
        return False

    def extent_attrs(self):
        """(attribute used as lower extent, attribute used as upper extent): the roles are read from
        the point-query guard `interval_contains((self.<lo>, self.<hi>), point)`."""
        g = self.ctx.func(TREES, "IntervalTree._query_point")
        for c in calls_in(g.node, "interval_contains"):
            a = c.args[0] if c.args else None
            if isinstance(a, ast.Tuple) and len(a.elts) == 2 and all(
                    isinstance(e, ast.Attribute) and isinstance(e.value, ast.Name) and e.value.id == "self" for e in a.elts):
                return a.elts[0].attr, a.elts[1].attr
        # spelled out as comparisons: the roles are the ones under which the guard is a sound "outside" test
        flag = g.params[3] if len(g.params) > 3 else None
        from ..flow import guard_chain
        gflow = Flow(g)
        for ret in sorted([x for x in walk_no_nested(g.node) if isinstance(x, ast.Return)], key=lambda x: x.lineno):
            chain = guard_chain(ret)
            if not chain:
                break
            guard = []
            for t_, pol_ in chain:
                t_ = gflow.resolve(t_, at=t_, stop=(g.params[1], g.params[2]))
                if pol_:
                    guard.extend(cj for cj in conjuncts(t_) if not (isinstance(cj, ast.Name) and cj.id == flag))
                else:
                    guard.append(ast.UnaryOp(op=ast.Not(), operand=t_))
            attrs = []
            for cj in guard:
                for n in ast.walk(cj):
                    if isinstance(n, ast.Attribute) and isinstance(n.value, ast.Name) and n.value.id == "self" and n.attr not in attrs \
                            and not (isinstance(parent(n), ast.Call) and parent(n).func is n) and n.attr not in ("root", "size"):
                        attrs.append(n.attr)
            if len(attrs) == 2 and guard:
                gexpr = ast.BoolOp(op=ast.And(), values=guard) if len(guard) > 1 else guard[0]
                sound = []
                for lo, hi in ((attrs[0], attrs[1]), (attrs[1], attrs[0])):
                    m = Model(["mn", "mx", "p"], constraint=lambda a: a["mn"] <= a["mx"])
                    ok, _, _ = m.compare(lambda a: bool(Interp({"self." + lo: a["mn"], "self." + hi: a["mx"], g.params[1]: a["p"]},
                                                                {"interval_contains": self.IN, "interval_overlaps": self.OV}).ev(gexpr)),
                                         lambda a: not (a["mn"] <= a["p"] <= a["mx"]), mode="implies")
                    if ok:
                        sound.append((lo, hi))
                if len(sound) == 1:
                    return sound[0]
                return attrs[0], attrs[1]
            if not attrs:
                continue            # an early return that does not look at the extent (e.g. the empty tree)
            break
        raise AnalysisError("_query_point: guard interval_contains((self.lo, self.hi), point) not found")

    # -- C03.extent ------------------------------------------------------------------
    def rule_extent(self):
        ctx = self.ctx
        ctx.rule("C03.extent", "T6", "the extent used by the early returns is the global min / max over all end points")
        f = self.f_init
        P = f.params[1]
        used = set()
        for fname in ("_query", "_query_point"):
            g = ctx.func(TREES, "IntervalTree." + fname)
            for n in walk_no_nested(g.node):
                if isinstance(n, ast.Attribute) and isinstance(n.value, ast.Name) and n.value.id == "self" \
                        and isinstance(n.ctx, ast.Load) and not isinstance(parent(n), ast.Call) and n.attr not in ("root", "size"):
                    used.add(n.attr)
                elif isinstance(n, ast.Attribute) and isinstance(n.value, ast.Name) and n.value.id == "self" \
                        and isinstance(parent(n), ast.Call) and parent(n).func is not n and n.attr not in ("root", "size"):
                    used.add(n.attr)
        flow = Flow(f)
        lo, hi = self.extent_attrs()
        want = {lo: "min", hi: "max"}
        for attr in sorted(set(used) | {lo, hi}):
            val = None
            for st in flow.stmts:
                if isinstance(st, ast.Assign) and len(st.targets) == 1 and dotted(st.targets[0]) == "self." + attr:
                    if isinstance(st.value, ast.Constant) and st.value.value is None:
                        continue        # the empty tree has no extent
                    val = (st, flow.resolve(st.value, at=st))
            if val is None:
                if attr in want:
                    ctx.ob("IntervalTree.__init__[self.%s]" % attr, False, "self.%s is never assigned in __init__" % attr, "global %s" % want[attr], node=f.node, func=f)
                continue
            st, v = val
            k = _minmax_of(v, P) or _sorted_corner(v)
            if k is None:
                raise AnalysisError("extent attribute self.%s = %s is outside the recognised forms" % (attr, norm(st.value)))
            ctx.ob("IntervalTree.__init__[self.%s]" % attr, k == want.get(attr, k) and k in ("min", "max"),
                   "self.%s = %s%s" % (attr, norm(st.value), "" if k in ("min", "max") else "  [%s]" % k),
                   "the global %s over all end points (used as the %s extent by the early returns)" % (
                       {"min": "minimum", "max": "maximum"}.get(want.get(attr), "min/max"), "lower" if want.get(attr) == "min" else "upper"),
                   node=st, func=f)

    # -- C03.rows --------------------------------------------------------------------
    def rule_rows(self):
        ctx = self.ctx
        ctx.rule("C03.rows", "T6", "the array handed to _build_tree is a row permutation of [intervals | index column]")
        f = self.f_init
        flow = Flow(f)
        P = f.params[1]
        calls = calls_in(f.node, "_build_tree")
        if not calls:
            raise AnalysisError("__init__ does not call _build_tree")
        call = calls[0]
        arg = flow.resolve(call.args[0], at=call)
        kind, base, why = _row_perm(arg)
        ctx.ob("IntervalTree.__init__._build_tree(arg)", kind == "rows",
               "_build_tree(%s)" % norm(call.args[0]) + ("" if kind == "rows" else "  [%s]" % why),
               "row indexing / row permutation of the indexed array only (no column-wise np.sort)",
               node=call, func=f)
        # every row index applied on the way is a permutation of ALL rows (argsort / lexsort / a full slice): an index
        # obtained from unique() keeps one row per distinct key - intervals sharing a lower bound would vanish
        cur_ = arg
        verdicts = []
        while isinstance(cur_, (ast.Subscript, ast.Call)):
            if isinstance(cur_, ast.Call):
                last_ = (dotted(cur_.func) or "").split(".")[-1]
                if last_ in ("asarray", "array", "ascontiguousarray") and cur_.args:
                    cur_ = cur_.args[0]
                    continue
                if last_ == "take" and isinstance(cur_.func, ast.Attribute) and cur_.args:
                    idx_, cur_ = cur_.args[0], cur_.func.value
                else:
                    break
            else:
                idx_, cur_ = cur_.slice, cur_.value
            if isinstance(idx_, ast.Tuple):
                break
            ri = flow.resolve(idx_, at=call, depth=3, stop=(P,)) if not isinstance(idx_, ast.Slice) else idx_
            if isinstance(ri, ast.Slice):
                full = ri.lower is None and ri.upper is None and (ri.step is None or norm(ri.step) in ("1", "-1"))
                verdicts.append((full, "slice %s" % norm(idx_)))
                if not full:
                    pass
                continue
            uniq = [c_ for c_ in ast.walk(ri) if isinstance(c_, ast.Call) and (dotted(c_.func) or "").split(".")[-1] == "unique"]
            if uniq:
                verdicts.append((False, "%s keeps one row per distinct key" % norm(ri)[:70]))
                continue
            if isinstance(ri, ast.Call) and (dotted(ri.func) or "").split(".")[-1] in ("argsort", "lexsort") \
                    or (isinstance(ri, ast.Call) and isinstance(ri.func, ast.Attribute) and ri.func.attr == "argsort"):
                verdicts.append((True, norm(ri)[:70]))
                continue
            if isinstance(ri, ast.Compare) or any(isinstance(n_, ast.Compare) for n_ in ast.walk(ri)):
                verdicts.append((False, "boolean mask %s drops rows" % norm(ri)[:60]))
                continue
            raise AnalysisError("__init__: row index %s of the array handed to _build_tree is not understood" % norm(ri)[:80])
        if kind == "rows":
            ctx.ob("IntervalTree.__init__.row_order", all(v_ for v_, _ in verdicts), "row indices applied: %s" % ([w_ for _, w_ in verdicts] or "none"),
                   "a permutation of all rows (argsort / lexsort / full slice): every stored interval - also one sharing its lower bound with another - reaches the tree",
                   node=call, func=f)
        # list input is converted before .shape / indexing is used
        conv = [st for st in f.body if (isinstance(st, ast.If) and norm(st.test) == "not isinstance(%s, np.ndarray)" % P and len(st.body) == 1
                                        and norm(st.body[0]) == "%s = np.asarray(%s)" % (P, P))
                or (isinstance(st, ast.Assign) and norm(st) in ("%s = np.asarray(%s)" % (P, P), "%s = np.array(%s)" % (P, P)))]
        ctx.ob("IntervalTree.__init__.input", bool(conv), "%s" % ([norm(c)[:70] for c in conv] or "no conversion"),
               "anything that is not an ndarray (lists of pairs, as FileSet passes them) is converted with np.asarray first", node=conv[0] if conv else f.node, func=f)
        # no in-place sort of any array in __init__
        bad = [c for c in calls_in(f.node) if isinstance(c.func, ast.Attribute) and c.func.attr == "sort"
               and dotted(c.func.value) not in ("np", "numpy")]
        ctx.ob("IntervalTree.__init__.inplace_sort", not bad,
               "in-place .sort() calls: %s" % [norm(b) for b in bad], "none (sorts each column on its own)",
               node=bad[0] if bad else f.node, func=f)
        # the base is hstack([intervals, indices]) with the arange column last
        okb = False
        txt = norm(base) if base is not None else None
        if isinstance(base, ast.Call) and (dotted(base.func) or "").split(".")[-1] in ("hstack", "column_stack", "concatenate") \
                and base.args and isinstance(base.args[0], (ast.List, ast.Tuple)) and len(base.args[0].elts) == 2:
            first, last = base.args[0].elts
            okb = any(isinstance(n, ast.Name) and n.id == P for n in ast.walk(first)) \
                and any((dotted(c.func) or "").split(".")[-1] == "arange" for c in calls_in(last)) \
                and not any((dotted(c.func) or "").split(".")[-1] == "arange" for c in calls_in(first))
            if okb:
                ar = [c for c in calls_in(last) if (dotted(c.func) or "").split(".")[-1] == "arange"][0]
                okb = len(ar.args) == 1 and norm(ar.args[0]) in ("%s.shape[0]" % P, "len(%s)" % P)
                # ... shaped into ONE column of that many rows
                rs = parent(parent(ar)) if isinstance(parent(ar), ast.Attribute) and parent(ar).attr == "reshape" else None
                if isinstance(rs, ast.Call):
                    shp = rs.args[0].elts if len(rs.args) == 1 and isinstance(rs.args[0], (ast.Tuple, ast.List)) else rs.args
                    okb = okb and len(shp) == 2 and norm(shp[0]) in ("%s.shape[0]" % P, "len(%s)" % P, "-1") and norm(shp[1]) == "1"
        ctx.ob("IntervalTree.__init__.index_column", okb, "indexed array = %s" % txt,
               "[intervals | arange(number of rows)] with the index column last (read back as column 2 by the scans)",
               node=call, func=f)

    # -- C03.empty -------------------------------------------------------------------
    def rule_empty(self):
        ctx = self.ctx
        ctx.rule("C03.empty", "lint", "emptiness of a row set is tested by size, not by .any() (rows of zeros are data)")
        f = self.f_build
        P = f.params[1]
        for st in f.body:
            if isinstance(st, ast.If) and any(isinstance(s, ast.Return) for s in st.body):
                k = emptiness_test_kind(st.test)
                ctx.ob("IntervalTree._build_tree.empty_test", k == "size", "if %s: return ..." % norm(st.test),
                       "a size test (len / .size / .shape[0]); .any() is False for the legitimate row [0, 0, 0]",
                       node=st, func=f)
                if k is None:
                    raise AnalysisError("unrecognised emptiness test in _build_tree: %s" % norm(st.test))
                break
        else:
            raise AnalysisError("_build_tree has no base case")
        # the empty SET of intervals: the reductions over the whole array (np.min / np.max) raise on size 0 - a size guard has to
        # come first, and the queries have to cope with the missing root
        fi = self.f_init
        iflow = Flow(fi)
        P0 = fi.params[1]
        reds = [c_ for c_ in calls_in(fi.node, ("min", "max", "amin", "amax")) if c_.args and str(norm(c_.args[0])) == P0 or
                (isinstance(c_.func, ast.Attribute) and str(norm(c_.func.value)) == P0 and c_.func.attr in ("min", "max"))]
        guards = [st for st in iflow.stmts if isinstance(st, ast.If) and emptiness_test_kind(st.test, about=P0) == "size"]
        # under "the array is empty" no reduction over it is reached (guard clause that returns, or if / else)
        empty_asm = {}
        for sz_ in ("%s.size" % P0, "len(%s)" % P0, "%s.shape[0]" % P0):
            empty_asm.update({"not %s" % sz_: True, sz_: False, "%s == 0" % sz_: True, "0 == %s" % sz_: True, "%s > 0" % sz_: False, "%s != 0" % sz_: False,
                              "%s >= 1" % sz_: False, "%s < 1" % sz_: True})
        okg = True
        if reds:
            okg = bool(guards) and all(not iflow.live_under(enclosing_stmt(c_), empty_asm) for c_ in reds)
        root_none = True
        for fname in ("_query", "_query_point"):
            qf = ctx.func(TREES, "IntervalTree." + fname)
            nodep = qf.params[2]
            first = qf.body[0] if qf.body else None
            root_none = root_none and isinstance(first, ast.If) and str(norm(first.test)) in ("%s is None" % nodep, "not %s" % nodep) \
                and any(isinstance(x, ast.Return) for x in first.body)
        ctx.ob("IntervalTree.__init__.empty_set", okg and (root_none or not guards), "size guard before %s: %s; queries accept a missing root: %s" % (
            [str(norm(c_))[:30] for c_ in reds], [str(norm(g_.test)) for g_ in guards] or "none", root_none),
            "IntervalTree([]) is the empty set of intervals: it can be built (np.min of a zero-size array raises) and every query answers with nothing",
            node=guards[0] if guards else fi.node, func=fi, witness=None if okg and (root_none or not guards) else {"IntervalTree([])": "ValueError: zero-size array to reduction operation minimum"})

    # -- C03.member / api --------------------------------------------------------------
    def rule_member(self):
        ctx = self.ctx
        ctx.rule("C03.member", "T1", "__contains__ dispatches sequences to the interval query and scalars to the point query")
        f = ctx.func(TREES, "IntervalTree.__contains__")
        item = f.params[1]
        flow = Flow(f)
        # kinds of key: a tuple / list, an array with at least one dimension (a row of the array handed to query()), a 0-d array, a scalar
        SEQ = ["isinstance(%s, (tuple, list))" % item, "isinstance(%s, (list, tuple))" % item]
        ARR = ["isinstance(%s, np.ndarray)" % item, "isinstance(%s, numpy.ndarray)" % item]
        DIM = ["%s.ndim" % item, "%s.ndim > 0" % item, "%s.ndim >= 1" % item, "np.ndim(%s)" % item, "np.ndim(%s) > 0" % item, "%s.ndim != 0" % item]
        for extra in ("isinstance(%s, (tuple, list, np.ndarray))", "isinstance(%s, (list, tuple, np.ndarray))"):
            SEQ_ARR = extra % item
        kinds = {"sequence": (True, False, False), "array": (False, True, True), "0-d array": (False, True, False), "scalar": (False, False, False)}
        seen = {}
        for kname, (sq, ar, dm) in kinds.items():
            assume = {}
            assume.update({t_: sq for t_ in SEQ})
            assume.update({t_: ar for t_ in ARR})
            if ar:
                assume.update({t_: dm for t_ in DIM})
            for extra in ("isinstance(%s, (tuple, list, np.ndarray))", "isinstance(%s, (list, tuple, np.ndarray))"):
                assume[extra % item] = sq or ar
            rets = [r_ for r_ in flow.stmts if isinstance(r_, ast.Return) and r_.value is not None and flow.live_under(r_, assume)]
            vals = []
            for r_ in rets:
                val = flow.resolve_under(r_.value, assume, at=r_, depth=6, stop=(item,))
                vals.append((r_, val))
            seen[kname] = vals
        fact = "; ".join("%s key: %s" % (k_, [norm(v_)[:60] for _, v_ in seen[k_]]) for k_ in kinds)
        if not any("isinstance" in norm(n_) for n_ in walk_no_nested(f.node) if isinstance(n_, ast.Call)):
            raise AnalysisError("__contains__: no isinstance dispatch on the key")
        ok = True
        for kname, priv in (("sequence", "_query"), ("array", "_query"), ("0-d array", "_query_point"), ("scalar", "_query_point")):
            if len(seen[kname]) != 1:
                raise AnalysisError("__contains__: %d returns on the path for a %s key" % (len(seen[kname]), kname))
            val = seen[kname][0][1]
            cs = [c for c in ast.walk(val) if isinstance(c, ast.Call) and norm(c.func) in ("self._query", "self._query_point")]
            if len(cs) != 1:
                raise AnalysisError("__contains__: the returned value %s is not built from one private query" % norm(val)[:60])
            c = cs[0]
            if norm(c.func) != "self." + priv:
                ok = False
            # the hit list becomes a truth value by emptiness, not by its values (index 0 is falsy)
            t_ = norm(val).replace(" ", "")
            cc = norm(c).replace(" ", "")
            if t_ not in ("bool(%s)" % cc, "0<len(%s)" % cc, "len(%s)>0" % cc, "len(%s)!=0" % cc, "bool(len(%s))" % cc, "%s!=[]" % cc, "not(not%s)" % cc):
                if any(w_ in t_ for w_ in ("any(", "all(", "sum(", "max(", "min(")):
                    ok = False
                    fact += " [hit list reduced by its VALUES]"
                else:
                    raise AnalysisError("__contains__: conversion %s of the hit list to a truth value not recognised" % t_[:60])
            g = ctx.func(TREES, "IntervalTree." + priv)
            b = _bind_call(c, g)
            ok = ok and norm(b.get(g.params[1])) == item and norm(b.get(g.params[2])) == "self.root"
            fl = b.get(g.params[3]) if len(g.params) > 3 else None
            ok = ok and isinstance(fl, ast.Constant) and fl.value is True
        ctx.ob("IntervalTree.__contains__", ok, fact,
               "tuple / list / array with a dimension (an interval, e.g. a row of the array given to query) -> _query(item, self.root, check_extreme=True); "
               "scalar / 0-d array -> _query_point(item, self.root, check_extreme=True)",
               node=f.node, func=f)

    def rule_api(self):
        ctx = self.ctx
        ctx.rule("C03.api", "T6", "query / query_points map the private query over their argument, starting at the root")
        for pub, priv in (("query", "_query"), ("query_points", "_query_point")):
            f = ctx.func(TREES, "IntervalTree." + pub)
            g = ctx.func(TREES, "IntervalTree." + priv)
            arg = f.params[1]
            ok = False
            fact = "?"
            rets = [s for s in f.body if isinstance(s, ast.Return)]
            if len(rets) == 1 and isinstance(rets[0].value, ast.ListComp) and len(rets[0].value.generators) == 1:
                comp = rets[0].value
                gen = comp.generators[0]
                fact = norm(comp)
                cs = calls_in(comp.elt, priv)
                if len(cs) == 1 and comp.elt is cs[0] and not gen.ifs and norm(gen.iter) == arg and isinstance(gen.target, ast.Name):
                    b = _bind_call(cs[0], g)
                    ok = norm(b.get(g.params[1])) == gen.target.id and norm(b.get(g.params[2])) == "self.root"
            ctx.ob("IntervalTree." + pub, ok, fact,
                   "[self.%s(x, self.root, ...) for x in %s] - one result list per query, in order" % (priv, arg),
                   node=f.node, func=f)


# ---------------------------------------------------------------------------------
def _ret_text(func):
    for st in func.body:
        if isinstance(st, ast.Return):
            return norm(st.value)
    return "?"


def _is_not_none(e):
    if isinstance(e, ast.Compare) and len(e.ops) == 1 and isinstance(e.ops[0], ast.IsNot) \
            and isinstance(e.comparators[0], ast.Constant) and e.comparators[0].value is None:
        return e.left
    return None


def _bind_call(call, func):
    """Bind the arguments of a method call to the parameter names of func (self skipped)."""
    params = func.params
    if params and params[0] in ("self", "cls") and not func.is_static:
        params = params[1:]
    out = {}
    for i, a in enumerate(call.args):
        if i < len(params):
            out[params[i]] = a
    for k in call.keywords:
        if k.arg:
            out[k.arg] = k.value
    full = func.params
    for name, d in func.defaults().items():
        out.setdefault(name, d)
    return out


def _row_selection(val, P):
    """`P[mask]` -> mask expression; `P[a:b]` -> 'SLICE'; else None."""
    if isinstance(val, ast.Subscript) and isinstance(val.value, ast.Name) and val.value.id == P:
        s = val.slice
        if isinstance(s, ast.Slice):
            return "SLICE"
        if isinstance(s, ast.Tuple):
            return None
        return s
    return None


def _contains_scan(st, nodep):
    for n in walk_no_nested(st):
        if isinstance(n, (ast.ListComp, ast.GeneratorExp, ast.For)):
            return True
    return False


def _minmax_of(v, P):
    """np.min(P) / P.min() / min over the whole array -> 'min'|'max'|None."""
    if isinstance(v, ast.Call):
        d = dotted(v.func) or ""
        last = d.split(".")[-1]
        if last in ("min", "amin", "nanmin", "max", "amax", "nanmax"):
            kind = "min" if "min" in last else "max"
            if v.keywords:
                return None
            if isinstance(v.func, ast.Attribute) and norm(v.func.value) == P and not v.args:
                return kind
            if len(v.args) == 1 and _whole_array(v.args[0], P):
                return kind
    return None


def _sorted_corner(v):
    """X[0, 0] / X[-1, 1] of an array row-sorted by one column:
    first row's left end of rows sorted by column 0 is the global minimum (l <= r);
    last row's right end is the global maximum only if sorted by column 1."""
    if not (isinstance(v, ast.Subscript) and isinstance(v.slice, ast.Tuple) and len(v.slice.elts) == 2):
        return None
    try:
        from ..core import const_value
        i, j = const_value(v.slice.elts[0]), const_value(v.slice.elts[1])
    except AnalysisError:
        return None
    base = v.value
    if not (isinstance(base, ast.Subscript) and not isinstance(base.slice, (ast.Tuple, ast.Slice))):
        return None
    srt = [c for c in calls_in(base.slice, "argsort")]
    if len(srt) != 1 or not srt[0].args:
        return None
    key = srt[0].args[0]
    if not (isinstance(key, ast.Subscript) and isinstance(key.slice, ast.Tuple) and len(key.slice.elts) == 2
            and isinstance(key.slice.elts[1], ast.Constant)):
        return None
    kcol = key.slice.elts[1].value
    if (i, j) == (0, 0) and kcol == 0:
        return "min"
    if (i, j) == (-1, 1) and kcol == 1:
        return "max"
    if (i, j) == (-1, 1) and kcol == 0:
        return "right end of the row with the largest LEFT end - not the largest right end when intervals nest"
    if (i, j) == (0, 0) and kcol == 1:
        return "left end of the row with the smallest RIGHT end - not the smallest left end when intervals nest"
    return None


def _whole_array(e, P):
    if isinstance(e, ast.Name) and e.id == P:
        return True
    if isinstance(e, ast.Call) and (dotted(e.func) or "").split(".")[-1] in ("asarray", "array") and e.args:
        return _whole_array(e.args[0], P)
    return False


def _row_perm(e):
    """Classify the (resolved) argument of _build_tree.
    returns (kind, base, why): kind 'rows' if e is base or base[row-index] (possibly repeated)."""
    cur = e
    while True:
        if isinstance(cur, ast.Subscript):
            s = cur.slice
            if isinstance(s, ast.Tuple):
                return "other", None, "column selection %s" % norm(s)
            cur = cur.value
            continue
        if isinstance(cur, ast.Call):
            d = (dotted(cur.func) or "")
            last = d.split(".")[-1]
            if last in ("sort", "sorted", "msort", "sort_complex"):
                inner = _row_perm(cur.args[0])[1] if cur.args else None
                return "sorted", inner, "%s sorts every column independently" % norm(cur.func)
            if last in ("hstack", "column_stack", "concatenate"):
                return "rows", cur, ""
            if last in ("asarray", "array", "ascontiguousarray") and cur.args:
                cur = cur.args[0]
                continue
            if last in ("take",) and isinstance(cur.func, ast.Attribute):
                cur = cur.func.value
                continue
            return "other", None, "unrecognised call %s" % d
        if isinstance(cur, ast.Name):
            return "other", None, "unresolved name %s" % cur.id
        return "other", None, "unrecognised expression"


# ---------------------------------------------------------------------------------
def rule_match(ctx):
    """C03.match - FileSet.match"""
    ctx.rule("C03.match", "T4+T6", "match(): period and secondaries widened by max_interval with the right signs; "
             "tree built from the secondaries, queried with the primaries; indices address the same lists")
    from .C16 import ob_time_resolution
    ob_time_resolution(ctx)
    f = ctx.func(FILESET, "FileSet.match")
    flow = Flow(f)
    p_other, p_start, p_end, p_mi = f.params[1], f.params[2], f.params[3], f.params[4]
    # the two find() calls
    finds = calls_in(f.node, "find")
    prim = [c for c in finds if norm(c.func.value) == "self"]
    sec = [c for c in finds if norm(c.func.value) == p_other]
    if len(prim) != 1 or len(sec) != 1:
        raise AnalysisError("match(): expected one self.find and one %s.find" % p_other)

    def list_name(call):
        st = enclosing_stmt(call)
        if isinstance(st, ast.Assign) and isinstance(st.targets[0], ast.Name):
            return st.targets[0].id
        raise AnalysisError("find() result is not assigned to a name")
    L1, L2 = list_name(prim[0]), list_name(sec[0])

    # widening of the search period: start -> start - mi, end -> end + mi, saturating at the ends of the time axis
    # (None stands for the end of the axis, like in find()).  Decided on a small bounded axis [0, N]: datetimes are
    # points whose arithmetic raises outside the axis, max_interval is a difference.
    N = 4

    class _Crash(Exception):
        pass

    class DT:
        def __init__(self, v):
            self.v = v

        def _mk(self, r):
            if not 0 <= r <= N:
                raise _Crash("OverflowError: date value out of range")
            return DT(r)

        def __sub__(self, o):
            return self.v - o.v if isinstance(o, DT) else self._mk(self.v - o)

        def __add__(self, o):
            if isinstance(o, DT):
                raise _Crash("TypeError: datetime + datetime")
            return self._mk(self.v + o)
        __radd__ = __add__

        def __lt__(self, o):
            return self.v < o.v

        def __le__(self, o):
            return self.v <= o.v

        def __gt__(self, o):
            return self.v > o.v

        def __ge__(self, o):
            return self.v >= o.v

        def __eq__(self, o):
            return isinstance(o, DT) and self.v == o.v

        def __hash__(self):
            return hash(self.v)

    def _to_dt(x):
        if x is None:
            raise _Crash("to_datetime(None) is not a datetime")
        return x
    given, absent = {"%s is not None" % p_mi: True, "%s is None" % p_mi: False}, {"%s is not None" % p_mi: False, "%s is None" % p_mi: True}
    # a fileset without any file in the period has no matches: find() must not be left at its default no_files_error=True (NoFilesError
    # instead of "nothing yielded"), and the tree is not built / queried with nothing
    nfe = [({k_.arg: str(norm(k_.value)) for k_ in c_.keywords}.get("no_files_error")) for c_ in (prim[0], sec[0])]
    if any(v_ not in (None, "False", "True") for v_ in nfe):
        raise AnalysisError("match(): no_files_error=%s handed to find() not understood" % nfe)
    quiet = all(v_ == "False" for v_ in nfe)
    ctx.ob("FileSet.match.no_files", quiet, "no_files_error handed to the two find() calls: %s" % nfe,
           "no_files_error=False for both: a period that lies in a gap of one fileset yields no match instead of raising NoFilesError", node=prim[0], func=f,
           witness=None if quiet else {"B": "files 00h, 01h, 04h, 05h", "A.match(B, '02:10', '02:50', max_interval=300)": "NoFilesError", "expected": "nothing yielded"})
    # time order: the primaries are yielded in the order of find(), the partners as sorted tree indices - positions in the list of the
    # secondaries, which are in time order only if find() sorted them (its default)
    srt = [({k_.arg: str(norm(k_.value)) for k_ in c_.keywords}.get("sort")) for c_ in (prim[0], sec[0])]
    if any(v_ not in (None, "False", "True") for v_ in srt):
        raise AnalysisError("match(): sort=%s handed to find() not understood" % srt)
    ordered = all(v_ in (None, "True") for v_ in srt)
    ctx.ob("FileSet.match.time_order", ordered, "sort handed to the two find() calls: %s" % srt,
           "both file lists come from find() in time order (sort left at its default): `sorted(overlapping indices)` orders positions in that list, "
           "an unsorted list gives the partners in directory-listing order", node=sec[0], func=f,
           witness=None if ordered else {"secondaries": "{platform}_{year}{month}{day}... of several platforms", "partners": "in name order, not in time order"})
    for c, who in ((prim[0], "primary"), (sec[0], "secondary")):
        bound = {}
        for i_, a_ in enumerate(c.args[:2]):
            bound[("start", "end")[i_]] = a_
        for k_ in c.keywords:
            if k_.arg in ("start", "end"):
                bound[k_.arg] = k_.value
        if set(bound) != {"start", "end"}:
            raise AnalysisError("match(): %s.find(...) is not handed a period" % who)
        plain = [str(norm(flow.resolve_under(bound[k_], absent, at=c, stop=(p_mi,)))) for k_ in ("start", "end")]
        wide = [flow.resolve_under(bound[k_], given, at=c, stop=(p_mi,)) for k_ in ("start", "end")]
        wit = None
        ncases = 0
        for S, E, M in itertools.product([None] + list(range(N + 1)), [None] + list(range(N + 1)), range(N + 3)):
            S0, E0 = (0 if S is None else S), (N if E is None else E)
            if S0 > E0:
                continue
            ncases += 1
            env = {"datetime.min": DT(0), "datetime.max": DT(N), p_start: None if S is None else DT(S), p_end: None if E is None else DT(E), p_mi: M}
            try:
                got = [Interp(env, {"to_datetime": _to_dt}).ev(w_) for w_ in wide]
                got = [g_.v if isinstance(g_, DT) else g_ for g_ in got]
            except _Crash as e_:
                got = str(e_)
            except TypeError as e_:
                got = "TypeError: %s" % e_
            if got != [max(S0 - M, 0), min(E0 + M, N)]:
                wit = {"start": S, "end": E, "max_interval": M, "time axis": [0, N], "find() period": got, "expected": [max(S0 - M, 0), min(E0 + M, N)]}
                break
        ctx.models.append({"rule": "C03.match", "cases": ncases, "domain": "bounded time axis [0, %d], start/end None or on the axis, max_interval 0..%d" % (N, N + 2), "exhaustive": True})
        ctx.ob("FileSet.match.period[%s]" % who, wit is None and plain == [p_start, p_end],
               "with max_interval: find(%s, %s); without: find(%s, %s)" % (norm(wide[0]), norm(wide[1]), plain[0], plain[1]),
               "find(start - max_interval, end + max_interval) clipped to the time axis (None = its ends) when max_interval is given, else find(start, end)",
               node=c, func=f, witness=wit)

    # max_interval is normalised to a timedelta before it is used (numbers are seconds)
    conv = [st for st in flow.stmts if isinstance(st, ast.Assign) and norm(st.targets[0]) == p_mi and calls_in(st.value, "to_timedelta")]
    okcv = False
    if conv:
        cv = calls_in(conv[0].value, "to_timedelta")[0]
        kwv = {k.arg: norm(k.value).replace('"', "'") for k in cv.keywords}
        okcv = bool(cv.args) and norm(cv.args[0]) == p_mi and kwv.get("numbers_as", "'seconds'") == "'seconds'"
        uses = [n for n in walk_no_nested(f.node) if isinstance(n, ast.Name) and n.id == p_mi and isinstance(n.ctx, ast.Load)
                and not any(n is x for x in ast.walk(conv[0])) and not (isinstance(parent(n), ast.Compare) and "None" in norm(parent(n)))]
        okcv = okcv and all(conv[0] in flow.defs(p_mi, u) for u in uses)      # (the other reaching definition is the parameter on the infeasible path around the first `if`)
    ctx.ob("FileSet.match.max_interval", okcv, "%s" % (norm(conv[0]) if conv else "no to_timedelta conversion"),
           "max_interval = to_timedelta(max_interval, numbers_as='seconds') reaches every arithmetic use", node=conv[0] if conv else f.node, func=f)
    # widening of the secondary coverages
    aug = [st for st in flow.stmts if isinstance(st, ast.AugAssign) and isinstance(st.target, ast.Subscript)]
    t2 = None
    shifts = {}
    for st in aug:
        tgt = st.target
        if isinstance(tgt.slice, ast.Tuple) and len(tgt.slice.elts) == 2 and isinstance(tgt.slice.elts[1], ast.Constant):
            col = tgt.slice.elts[1].value
            shifts[col] = (st.op.__class__.__name__, norm(flow.resolve(st.value, at=st)), norm(tgt.value), st, st.value)
    if not shifts:
        # out of place: X = X + np.array([-k, k])  (broadcast over the rows: column 0 - k, column 1 + k)
        for st in flow.stmts:
            if isinstance(st, ast.Assign) and len(st.targets) == 1 and isinstance(st.targets[0], ast.Name) and isinstance(st.value, ast.BinOp) \
                    and isinstance(st.value.op, ast.Add):
                for arr_, vec_ in ((st.value.left, st.value.right), (st.value.right, st.value.left)):
                    vec_ = flow.resolve(vec_, at=st, depth=1) if isinstance(vec_, ast.Name) else vec_
                    if isinstance(vec_, ast.Call) and (dotted(vec_.func) or "").split(".")[-1] in ("array", "asarray") and vec_.args:
                        vec_ = vec_.args[0]
                    if isinstance(vec_, (ast.List, ast.Tuple)) and len(vec_.elts) == 1 and isinstance(vec_.elts[0], (ast.List, ast.Tuple)):
                        vec_ = vec_.elts[0]
                    if isinstance(arr_, ast.Name) and arr_.id == st.targets[0].id and isinstance(vec_, (ast.List, ast.Tuple)) and len(vec_.elts) == 2 \
                            and isinstance(vec_.elts[0], ast.UnaryOp) and isinstance(vec_.elts[0].op, ast.USub):
                        k0, k1 = vec_.elts[0].operand, vec_.elts[1]
                        shifts[0] = ("Sub", norm(flow.resolve(k0, at=st)), arr_.id, st, k0)
                        shifts[1] = ("Add", norm(flow.resolve(k1, at=st)), arr_.id, st, k1)
    ok = set(shifts) == {0, 1} and shifts[0][0] == "Sub" and shifts[1][0] == "Add" and shifts[0][1] == shifts[1][1] \
        and shifts[0][2] == shifts[1][2]
    ctx.ob("FileSet.match.widen", ok, {k: v[:3] for k, v in shifts.items()},
           "column 0 -= k and column 1 += k with the same k on the same array",
           node=(shifts.get(0) or shifts.get(1) or (0, 0, 0, f.node, 0))[3], func=f)
    if ok:
        kexpr = shifts[0][4]
        kres = flow.resolve(kexpr, at=shifts[0][3])
        # k is the whole max_interval in the unit of the integer times (seconds): total_seconds()
        txt = str(norm(kres))
        # the unit of the integer times: the M8[<unit>] both time arrays are cast to
        units = []
        for c_ in calls_in(f.node, "astype"):
            if c_.args and isinstance(c_.args[0], ast.Constant) and isinstance(c_.args[0].value, str) and c_.args[0].value.startswith("M8["):
                units.append(c_.args[0].value[3:-1])
        if len(units) != 2:
            raise AnalysisError("match(): the casts of the two coverage arrays to M8[<unit>] were not found (%s)" % units)
        flat = txt.replace(" ", "")
        per_us = "//timedelta(microseconds=1)" in flat or "/timedelta(microseconds=1)" in flat
        whole_s = "total_seconds" in txt and ".seconds" not in txt.replace("total_seconds", "") and ".days" not in txt and ".microseconds" not in txt
        complete = p_mi in txt and (per_us or whole_s) and ".seconds" not in txt.replace("total_seconds", "").replace("microseconds=", "") and ".days" not in txt
        unit_ok = units[0] == units[1] and ((units[0] == "us" and per_us) or (units[0] == "s" and whole_s and not per_us))
        ctx.ob("FileSet.match.widen.amount", complete and unit_ok, "times in M8[%s] / M8[%s]; k = %s" % (units[0], units[1], txt),
               "the complete max_interval (days included) expressed in the unit of the integer times", node=shifts[0][3], func=f)
        ctx.ob("FileSet.match.resolution", units == ["us", "us"], "coverages compared as integers of M8[%s], M8[%s]" % tuple(units),
               "microseconds, the resolution of the files' datetime stamps: whole seconds move the end points of files with {millisecond} fields "
               "(disjoint files 0.0-0.4 s and 0.6-1.0 s were matched)", node=shifts[0][3], func=f,
               witness=None if units == ["us", "us"] else {"primary": "[0.0 s, 0.4 s]", "secondary": "[0.6 s, 1.0 s]", "matched": True})
        t2 = shifts[0][2]
        widened_under = None
        for a in [shifts[0][3]]:
            p = parent(a)
            if isinstance(p, ast.If):
                widened_under = norm(p.test)
        ctx.ob("FileSet.match.widen.guard", widened_under is not None and widened_under == "%s is not None" % p_mi,
               "widening guarded by: %s" % widened_under, "max_interval is not None", node=shifts[0][3], func=f)

    # tree built from the secondaries, queried with the primaries
    trees = calls_in(f.node, "IntervalTree")
    queries = calls_in(f.node, "query")
    if len(trees) != 1 or len(queries) != 1:
        raise AnalysisError("match(): expected one IntervalTree(...) and one .query(...)")
    pb = flow.prov(trees[0].args[0], at=trees[0])
    pq = flow.prov(queries[0].args[0], at=queries[0])
    nb = _names_in_prov(flow, trees[0].args[0], trees[0])
    nq = _names_in_prov(flow, queries[0].args[0], queries[0])
    ctx.ob("FileSet.match.tree.build", L2 in nb and L1 not in nb, "IntervalTree(%s) derives from %s" % (norm(trees[0].args[0]), sorted(nb & {L1, L2})),
           "the secondary file list (%s)" % L2, node=trees[0], func=f)
    ctx.ob("FileSet.match.tree.query", L1 in nq and L2 not in nq, ".query(%s) derives from %s" % (norm(queries[0].args[0]), sorted(nq & {L1, L2})),
           "the primary file list (%s)" % L1, node=queries[0], func=f)
    if t2 is not None:
        ctx.ob("FileSet.match.tree.widened", norm(trees[0].args[0]) == t2,
               "tree built from %s, widened array is %s" % (norm(trees[0].args[0]), t2),
               "the tree is built from the widened secondary coverages", node=trees[0], func=f)
        # the widening happens before the tree is built
        wnodes = flow.cfg.nodes(shifts[0][3]) + flow.cfg.nodes(shifts[1][3])
        tnode = flow.node_of(enclosing_stmt(trees[0]))
        after = flow.cfg.reach([tnode])
        ctx.ob("FileSet.match.tree.order", not (set(wnodes) & after), "widening statements reachable after the tree was built: %s" % bool(set(wnodes) & after),
               "the secondaries are widened before IntervalTree(...) copies them", node=trees[0], func=f)
    # result loop
    qst = enclosing_stmt(queries[0])
    if isinstance(qst, ast.Assign) and isinstance(qst.targets[0], ast.Name):
        resname = qst.targets[0].id
    elif isinstance(qst, ast.For) and any(n is queries[0] for n in ast.walk(qst.iter)):
        resname = str(norm(queries[0]))          # the results are walked where they are computed
    else:
        raise AnalysisError("match(): the result of tree.query is neither assigned to a name nor iterated directly")
    loops = [st for st in flow.stmts if isinstance(st, ast.For) and any((isinstance(n, ast.Name) and n.id == resname) or n is queries[0] for n in ast.walk(st.iter))]
    if len(loops) != 1:
        raise AnalysisError("match(): expected one loop over the results of tree.query")
    lp = loops[0]
    it = lp.iter
    pair = None       # (how the primary of this result is addressed, name of the result variable)
    if isinstance(it, ast.Call) and dotted(it.func) == "enumerate" and len(it.args) == 1 and norm(it.args[0]) == resname \
            and isinstance(lp.target, ast.Tuple) and len(lp.target.elts) == 2 and all(isinstance(e, ast.Name) for e in lp.target.elts):
        ivar, ovar = lp.target.elts[0].id, lp.target.elts[1].id
        pair = ({"%s[%s]" % (L1, ivar)}, ovar, "for %s, %s in enumerate(%s)" % (ivar, ovar, resname), lambda t: "%s[%s]" % (t, ivar))
    elif isinstance(it, ast.Call) and dotted(it.func) == "zip" and len(it.args) == 2 and isinstance(lp.target, ast.Tuple) and len(lp.target.elts) == 2 \
            and all(isinstance(e, ast.Name) for e in lp.target.elts):
        srcs = [norm(a_) for a_ in it.args]
        if resname not in srcs:
            raise AnalysisError("match(): zip loop does not iterate the query results directly")
        k = srcs.index(resname)
        pvar, ovar = lp.target.elts[1 - k].id, lp.target.elts[k].id
        other_src = srcs[1 - k]
        # zip(L, results): the primary variable is element i of L
        pair = ({pvar} if other_src == L1 else {"<element of %s>" % other_src}, ovar, "for ... in zip(%s)" % ", ".join(srcs),
                lambda t: pvar if other_src == t else "<element of %s>" % other_src)
    else:
        raise AnalysisError("match(): result loop is neither enumerate(results) nor zip(primaries, results)")
    okyp, ovar, how, _ = pair
    ok_res = True
    yields = [n for n in walk_no_nested(lp) if isinstance(n, ast.Yield)]
    if len(yields) != 1 or not isinstance(yields[0].value, ast.Tuple):
        raise AnalysisError("match(): expected a single `yield primary, matches`")
    y = yields[0]
    yp, ym = y.value.elts
    ctx.ob("FileSet.match.yield.primary", norm(flow.resolve(yp, at=y, stop=tuple(n.id for n in lp.target.elts))) in okyp or norm(yp) in okyp,
           "yield %s, ... %s" % (norm(yp), how),
           "result i of tree.query(primaries) is paired with %s[i]" % L1, node=y, func=f)
    mval = flow.resolve(ym, at=y, depth=1) if isinstance(ym, ast.Name) else ym
    okm = False
    srt = False
    if isinstance(mval, ast.ListComp) and len(mval.generators) == 1:
        g = mval.generators[0]
        it = g.iter
        if isinstance(it, ast.Call) and dotted(it.func) == "sorted" and len(it.args) == 1 and not it.keywords:
            srt = True
            it = it.args[0]
        okm = norm(it) == ovar and isinstance(g.target, ast.Name) and norm(mval.elt) == "%s[%s]" % (L2, g.target.id) and not g.ifs
    ctx.ob("FileSet.match.yield.matches", okm, "matches = %s" % norm(mval),
           "[%s[oi] for oi in <tree result for this primary>] - indices address the list the tree was built from" % L2,
           node=y, func=f)
    ctx.ob("FileSet.match.yield.sorted", okm and srt, "indices sorted: %s" % srt,
           "matches in time order (sorted indices of the time-ordered secondary list)", node=y, func=f)
    # primaries without partner are skipped
    st = enclosing_stmt(y)
    from ..flow import guard_chain
    okg = False
    gtxt = []
    for t_, pol_ in guard_chain(st, stop=lp, implicit=True):
        gtxt.append(("" if pol_ else "not ") + norm(t_))
        while isinstance(t_, ast.UnaryOp) and isinstance(t_.op, ast.Not):
            t_, pol_ = t_.operand, not pol_
        tt_ = norm(t_).replace(" ", "")
        subj = [norm(ym), ovar]
        if pol_ and (tt_ in subj or any(tt_ in ("len(%s)>0" % x, "0<len(%s)" % x, "len(%s)!=0" % x, "len(%s)" % x) for x in subj)):
            okg = True
        if not pol_ and any(tt_ in ("len(%s)==0" % x, "not%s" % x) for x in subj):
            okg = True
    ctx.ob("FileSet.match.yield.nonempty", okg, "yield guarded by: %s" % (gtxt or None),
           "primaries without partner are omitted (`if matches`)", node=y, func=f)
    # conversion of both lists to the same integer unit
    conv = {}
    def astype_chain(expr, at_, depth=0):
        full = flow.resolve(expr, at=at_, depth=5, stop=(L1, L2))
        got = [c.args[0].value for c in ast.walk(full) if isinstance(c, ast.Call) and isinstance(c.func, ast.Attribute) and c.func.attr == "astype"
               and c.args and isinstance(c.args[0], ast.Constant)]
        if depth < 3:
            # a name re-bound on one path only (`if widen: X = X + ...`): every definition is followed, all must agree
            for nm_ in [n_ for n_ in ast.walk(full) if isinstance(n_, ast.Name) and isinstance(n_.ctx, ast.Load) and n_.id not in (L1, L2)]:
                ds_ = [d_ for d_ in flow.defs(nm_.id, at_) if d_ != "param" and isinstance(d_, ast.Assign) and len(d_.targets) == 1
                       and isinstance(d_.targets[0], ast.Name)]
                if len(ds_) > 1:
                    subs = [astype_chain(d_.value, d_, depth + 1) for d_ in ds_]
                    if all(s_ == subs[0] for s_ in subs):
                        got = got + subs[0]
        return list(dict.fromkeys(got))
    for role, expr, at_ in (("tree", trees[0].args[0], trees[0]), ("query", queries[0].args[0], queries[0])):
        conv[role] = astype_chain(expr, at_)
    vals = list(conv.values())
    ctx.ob("FileSet.match.units", len(vals) == 2 and vals[0] == vals[1] and vals[0], "astype chains: %s" % conv,
           "both coverage arrays are converted to the same integer time unit", node=trees[0], func=f)


def _names_in_prov(flow, expr, at):
    """Local names (transitively) feeding expr."""
    out = set()
    seen = set()

    def rec(e, at, d):
        for n in walk_no_nested(e):
            if isinstance(n, ast.Name) and isinstance(n.ctx, ast.Load):
                out.add(n.id)
                for dd in flow.defs(n.id, at):
                    if dd == "param" or (id(dd), n.id) in seen or d <= 0:
                        continue
                    seen.add((id(dd), n.id))
                    if isinstance(dd, ast.Assign):
                        rec(dd.value, dd, d - 1)
                    elif isinstance(dd, ast.AugAssign):
                        rec(dd.value, dd, d - 1)
    rec(expr, at, 8)
    return out


def _all_forms(flow, expr, at, symmap):
    """All linear forms the value of `expr` may take, following every reaching definition of
    a bare name (to_datetime/to_timedelta wrappers are identity on the time axis)."""
    from ..algebra_lin import linear_form
    forms = []
    if isinstance(expr, ast.Name):
        ds = flow.defs(expr.id, at)
        for d in ds:
            if d == "param":
                forms.append(linear_form(expr, symmap))
            elif isinstance(d, ast.Assign):
                forms.append(linear_form(d.value, symmap))
            else:
                raise AnalysisError("unsupported definition of %s" % expr.id)
    else:
        forms.append(linear_form(expr, symmap))
    out = []
    for fm in forms:
        if fm not in out:
            out.append(fm)
    return out


def run(ctx):
    tree_rules(ctx)
    ctx.attempt(rule_match, ctx)
    from ..early import rule_early_table
    rule_early_table(ctx, "C03.answer", [
        (TREES, "IntervalTree.query", ("_query",), "the tree walk", ()),
        (TREES, "IntervalTree.query_points", ("_query_point", "_query_points"), "the tree walk", ()),
    ])
    # match(max_interval=<number>): the number of seconds, fraction included (shared with C04)
    from .C04 import rule_fraction
    ctx.attempt(rule_fraction, ctx, "C03.seconds")
    # the caller's arguments (arrays, filter / fill dictionaries) are not modified: an in-place update makes the next call on the same objects wrong
    from ..purity import rule_pure as _rule_args
    ctx.attempt(_rule_args, ctx, "C03.args", [('typhon/files/fileset.py', 'FileSet.match'), ('typhon/trees.py', 'IntervalTree.__init__'), ('typhon/trees.py', 'IntervalTree.query'), ('typhon/trees.py', 'IntervalTree.query_points')], "the caller's arguments are not modified in place")
