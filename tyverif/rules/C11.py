"""C11 - files written, moved, copied or deleted through a FileSet are conserved.

Call binding of every function handed to FileSet.map and of the direct internal calls (T7);
effect sets of the dry-run and the real delete path (T2); the move/copy worker: new name from
the destination template, source removed only without copy and only after the write, target
directory created first (T6+T2); write/read: directories before the handler write, compression
wrappers entered exactly under their flags, post_reader on every normal path, argument merge
order (T1); handler table (T3); item access dispatch (T6).  Content round trips through the
NetCDF/CSV libraries and histories of operations are not decided.
"""
import ast
from ..core import AnalysisError, norm, dotted, calls_in, walk_no_nested, parent, enclosing_stmt, const_value
from ..flow import Flow
from ..calls import bind_counts, bind_call, swapped_names
from .C12 import is_effect_on, WRITE_EFFECTS

FILESET = "typhon/files/fileset.py"
HCOMMON = "typhon/files/handlers/common.py"
EXPECT = {"C11.args": 4, "C11.bind": 4, "C11.delete": 3, "C11.move": 7, "C11.write": 7, "C11.pure": 2, "C11.handlers": 3, "C11.items": 2, "C11.ncread": 1}


def _method_ref(ctx, node):
    """`FileSet.name` / `self.name` -> (Func, bound?)"""
    d = dotted(node)
    if not d:
        return None
    parts = d.split(".")
    if len(parts) == 2 and parts[0] in ("FileSet", "self"):
        try:
            f = ctx.func(FILESET, "FileSet." + parts[1])
        except AnalysisError:
            return None
        # FileSet.x on a plain method is the bare function (no implicit self);
        # self.x is bound; staticmethods are the same either way
        bound = parts[0] == "self" or f.is_static
        return f, bound
    return None


def _bind_one(ctx, f, flow, caller, c, g, bound):
    keys = []
    for k in c.keywords:
        if k.arg == "kwargs":
            v = flow.resolve(k.value, at=c, depth=1)
            if not isinstance(v, ast.Dict):
                raise AnalysisError("%s: kwargs of map() is not a dict literal" % caller)
            keys = [const_value(x) for x in v.keys]
    problems = bind_counts(g, bound, 1, keys)
    ctx.ob("FileSet.%s -> map(%s)" % (caller, "FileSet." + g.qualname.split(".")[-1]), not problems,
           "worker %s%s called as f(file, %s): %s" % (g.qualname, "" if g.is_static else " (not a staticmethod, referenced through the class)",
                                                     ", ".join("%s=..." % k for k in keys), problems or "binds"),
           "f(<file>, **kwargs) binds to the worker's signature (TypeError otherwise, for every file)", node=c, func=f)


def rule_bind(ctx):
    ctx.rule("C11.bind", "T7", "every function handed to FileSet.map(func, kwargs=K) accepts one positional file plus exactly the keys of K; "
             "direct internal calls bind; no swapped same-named arguments")
    n = 0
    for caller in ("move", "delete"):
        f = ctx.func(FILESET, "FileSet." + caller)
        flow = Flow(f)
        for c in calls_in(f.node, "map"):
            if norm(c.func) != "self.map" or not c.args:
                continue
            # the caller's selection (start, end, files, filters ... in **kwargs) reaches map as a whole: map() ignores every find argument
            # once an explicit file list is given, so a list searched here without the filters drops the selection
            kwn = f.node.args.kwarg.arg if f.node.args.kwarg else None
            if kwn is not None:
                stars = [str(norm(k_.value)) for k_ in c.keywords if k_.arg is None]
                fkw = [k_.value for k_ in c.keywords if k_.arg == "files"]
                lost = None
                if kwn not in stars:
                    lost = "**%s is not passed on" % kwn
                for fv in fkw:
                    src = flow.resolve(fv, at=c, depth=3, stop=(kwn,))
                    finds = [x_ for x_ in ast.walk(src) if isinstance(x_, ast.Call) and norm(x_.func) == "self.find"]
                    finds += [x_ for d_ in (flow.defs(fv.id, c) if isinstance(fv, ast.Name) else []) if d_ != "param" and isinstance(d_, ast.Assign)
                              for x_ in ast.walk(d_.value) if isinstance(x_, ast.Call) and norm(x_.func) == "self.find"]
                    for fc in finds:
                        if kwn not in [str(norm(k_.value)) for k_ in fc.keywords if k_.arg is None]:
                            lost = "files=%s comes from %s, which does not receive **%s (filters are ignored by map once files are given)" % (norm(fv), norm(fc)[:60], kwn)
                ctx.ob("FileSet.%s.selection" % caller, lost is None, "%s%s" % (norm(c)[:90], ("; " + lost) if lost else ""),
                       "self.map(worker, kwargs=..., **kwargs): period, file list and filters of the caller select the files", node=c, func=f,
                       witness=None if lost is None else {"move": "filters={'sat': 'a'}", "moved": "every file of the period"})
            cands = [c.args[0]]
            if isinstance(c.args[0], ast.Name):
                cands = [flow._def_value(d_, c.args[0].id) for d_ in flow.defs(c.args[0].id, c) if d_ != "param"]
            def arms_of(e_):
                return arms_of(e_.body) + arms_of(e_.orelse) if isinstance(e_, ast.IfExp) else [e_]
            cands = [y for x in cands if x is not None for y in arms_of(x)]
            refs = [_method_ref(ctx, x) for x in cands if x is not None]
            for ref in refs:
              if ref is not None:
                g, bound = ref
                _bind_one(ctx, f, flow, caller, c, g, bound)
                n += 1
            continue
            g, bound = ref
            keys = []
            for k in c.keywords:
                if k.arg == "kwargs":
                    v = flow.resolve(k.value, at=c, depth=1)
                    if not isinstance(v, ast.Dict):
                        raise AnalysisError("%s: kwargs of map() is not a dict literal" % caller)
                    keys = [const_value(x) for x in v.keys]
            problems = bind_counts(g, bound, 1, keys)
            n += 1
            ctx.ob("FileSet.%s -> map(%s)" % (caller, norm(c.args[0])), not problems,
                   "worker %s%s called as f(file, %s): %s" % (g.qualname, "" if g.is_static else " (not a staticmethod, referenced through the class)",
                                                             ", ".join("%s=..." % k for k in keys), problems or "binds"),
                   "f(<file>, **kwargs) binds to the worker's signature (TypeError otherwise, for every file)", node=c, func=f)
    # direct internal calls
    f = ctx.func(FILESET, "FileSet.move")
    for c in calls_in(f.node):
        ref = _method_ref(ctx, c.func)
        if ref is None or dotted(c.func).endswith(".map") or dotted(c.func).split(".")[-1] in ("copy", "get_info"):
            continue
        g, bound = ref
        problems = bind_call(c, g, bound)
        sw = swapped_names(c, g, bound)
        n += 1
        ctx.ob("FileSet.move -> %s(...)" % norm(c.func), not problems and not sw,
               "%s: %s%s" % (norm(c)[:90], problems or "binds", ("; arguments named like each other's parameters: %s" % sw) if sw else ""),
               "the call binds, and an argument named like another parameter is not passed in that parameter's place", node=c, func=f)
    if n < 3:
        raise AnalysisError("C11.bind found only %d call sites" % n)
    # FileHandler.read / get_info decide by the NUMBER of parameters whether the user's function takes keyword arguments: the signature
    # of a bound method does not list self, so nothing is added for methods
    for meth, attr in (("read", "reader"), ("get_info", "info")):
        h = ctx.func(HCOMMON, "FileHandler." + meth)
        hflow = Flow(h)
        cmp_ = [c for c in ast.walk(h.node) if isinstance(c, ast.Compare) and len(c.ops) == 1 and calls_in(c.left, "signature") and calls_in(c.left, "len")]
        if len(cmp_) != 1 or not isinstance(cmp_[0].ops[0], ast.Gt):
            raise AnalysisError("FileHandler.%s: the comparison len(signature(...).parameters) > n was not found" % meth)
        rhs = hflow.resolve(cmp_[0].comparators[0], at=cmp_[0], depth=3)
        t_ = str(norm(rhs)).replace(" ", "")
        if t_ == "1":
            okn = True
        elif "ismethod" in t_:
            okn = False
        else:
            raise AnalysisError("FileHandler.%s: parameter count %s the reader is compared with not understood" % (meth, t_))
        ctx.ob("FileHandler.%s.kwargs_dispatch" % meth, okn, "keyword arguments are passed on iff len(signature(self.%s).parameters) > %s" % (attr, t_),
               "> 1 (the file): inspect.signature of a bound method already leaves out self - adding 1 for methods drops read_args for a reader "
               "`def read(self, file, first=None)`", node=cmp_[0], func=h,
               witness=None if okn else {"reader": "Store().read with signature (file, first=None)", "read_args": {"first": 2}, "passed on": False})


def rule_delete(ctx):
    ctx.rule("C11.delete", "T2", "the dry-run path reaches no removal effect; the real path removes exactly its file argument")
    f = ctx.func(FILESET, "FileSet.delete")
    flow = Flow(f)
    dry = f.params[1]
    maps = [c for c in calls_in(f.node, "map") if norm(c.func) == "self.map" and c.args]
    if not maps:
        raise AnalysisError("delete: no self.map(worker, ...) call")
    chosen = {}
    for v in (True, False):
        live = [c for c in maps if flow.live_under(enclosing_stmt(c), {dry: v})]
        if len(live) != 1:
            raise AnalysisError("delete: %d map calls on the path dry_run=%s" % (len(live), v))
        chosen[v] = norm(flow.resolve_under(live[0].args[0], {dry: v}, at=live[0]))
        kw = [k for k in live[0].keywords if k.arg is None]
        if len(kw) != 1 or norm(kw[0].value) != (f.node.args.kwarg.arg if f.node.args.kwarg else None):
            chosen[v] += " [selection keywords not forwarded]"
    fact = "dry_run: map(%s); otherwise: map(%s)" % (chosen[True], chosen[False])
    ok = chosen[True] == "FileSet._dry_delete" and chosen[False] == "FileSet._delete_single_file"
    ctx.ob("FileSet.delete.dispatch", ok, fact, "dry_run -> _dry_delete, otherwise _delete_single_file; selection keywords forwarded unchanged", node=maps[0], func=f)
    d = ctx.func(FILESET, "FileSet._dry_delete")
    eff = [norm(c) for c in calls_in(d.node) if (dotted(c.func) or "").split(".")[-1] in WRITE_EFFECTS or (dotted(c.func) or "") == "open"]
    ctx.ob("FileSet._dry_delete.effects", not eff, "file-system effects in the dry-run worker: %s" % (eff or "none"), "none", node=d.node, func=d)
    r = ctx.func(FILESET, "FileSet._delete_single_file")
    p0 = r.params[0]
    rm = [c for c in calls_in(r.node) if (dotted(c.func) or "") in ("os.remove", "os.unlink")]
    okr = len(rm) == 1 and norm(rm[0].args[0]) in (p0, "%s.path" % p0) and not any(isinstance(n, (ast.If, ast.Try)) for n in walk_no_nested(r.node))
    ctx.ob("FileSet._delete_single_file.effects", okr, "%s" % [norm(c) for c in rm], "exactly os.remove(<its file argument>), unconditionally", node=r.node, func=r)


def _block_of(st):
    par = parent(st)
    for fld in ("body", "orelse", "finalbody"):
        blk = getattr(par, fld, None)
        if isinstance(blk, list) and any(x is st for x in blk):
            return blk
    return None


def _flag_arms(flow, flag):
    """(if statement, statements under the flag, statements without it) for the `if` that tests `flag` - any spelling"""
    from ..flow import arms
    for st in flow.stmts:
        if isinstance(st, ast.If):
            ab = arms(st, flag, _block_of(st))
            if ab is not None:
                return st, ab[0], ab[1]
    return None


def rule_move(ctx):
    ctx.rule("C11.move", "T6+T2", "move worker: new name from the destination template with the file's own times and attributes; source kept with "
             "copy, removed only after the write otherwise; target directory created before the transfer")
    f = ctx.func(FILESET, "FileSet._move_single_file")
    names = f.params if f.is_static else f.params[1:]
    if len(names) != 5:
        raise AnalysisError("_move_single_file: unexpected signature %s" % f.params)
    fi, fs, dest, conv, cp = names
    flow = Flow(f)
    nn = [st for st in flow.stmts if isinstance(st, ast.Assign) and calls_in(st.value, "get_filename")]
    ok = bool(nn) and norm(nn[0].value).replace(" ", "") == "%s.get_filename(%s.times,fill=%s.attr)" % (dest, fi, fi)
    new = norm(nn[0].targets[0]) if nn else None
    ctx.ob("FileSet._move_single_file.name", ok, "%s" % (norm(nn[0]) if nn else None), "new name = destination.get_filename(file.times, fill=file.attr)", node=nn[0] if nn else f.node, func=f)
    from ..flow import arms
    top = [st for st in f.body if isinstance(st, ast.If) and arms(st, conv, f.body) is not None]
    if not top:
        raise AnalysisError("_move_single_file: `if convert:` not found")
    ct, pl = arms(top[0], conv, f.body)
    # nothing leaves the worker before the convert/plain decision unless `convert` is known to be false there
    from ..flow import facts_at as _facts_at
    early = []
    for st in flow.stmts:
        if isinstance(st, (ast.Return, ast.Raise)) and flow._order(st) < flow._order(top[0]) and not any(st is x_ for s_ in (ct + pl) for x_ in ast.walk(s_)):
            fa_ = _facts_at(st)
            if not any(str(norm(e_)) == conv and not tr_ for e_, tr_ in fa_) and isinstance(st, ast.Return):
                early.append("return under %s" % [("%s" if tr_ else "not %s") % norm(e_) for e_, tr_ in fa_])
    ctx.ob("FileSet._move_single_file.convert.reached", not early, "exits before the convert decision: %s" % (early or "none"),
           "none that can be taken with a truthy `convert`: a conversion is performed even onto the file's own name (a change of format in place)",
           node=top[0], func=f)
    # "the new name is the file's own name" (a conversion in place, a target template generating the same names)
    same = None
    for st in flow.stmts:
        if isinstance(st, ast.Assign) and isinstance(st.targets[0], ast.Name) and isinstance(st.value, ast.Compare) and len(st.value.ops) == 1 \
                and isinstance(st.value.ops[0], ast.Eq):
            sides = [str(norm(x_)).replace(" ", "") for x_ in (st.value.left, st.value.comparators[0])]
            def names_file(t_, what):
                return t_ in (what, "os.path.abspath(%s)" % what, "posixpath.abspath(%s)" % what, "os.path.realpath(%s)" % what, "os.path.normpath(%s)" % what)
            if (names_file(sides[0], new) and names_file(sides[1], "%s.path" % fi)) or (names_file(sides[1], new) and names_file(sides[0], "%s.path" % fi)):
                same = st.targets[0].id
    # (a bare `return` that ends an arm written as a guard clause is not part of what the arm does)
    pl = [s_ for s_ in pl if not (isinstance(s_, ast.Return) and s_.value is None)] or pl
    ct = [s_ for s_ in ct if not (isinstance(s_, ast.Return) and s_.value is None and s_ is ct[-1])] or ct
    if same is not None and len(pl) == 1 and isinstance(pl[0], ast.If):
        sp = arms(pl[0], same, pl)
        if sp is not None:
            if any(not isinstance(x_, (ast.Return, ast.Pass)) for x_ in sp[0]):
                raise AnalysisError("_move_single_file: a file that has its new name already is not left alone: %s" % [norm(x_)[:40] for x_ in sp[0]])
            pl = sp[1]
    # convert arm
    calls_c = [(c.lineno, norm(c)) for s in ct for c in calls_in(s)]
    rd = [c for s in ct for c in calls_in(s, "read") if norm(c.func) == "%s.read" % fs]
    wr = [c for s in ct for c in calls_in(s, "write") if norm(c.func) == "%s.write" % dest]
    rm = [c for s in ct for c in calls_in(s) if (dotted(c.func) or "") in ("os.remove", "os.unlink") or norm(c.func).endswith(".rm")]
    okc = len(rd) == 1 and len(wr) == 1 and norm(rd[0].args[0]) == fi and len(wr[0].args) == 2 and norm(wr[0].args[1]) == new
    ctx.ob("FileSet._move_single_file.convert", okc, "read: %s; write: %s" % ([norm(c) for c in rd], [norm(c) for c in wr]),
           "data = source.read(file); destination.write(data, new_name)", node=top[0], func=f)
    okr = len(rm) == 1 and norm(rm[0].args[0]) == "%s.path" % fi
    if okr:
        from ..flow import facts_at
        fa = facts_at(enclosing_stmt(rm[0]))
        okr = any(norm(e_) == cp and not tr_ for e_, tr_ in fa) and (flow._order(enclosing_stmt(rm[0])) > flow._order(enclosing_stmt(wr[0])) if wr else False)
    own = False
    from ..flow import facts_at
    if okr and same is not None:
        own = any(str(norm(e_)) == same and not tr_ for e_, tr_ in facts_at(enclosing_stmt(rm[0])))
    ctx.ob("FileSet._move_single_file.convert.own_name", own or not rm, "removal of the original under: %s" % (
        [("%s" if tr_ else "not %s") % norm(e_) for e_, tr_ in facts_at(enclosing_stmt(rm[0]))] if rm else "no removal"),
        "... and not when the new name is the file's own name (conversion in place): the file just written would be removed as 'the original'",
        node=rm[0] if rm else top[0], func=f, witness=None if (own or not rm) else {"move": "fs.move(fs.path, convert=str.upper)", "files afterwards": 0})
    ctx.ob("FileSet._move_single_file.convert.remove", okr, "removals in the convert arm: %s" % [norm(c) for c in rm],
           "`if not copy: os.remove(file.path)` after the write - never with copy, never before the new file exists", node=rm[0] if rm else top[0], func=f)
    # plain arm
    mk = [c for s in pl for c in calls_in(s, "makedirs")]
    tr = [s for s in pl if isinstance(s, ast.If) and arms(s, cp, pl) is not None]
    okp = False
    fact = None
    if mk and tr:
        t_arm, e_arm = arms(tr[0], cp, pl)
        t = [norm(c) for s in t_arm for c in calls_in(s)]
        e = [norm(c) for s in e_arm for c in calls_in(s)]
        fact = "makedirs: %s; if copy: %s else: %s" % (norm(mk[0]), t, e)
        fsys = norm(mk[0].func.value)
        okp = norm(mk[0].args[0]).replace(" ", "") == "posixpath.dirname(%s)" % new and flow._order(enclosing_stmt(mk[0])) < flow._order(tr[0]) \
            and t == ["%s.copy(%s.path, %s)" % (fsys, fi, new)] and e == ["%s.move(%s.path, %s)" % (fsys, fi, new)]
        # the file system object must be reachable: a parameter's attribute (not an undefined `self`)
        okp = okp and fsys.split(".")[0] in f.all_params
    ctx.ob("FileSet._move_single_file.plain", okp, fact, "makedirs(dirname(new)) first; copy(source, new) under copy, move(source, new) otherwise, on a file system "
           "object that exists in the worker", node=pl[0] if pl else top[0], func=f)
    # move(): destination template
    m = ctx.func(FILESET, "FileSet.move")
    rets = [s for s in walk_no_nested(m.node) if isinstance(s, ast.Return)]
    okm = bool(rets) and norm(rets[-1].value) == "destination"
    g0 = m.body[0]
    okm = okm and isinstance(g0, ast.If) and "isinstance(%s, FileSet)" % m.params[1] in norm(g0.test)
    ctx.ob("FileSet.move.destination", okm, "%s ... return %s" % (norm(g0.test) if isinstance(g0, ast.If) else None, norm(rets[-1].value) if rets else None),
           "a string target becomes a copy of this fileset with the new path; the destination fileset is returned", node=g0, func=m)
    # move(): what the caller asked for (`convert`, `copy`) reaches the worker as given.  The only re-definition the confirmed tree has is
    # `convert = False` under `convert is None`; a constant falsy value assigned under any other condition drops a conversion the caller asked
    # for (the source's read_args / post_reader and the destination's write_args are then never applied) - a recognised-wrong construct;
    # any other re-definition is outside what the rule can read (no verdict).
    from ..flow import guard_chain as _gc
    redefs, bad, unread = [], [], []
    for st in walk_no_nested(m.node):
        tg = []
        if isinstance(st, ast.Assign):
            for t_ in st.targets:
                tg += [n_ for n_ in ast.walk(t_) if isinstance(n_, ast.Name)]
        elif isinstance(st, (ast.AugAssign, ast.AnnAssign)) and isinstance(st.target, ast.Name):
            tg = [st.target]
        for n_ in tg:
            if n_.id not in ("convert", "copy") or n_.id not in m.all_params:
                continue
            gtxt = sorted(("%s" if pol else "not (%s)") % norm(t) for t, pol in _gc(st, implicit=True))
            val = getattr(st, "value", None)
            const_false = isinstance(val, ast.Constant) and not val.value
            redefs.append("%s under %s" % (norm(st), gtxt or "no condition"))
            if n_.id == "convert" and const_false and gtxt == ["convert is None"]:
                continue
            if n_.id == "convert" and val is not None and ((not gtxt and norm(val) in (
                    "False if convert is None else convert", "convert if convert is not None else False", "convert or False", "bool(convert)")) or norm(val) == n_.id):
                continue            # other spellings of None -> False that keep every truthy value truthy
            if const_false and isinstance(st, ast.Assign):
                bad.append((st, "%s under %s" % (norm(st), gtxt or "no condition")))
            else:
                unread.append("%s under %s" % (norm(st), gtxt or "no condition"))
    if unread and not bad:
        raise AnalysisError("FileSet.move re-defines what the caller asked for in a form the rule cannot read: %s" % "; ".join(unread)[:300])
    fw = [c for c in calls_in(m.node, "_move_single_file")]
    kw = [d_ for d_ in ast.walk(m.node) if isinstance(d_, ast.Dict) and any(isinstance(k_, ast.Constant) and k_.value == "convert" for k_ in d_.keys)]
    okf = True
    seen = []
    for c in fw:
        a = [norm(x) for x in c.args]
        seen.append(norm(c))
        okf = okf and len(a) >= 5 and a[3] == "convert" and a[4] == "copy"
    for d_ in kw:
        mp = {k_.value: norm(v_) for k_, v_ in zip(d_.keys, d_.values) if isinstance(k_, ast.Constant)}
        seen.append(norm(d_))
        okf = okf and mp.get("convert") == "convert" and mp.get("copy") == "copy"
    if not fw and not kw:
        raise AnalysisError("FileSet.move: neither a direct call of _move_single_file nor a keyword dictionary with 'convert' found")
    ctx.ob("FileSet.move.forward", okf and not bad, "re-definitions: %s; handed on: %s" % (redefs or "none", [s_[:80] for s_ in seen]),
           "the caller's `convert` and `copy` reach _move_single_file as given (only None -> False): a truthy `convert` always converts "
           "through both handlers", node=bad[0][0] if bad else m.node, func=m,
           witness=None if (okf and not bad) else {"move": "fs.move(target, convert=True) with a post_reader / write_args", "dropped by": bad[0][1] if bad else "forwarding"})


def rule_write(ctx):
    ctx.rule("C11.write", "T1", "write: directories first, compression wrapper iff the flag, handler writes to the yielded path; read: decompression "
             "iff the flag, post_reader on every normal path, per-call arguments override the defaults")
    w = ctx.func(FILESET, "FileSet.write")
    flow = Flow(w)
    cfg = flow.cfg
    hw = [c for c in calls_in(w.node, "write") if norm(c.func) == "self.handler.write"]
    md = [c for c in calls_in(w.node, "make_dirs")]
    ok = len(hw) == 2 and len(md) == 1
    if ok:
        dn = set(cfg.nodes(enclosing_stmt(md[0])))
        ok = all(cfg.dominated_by(n, dn) for c in hw for n in cfg.nodes(enclosing_stmt(c))) and norm(md[0].args[0]) == "%s.path" % w.params[2]
    ctx.ob("FileSet.write.dirs", ok, "make_dirs calls: %s; handler writes: %d" % ([norm(c) for c in md], len(hw)), "make_dirs(file.path) dominates every handler.write",
           node=md[0] if md else w.node, func=w)
    fa_ = _flag_arms(flow, "self.compress")
    if fa_ is None or len(hw) != 2:
        raise AnalysisError("write: the decision on self.compress / the two handler writes were not found")
    ci = [fa_[0]]
    okc = False
    fact = None
    if ci:
        st = ci[0]
        withs = [s for s in fa_[1] if isinstance(s, ast.With)]
        if not withs:
            raise AnalysisError("write: no with-statement under self.compress")
        if withs:
            wi = withs[0]
            item = wi.items[0]
            cc = calls_in(item.context_expr, "compress")
            var = norm(item.optional_vars) if item.optional_vars is not None else None
            inner = [c for c in hw if any(c is n for s in wi.body for n in ast.walk(s))]
            outer = [c for c in hw if c not in inner]
            # the handler receives an info object whose path was set to the yielded path
            setp = [s for s in wi.body if isinstance(s, ast.Assign) and norm(s.targets[0]).endswith(".path") and norm(s.value) == var]
            tgt = norm(setp[0].targets[0]).rsplit(".", 1)[0] if setp else None
            okc = bool(cc) and norm(cc[0].args[0]) == "%s.path" % w.params[2] and len(inner) == 1 and len(outer) == 1 and tgt is not None \
                and norm(inner[0].args[1]) == tgt and norm(inner[0].args[0]) == w.params[1] and any(outer[0] is n for s in fa_[2] for n in ast.walk(s)) \
                and norm(outer[0].args[1]) == w.params[2]
            fact = "if self.compress: with %s as %s: %s.path = %s; %s else: %s" % (norm(item.context_expr)[:50], var, tgt, var, norm(inner[0])[:50] if inner else None, norm(outer[0])[:50] if outer else None)
    ctx.ob("FileSet.write.compress", okc, fact, "the compress(...) wrapper is entered exactly when self.compress is truthy and the handler writes to the path it yields; "
           "otherwise the handler writes the file itself", node=ci[0] if ci else w.node, func=w)
    wa = [st for st in flow.stmts if isinstance(st, ast.Assign) and norm(st.targets[0]) == "write_args"]
    ctx.ob("FileSet.write.args", bool(wa) and norm(wa[0].value).replace(" ", "") == "{**self.write_args,**write_args}" and all("**write_args" in norm(c) for c in hw),
           "%s" % (norm(wa[0]) if wa else None), "write_args = {**self.write_args, **write_args}: per-call arguments override the defaults; passed to the handler", node=wa[0] if wa else w.node, func=w)
    r = ctx.func(FILESET, "FileSet.read")
    rflow = Flow(r)
    rcfg = rflow.cfg
    hr = [c for c in calls_in(r.node, "read") if norm(c.func) == "self.handler.read"]
    fd_ = _flag_arms(rflow, "self.decompress")
    if fd_ is None or len(hr) != 2:
        raise AnalysisError("read: the decision on self.decompress / the two handler reads were not found")
    di = [fd_[0]]
    okd = False
    fact = None
    if di and len(hr) == 2:
        st = di[0]
        withs = [s for s in fd_[1] if isinstance(s, ast.With)]
        if not withs:
            raise AnalysisError("read: no with-statement under self.decompress")
        if withs:
            wi = withs[0]
            item = wi.items[0]
            cc = calls_in(item.context_expr, "decompress")
            var = norm(item.optional_vars) if item.optional_vars is not None else None
            inner = [c for c in hr if any(c is n for s in wi.body for n in ast.walk(s))]
            outer = [c for c in hr if c not in inner]
            setp = [s for s in wi.body if isinstance(s, ast.Assign) and norm(s.targets[0]).endswith(".path") and norm(s.value) == var]
            tgt = norm(setp[0].targets[0]).rsplit(".", 1)[0] if setp else None
            okd = bool(cc) and norm(cc[0].args[0]) == "%s.path" % r.params[1] and len(inner) == 1 and len(outer) == 1 and tgt is not None \
                and norm(inner[0].args[0]) == tgt and norm(outer[0].args[0]) == r.params[1] and any(outer[0] is n for s in fd_[2] for n in ast.walk(s))
            fact = "if self.decompress: with %s as %s: read(%s) else: read(%s)" % (norm(item.context_expr)[:50], var, norm(inner[0].args[0]) if inner else None, norm(outer[0].args[0]) if outer else None)
    ctx.ob("FileSet.read.decompress", okd, fact, "decompress(...) entered exactly when self.decompress is truthy; the handler reads the yielded path", node=di[0] if di else r.node, func=r)
    # post_reader on every normal path between the read and the return
    rets = [s_ for s_ in rflow.stmts if isinstance(s_, ast.Return)]
    got = {}
    for label, asm in (("set", {"self.post_reader is not None": True, "self.post_reader is None": False, "self.post_reader": True}),
                       ("unset", {"self.post_reader is not None": False, "self.post_reader is None": True, "self.post_reader": False})):
        live = [r_ for r_ in rets if rflow.live_under(r_, asm)]
        got[label] = sorted(set(str(norm(rflow.resolve_under(r_.value, asm, at=r_))) if r_.value is not None else "None" for r_ in live))
    # the name holding what the handler read: every assignment from a handler read binds it
    dn_ = set(norm(enclosing_stmt(c_).targets[0]) for c_ in hr if isinstance(enclosing_stmt(c_), ast.Assign) and len(enclosing_stmt(c_).targets) == 1)
    if len(dn_) != 1:
        raise AnalysisError("read: the handler's result is not bound to one name (%s)" % sorted(dn_))
    D = str(list(dn_)[0])
    okp = got["set"] == ["self.post_reader(%s, %s)" % (r.params[1], D)] and got["unset"] == [D]
    ctx.ob("FileSet.read.post_reader", okp, "returned with a post_reader: %s; without: %s" % (got["set"], got["unset"]),
           "self.post_reader(file_info, data) whenever a post_reader is set, the handler's data otherwise - on every return",
           node=rets[0] if rets else r.node, func=r)
    ra = [st for st in rflow.stmts if isinstance(st, ast.Assign) and norm(st.targets[0]) == "read_args"]
    ok_ra = bool(ra) and norm(ra[0].value).replace(" ", "") == "{**self.read_args,**read_args}" and all("**read_args" in norm(c) for c in hr)
    fact_ra = "%s" % (norm(ra[0]) if ra else None)
    if not ok_ra:
        kwn = r.node.args.kwarg.arg if r.node.args.kwarg else "read_args"
        ok_ra, facts_ = _merged_args_ok(rflow, hr, "read_args", kwn)
        fact_ra = "handler reads receive %s" % facts_
    ctx.ob("FileSet.read.args", ok_ra, fact_ra, "read_args = {**self.read_args, **read_args}; passed to the handler", node=ra[0] if ra else r.node, func=r)


def _merged_args_ok(flow, calls, attr, kwname):
    """every handler call passes **X with X = {**self.<attr>, **<the caller's keyword arguments>} (whatever X is called)"""
    want = "{**self.%s,**%s}" % (attr, kwname)
    facts = []
    ok = bool(calls)
    for c in calls:
        stars = [k.value for k in c.keywords if k.arg is None]
        if len(stars) != 1:
            ok = False
            facts.append("%s: %d ** arguments" % (norm(c)[:50], len(stars)))
            continue
        v = flow.resolve(stars[0], at=c, depth=2, stop=("self",))
        t = str(norm(v)).replace(" ", "")
        if t.startswith("{**self.%s,**{" % attr) and t.endswith("}}"):
            t = "{**self.%s,**%s}" % (attr, t[len("{**self.%s,**" % attr):-1])
        facts.append("**%s" % t)
        # (the parameter may have been re-bound to the merged dictionary: the inner name is then the caller's argument)
        ok = ok and t in (want, "{**self.%s,**%s}" % (attr, want))
    return ok, facts


def rule_handlers(ctx):
    ctx.rule("C11.handlers", "T3", "default handlers: nc, h5 -> NetCDF4; txt, csv, asc -> CSV; suffix taken after stripping a compression suffix")
    mod = ctx.mod(FILESET)
    tab = mod.table("default_handler", scope="FileSet")
    if not isinstance(tab, ast.Dict):
        raise AnalysisError("default_handler is not a dict literal")
    got = {const_value(k): norm(v) for k, v in zip(tab.keys, tab.values)}
    want = {"nc": "NetCDF4", "h5": "NetCDF4", "txt": "CSV", "csv": "CSV", "asc": "CSV"}
    f = ctx.func(FILESET, "FileSet.__init__")
    ctx.ob("FileSet.default_handler", got == want, "%s" % got, "%s" % want, node=tab, func=f)
    # both classes define read and write
    hm = ctx.mod("typhon/files/handlers/common.py")
    missing = [c + "." + m for c in ("NetCDF4", "CSV") for m in ("read", "write") if (c + "." + m) not in hm.funcs]
    ctx.ob("handlers.read_write", not missing, "missing methods: %s" % (missing or "none"), "NetCDF4 and CSV define read and write", node=hm.tree, func=None)
    # suffix derivation: the key looked up in the table, with and without a compression suffix
    flow = Flow(f)
    look = [c for c in calls_in(f.node, "get") if norm(c.func) == "self.default_handler.get" and c.args]
    look += [n.slice for n in walk_no_nested(f.node) if isinstance(n, ast.Subscript) and norm(n.value) == "self.default_handler"]
    keys_ = {norm(l_.args[0] if isinstance(l_, ast.Call) else l_) for l_ in look}
    if len(keys_) != 1:
        raise AnalysisError("FileSet.__init__: expected one look-up key in self.default_handler, found %d" % len(keys_))
    keyx = look[0].args[0] if isinstance(look[0], ast.Call) else look[0]
    tests = [c for c in calls_in(f.node, "is_compression_format")]
    if len(tests) != 1:
        raise AnalysisError("FileSet.__init__: expected one is_compression_format(...) test")
    targ = norm(flow.resolve(tests[0].args[0], at=tests[0]))
    cond = norm(flow.resolve(tests[0], at=tests[0]))
    stop = ("handler",)
    plain = norm(flow.resolve_under(keyx, {cond: False, norm(tests[0]): False}, at=keyx, stop=stop, depth=8)).replace('"', "'")
    packed = norm(flow.resolve_under(keyx, {cond: True, norm(tests[0]): True}, at=keyx, stop=stop, depth=8)).replace('"', "'")
    sfx = "os.path.splitext(self.path)[1].lstrip('.')"
    ok = plain == sfx and targ.replace('"', "'") == sfx and packed == "os.path.splitext(os.path.splitext(self.path)[0])[1].lstrip('.')"
    ctx.ob("FileSet.__init__.suffix", ok, "key = %s; after a compression suffix (%s): key = %s" % (plain, targ, packed),
           "suffix of the path; if it is a compression format, the suffix before it; dot stripped; looked up in the table", node=tests[0], func=f)


def rule_items(ctx):
    ctx.rule("C11.items", "T6", "fs[s:e] = d -> get_filename((s, e), fill) then write; fs[s:e] -> collect(s, e)")
    f = ctx.func(FILESET, "FileSet.__setitem__")
    key, val = f.params[1], f.params[2]
    flow = Flow(f)
    gf = ctx.func(FILESET, "FileSet.get_filename")
    gc = calls_in(f.node, "get_filename")
    wc = [c for c in calls_in(f.node, "write") if norm(c.func) == "self.write"]
    if len(gc) != 1 or len(wc) != 1:
        raise AnalysisError("__setitem__: expected one self.get_filename(...) and one self.write(...)")
    from ..calls import bind_args
    bound = bind_args(gc[0], gf)
    times = bound.get(gf.params[1])
    if times is None:
        raise AnalysisError("__setitem__: get_filename is called without its times argument")
    ta = [st for st in flow.stmts if isinstance(st, ast.Assign) and any(isinstance(t, ast.Name) and t.id == "time_args" for t in st.targets)]
    stop = ("time_args", key)
    cond = "isinstance(time_args, slice)"
    as_slice = norm(flow.resolve_under(times, {cond: True}, at=gc[0], stop=stop))
    as_point = norm(flow.resolve_under(times, {cond: False}, at=gc[0], stop=stop))
    fill = bound.get("fill")
    fname = norm(flow.resolve(wc[0].args[1], at=wc[0], depth=1)) if len(wc[0].args) > 1 else None
    ok = as_slice == "(time_args.start, time_args.stop)" and as_point == "(time_args, time_args)" and fill is not None and norm(fill) == "fill" \
        and len(wc[0].args) == 2 and norm(wc[0].args[0]) == val and fname == norm(gc[0])
    ctx.ob("FileSet.__setitem__", ok, "slice key: times = %s; other key: times = %s; write(%s)" % (as_slice, as_point, ", ".join(norm(a) for a in wc[0].args)),
           "filename = self.get_filename((slice.start, slice.stop), fill=fill); self.write(value, filename)", node=f.node, func=f)
    g = ctx.func(FILESET, "FileSet.__getitem__")
    c = calls_in(g.node, "collect")
    okg = bool(c) and norm(c[0]).replace(" ", "") == "self.collect(time_args.start,time_args.stop,filters=filters)"
    ctx.ob("FileSet.__getitem__.slice", okg, "%s" % (norm(c[0]) if c else None), "self.collect(slice.start, slice.stop, filters=filters)", node=c[0] if c else g.node, func=g)


def rule_ncmode(ctx):
    ctx.rule("C11.write", "T1 typestate", "NetCDF4.write: the first group written opens the file in the caller's mode, every later group appends")
    f = ctx.func("typhon/files/handlers/common.py", "NetCDF4.write")
    flow = Flow(f)
    tn = [c for c in calls_in(f.node, "to_netcdf")]
    if len(tn) != 1:
        raise AnalysisError("NetCDF4.write: expected one to_netcdf(...) call")
    c = tn[0]
    lp, _ = None, None
    n_ = parent(enclosing_stmt(c))
    while n_ is not None and not isinstance(n_, (ast.For, ast.FunctionDef)):
        n_ = parent(n_)
    if not isinstance(n_, ast.For):
        raise AnalysisError("NetCDF4.write: to_netcdf is not called in the loop over the groups")
    lp = n_
    mode = next((k.value for k in c.keywords if k.arg == "mode"), None)
    if mode is None:
        raise AnalysisError("NetCDF4.write: to_netcdf called without mode=")
    if isinstance(mode, ast.Name):
        r_ = flow.single_def_value(mode.id, c)
        if r_ is not None:
            mode = r_[0]
    um = [st for st in flow.stmts if isinstance(st, ast.Assign) and isinstance(st.targets[0], ast.Name) and calls_in(st.value, "pop") and "'mode'" in norm(st.value).replace('"', "'")]
    uname = um[0].targets[0].id if um else None
    loopvars = {n2.id for n2 in ast.walk(lp.target) if isinstance(n2, ast.Name)}
    ok = False
    fact = norm(mode)
    if isinstance(mode, ast.IfExp) and uname:
        tvars = {n2.id for n2 in ast.walk(mode.test) if isinstance(n2, ast.Name)}
        arms_ = {norm(mode.body).replace('"', "'"), norm(mode.orelse).replace('"', "'")}
        if arms_ != {"'a'", uname}:
            ok = False
        elif len(tvars) == 1:
            flag = list(tvars)[0]
            # a flag that is False before the loop and set to True after the write ...
            init = [d_ for d_ in flow.defs(flag, lp) if d_ != "param" and not any(d_ is x for x in ast.walk(lp))]
            sets = [st for st in lp.body if isinstance(st, ast.Assign) and norm(st.targets[0]) == flag]
            is_flag = len(init) == 1 and isinstance(init[0], ast.Assign) and norm(init[0].value) == "False" and len(sets) == 1 and norm(sets[0].value) == "True" \
                and flow._order(sets[0]) > flow._order(enclosing_stmt(c)) and norm(mode.test) == flag and norm(mode.body).replace('"', "'") == "'a'"
            # ... or the position of the group in the iteration (enumerate index)
            it = lp.iter
            is_index = isinstance(it, ast.Call) and dotted(it.func) == "enumerate" and isinstance(lp.target, ast.Tuple) and norm(lp.target.elts[0]) == flag \
                and ((norm(mode.test).replace(" ", "") in ("%s>0" % flag, "0<%s" % flag, flag, "%s!=0" % flag) and norm(mode.body).replace('"', "'") == "'a'")
                     or (norm(mode.test).replace(" ", "") in ("%s==0" % flag, "not%s" % flag) and norm(mode.orelse).replace('"', "'") == "'a'"))
            if is_flag or is_index:
                ok = True
            elif flag in loopvars and not is_index:
                ok = False
                fact += "  [the mode depends on WHICH group is written, not on whether the file was opened before]"
            else:
                raise AnalysisError("NetCDF4.write: mode selection %s not understood" % norm(mode))
        else:
            raise AnalysisError("NetCDF4.write: mode selection %s not understood" % norm(mode))
    elif isinstance(mode, ast.Name) and uname == mode.id:
        # the caller's mode kept in a local that is set to 'a' after the first write
        sets = [st for st in lp.body if isinstance(st, ast.Assign) and len(st.targets) == 1 and norm(st.targets[0]) == mode.id]
        others = [st for st in flow.stmts if isinstance(st, (ast.Assign, ast.AugAssign)) and st not in sets and st is not um[0]
                  and any(isinstance(n2, ast.Name) and n2.id == mode.id and isinstance(n2.ctx, ast.Store) for n2 in ast.walk(st))]
        ok = len(sets) == 1 and norm(sets[0].value).replace('"', "'") == "'a'" and flow._order(sets[0]) > flow._order(enclosing_stmt(c)) and not others \
            and not any(um[0] is x for x in ast.walk(lp))
        fact = "%s = %s before the loop; %s after the write" % (mode.id, norm(um[0].value), norm(sets[0]) if sets else "never re-bound")
    else:
        raise AnalysisError("NetCDF4.write: mode %s is not a selection between the caller's mode and 'a'" % norm(mode))
    ctx.ob("NetCDF4.write.mode", ok, "mode = %s" % fact, "'a' if a group was already written in this call else the caller's mode ('w' by default): one file, all groups kept, old content replaced",
           node=c, func=f)


def rule_ncread(ctx):
    """xarray.decode_cf applies scale_factor / add_offset / _FillValue itself.  netCDF4-python must therefore hand out the stored values:
    with its automatic MASKING left on, every variable arrives as a masked array - xarray turns those into floats, and every integer equal
    to the default fill value of its type (255 for u1, -127 for i1, ...) becomes NaN."""
    ctx.rule("C11.ncread", "T1", "NetCDF4.read switches off netCDF4-python's automatic scaling AND masking before the variables are loaded")
    from ..flow import Flow
    f = ctx.func(HCOMMON, "NetCDF4.read")
    flow = Flow(f)
    loads = [c_ for c_ in calls_in(f.node, "_load_group")]
    if not loads:
        raise AnalysisError("NetCDF4.read: the call that loads the variables (_load_group) was not found")
    offs = {"scale": False, "mask": False}
    for c_ in calls_in(f.node):
        nm = c_.func.attr if isinstance(c_.func, ast.Attribute) else ""
        off = bool(c_.args) and isinstance(c_.args[0], ast.Constant) and c_.args[0].value is False
        before = all(flow._order(enclosing_stmt(c_)) < flow._order(enclosing_stmt(l_)) for l_ in loads)
        if off and before:
            if nm in ("set_auto_maskandscale",):
                offs["scale"] = offs["mask"] = True
            elif nm == "set_auto_scale":
                offs["scale"] = True
            elif nm == "set_auto_mask":
                offs["mask"] = True
    ctx.ob("NetCDF4.read.raw_values", offs["scale"] and offs["mask"], "switched off before the variables are loaded: %s" % sorted(k_ for k_, v_ in offs.items() if v_),
           "set_auto_maskandscale(False) (or set_auto_scale(False) and set_auto_mask(False)): integers survive a write / read cycle (uint8 255 came back as NaN, every "
           "integer variable as float64)", node=loads[0], func=f, witness=None if offs["scale"] and offs["mask"] else {"written": "uint8 [0, 1, 254, 255]", "read back": "float64 [0, 1, 254, nan]"})


def run(ctx):
    from ..calendar_rule import rule_leap
    ctx.attempt(rule_leap, ctx, "C11.calendar", ['typhon/files/fileset.py'])
    for r in (rule_bind, rule_delete, rule_move, rule_write, rule_handlers, rule_items, rule_ncmode, rule_ncread):
        ctx.attempt(r, ctx)
    from ..purity import rule_pure
    ctx.attempt(rule_pure, ctx, "C11.pure", [(FILESET, "FileSet.read"), (FILESET, "FileSet.write")],
                "read / write leave the FileInfo they were given unchanged (find() hands out the cached objects themselves)")
    # the worker-argument selection rule is shared with C10 (delete/move act on the selection it builds)
    from .C10 import rule_args, rule_filenames
    ctx.attempt(rule_args, ctx)
    ctx.attempt(rule_filenames, ctx)
    # names of written / moved files come from get_filename (C02.table), and move() returns a
    # destination fileset whose path was re-assigned (C01.pathstate)
    from .C02 import rule_table
    from .C01 import rule_pathstate
    ctx.attempt(rule_table, ctx)
    ctx.attempt(rule_pathstate, ctx, "C01.pathstate")
    # transparent (de)compression on write/read (C12) and fileset[t] -> find_closest -> read (C16.dispatch)
    from . import C12, C16
    for r in (C12.rule_table, C12.rule_cleanup, C12.rule_commit, C12.rule_passthrough, C12.rule_zipname, C12.rule_writer, C16.rule_dispatch):
        ctx.attempt(r, ctx)
    # the caller's arguments (arrays, filter / fill dictionaries) are not modified: an in-place update makes the next call on the same objects wrong
    from ..purity import rule_pure as _rule_args
    ctx.attempt(_rule_args, ctx, "C11.args", [('typhon/files/fileset.py', 'FileSet.read'), ('typhon/files/fileset.py', 'FileSet.write'), ('typhon/files/fileset.py', 'FileSet.move'), ('typhon/files/fileset.py', 'FileSet.delete')], "the caller's arguments are not modified in place")
