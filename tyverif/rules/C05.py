"""C05 - collocating filesets equals collocating all their data, for any process count.

The property quantifies over schedules; decided is the discipline that makes the multiset of
results independent of timing: the supervision loop drains the result queue in a LOOP placed
after the liveness observation (or once more after the outer loop), joins afterwards and
reads the error queue last (T1); the per-process caller puts every non-None result, resets
its bundle cache after a flush and flushes the tail (T1 typestate); a crash is signalled on
both queues before re-raising (T1); all matches are distributed, one chunk per process (T6);
bookkeeping enumerates pairs in the order align yields them (T6); output names come from the
collocations' own time span (T6).  Shared: C03.match (file matching), C10.align (loading),
C13.concat (index offsets).  Queue interleavings and the NetCDF round trip are not decided.
"""
import ast
from ..core import AnalysisError, norm, dotted, calls_in, walk_no_nested, parent, enclosing_stmt
from ..cfg import ENTRY, EXIT, RAISE
from ..flow import Flow

COL = "typhon/collocations/collocator.py"
FILESET = "typhon/files/fileset.py"
EXPECT = {"C05.drain": 3, "C05.flush": 4, "C05.crash": 1, "C05.split": 4, "C05.pairing": 2, "C05.naming": 3, "C05.unique_name": 1}


def rule_drain(ctx):
    ctx.rule("C05.drain", "T1", "supervision loop: after the last liveness observation the result queue is drained completely; joins follow; errors last")
    f = ctx.func(COL, "Collocator.collocate_filesets")
    flow = Flow(f)
    cfg = flow.cfg
    outer = [st for st in flow.stmts if isinstance(st, ast.While) and norm(st.test) == "running"]
    if not outer:
        raise AnalysisError("collocate_filesets: `while running:` not found")
    w = outer[0]
    live = [st for st in w.body if isinstance(st, ast.Assign) and norm(st.targets[0]) == "running" and "is_alive()" in norm(st.value)]
    drains = [st for st in flow.stmts if isinstance(st, (ast.While, ast.If)) and "results.empty()" in norm(st.test)
              and any(norm(c.func) == "results.get" for c in calls_in(st))]
    loops = [d for d in drains if isinstance(d, ast.While)]
    fact = "liveness filter: %s; queue consumers: %s" % ([norm(s)[:60] for s in live], ["%s %s" % (type(d).__name__.lower(), norm(d.test)) for d in drains])
    ok = False
    if live and loops:
        d = loops[0]
        in_outer_after = d in w.body and w.body.index(d) > w.body.index(live[0])
        after_outer = d in f.body and f.body.index(d) > f.body.index(w) if (d in f.body and w in f.body) else False
        ok = in_outer_after or after_outer
    ctx.ob("Collocator.collocate_filesets.drain", ok and len(loops) == len(drains), fact,
           "`while not results.empty(): results.get()` (a loop, not a single `if`) after `running = [alive ...]` inside the supervision loop, or once more after it: "
           "results still queued when the last worker has exited are not dropped", node=drains[0] if drains else w, func=f)
    # yields every non-None result taken from the queue
    ys = [n for d in loops for n in walk_no_nested(d) if isinstance(n, ast.Yield)]
    oky = False
    if ys and loops:
        g = parent(enclosing_stmt(ys[0]))
        get = [st for st in loops[0].body if isinstance(st, ast.Assign) and norm(st.value) == "results.get()"]
        res = norm(get[0].targets[0].elts[2]) if get and isinstance(get[0].targets[0], ast.Tuple) and len(get[0].targets[0].elts) == 3 else None
        oky = isinstance(g, ast.If) and norm(g.test) == "%s is not None" % res and norm(ys[0].value) == res
    ctx.ob("Collocator.collocate_filesets.yield", oky, "%s" % ([norm(y.value) for y in ys]), "every queue element whose result is not None is yielded", node=ys[0] if ys else w, func=f)
    joins = [st for st in f.body if isinstance(st, ast.For) and any(norm(c.func).endswith(".join") for c in calls_in(st))]
    errs = [st for st in f.body if st is not w and any(isinstance(n_, ast.While) and "errors.empty()" in norm(n_.test) for n_ in ast.walk(st))]
    okj = bool(joins) and bool(errs) and f.body.index(w) < f.body.index(joins[0]) < f.body.index(errs[0])
    ctx.ob("Collocator.collocate_filesets.join", okj, "order: supervision loop, joins (%d), error drain (%d)" % (len(joins), len(errs)), "processes are joined after the loop; the error queue is read after the joins",
           node=joins[0] if joins else f.node, func=f)


def rule_flush(ctx):
    ctx.rule("C05.flush", "T1 typestate", "_process_caller: every result is put; a flush is followed by a reset before the next append; the tail is flushed")
    f = ctx.func(COL, "Collocator._process_caller")
    flow = Flow(f)
    loop = [st for st in flow.stmts if isinstance(st, ast.For) and "collocated_matches" in norm(st.iter)]
    if not loop:
        raise AnalysisError("_process_caller: loop over the collocated matches not found")
    lp = loop[0]
    saves = [c for c in calls_in(f.node, "_save_and_return")]
    if not saves:
        raise AnalysisError("_process_caller: no call of _save_and_return found")
    bad = []
    for c in saves:
        st = enclosing_stmt(c)
        # put directly: results.put([..., self._save_and_return(...)])
        if isinstance(st, ast.Expr) and isinstance(st.value, ast.Call) and norm(st.value.func) == "results.put" and any(x is c for x in ast.walk(st.value)):
            continue
        par = parent(st)
        body = getattr(par, "body", [])
        nxt = body[body.index(st) + 1] if st in body and body.index(st) + 1 < len(body) else None
        res = norm(st.targets[0]) if isinstance(st, ast.Assign) else None
        if not (nxt is not None and isinstance(nxt, ast.Expr) and isinstance(nxt.value, ast.Call) and norm(nxt.value.func) == "results.put"
                and res and res in norm(nxt.value)):
            bad.append(norm(st)[:60])
    ctx.ob("Collocator._process_caller.put", bool(saves) and not bad, "%d _save_and_return calls; not followed by results.put: %s" % (len(saves), bad or "none"),
           "every saved/returned bundle is put on the result queue", node=saves[0] if saves else f.node, func=f)
    # unbundled arm
    ub = [st for st in lp.body if isinstance(st, ast.If) and norm(st.test) == "bundle is None"]
    if not ub:
        raise AnalysisError("_process_caller: the arm for `bundle is None` was not found")
    item = lp.target
    while isinstance(item, ast.Tuple) and not all(isinstance(e, ast.Name) for e in item.elts):
        item = [e for e in item.elts if isinstance(e, ast.Tuple)][0]
    first_name = norm(item.elts[0]) if isinstance(item, ast.Tuple) else norm(item)
    oku = any(calls_in(s, "_save_and_return") for s in ub[0].body) and isinstance(ub[0].body[-1], ast.Continue) \
        and norm(calls_in(ub[0], "_save_and_return")[0].args[0]) == first_name
    ctx.ob("Collocator._process_caller.unbundled", oku, "%s" % (norm(ub[0])[:120] if ub else None), "without bundling each non-None result is saved and put at once", node=ub[0] if ub else lp, func=f)
    # flush + reset before append
    fl = [st for st in lp.body if isinstance(st, ast.If) and calls_in(flow.resolve(st.test, at=st, depth=2), "_should_save_cache")]
    if not fl:
        raise AnalysisError("_process_caller: the flush decision (_should_save_cache) was not found in the loop")
    okf = False
    fact = None
    if fl:
        b = [norm(s) for s in fl[0].body]
        fact = b
        app = [s for s in lp.body if isinstance(s, ast.Expr) and norm(s.value).startswith("cached_data.append(")]
        if not app:
            # the out-of-place spellings of the same step: cached_data = cached_data + [x] / [*cached_data, x] / cached_data += [x]
            for s_ in lp.body:
                v_ = None
                if isinstance(s_, ast.Assign) and len(s_.targets) == 1 and norm(s_.targets[0]) == "cached_data":
                    t_ = str(norm(s_.value)).replace(" ", "")
                    if t_ in ("cached_data+[%s]" % first_name, "[*cached_data,%s]" % first_name):
                        v_ = first_name
                elif isinstance(s_, ast.AugAssign) and isinstance(s_.op, ast.Add) and norm(s_.target) == "cached_data" \
                        and str(norm(s_.value)).replace(" ", "") == "[%s]" % first_name:
                    v_ = first_name
                if v_ is not None:
                    app = [ast.copy_location(ast.Expr(value=ast.parse("cached_data.append(%s)" % v_, mode="eval").body), s_)]
                    lp_index = lp.body.index(s_)
                    break
        sv_idx = [i for i, s_ in enumerate(fl[0].body) if any([norm(a_) for a_ in c_.args[:2]] == ["cached_data", "cached_attributes"] for c_ in calls_in(s_, "_save_and_return"))]
        okf = bool(sv_idx) and "cached_data = []" in b and "cached_attributes = {}" in b \
            and b.index("cached_data = []") > sv_idx[0] and b.index("cached_attributes = {}") > sv_idx[0] \
            and bool(app) and (lp.body.index(app[0]) if app[0] in lp.body else lp_index) > lp.body.index(fl[0]) and norm(app[0].value) == "cached_data.append(%s)" % first_name
    ctx.ob("Collocator._process_caller.flush_reset", okf, "%s" % fact, "flush(cached) ; cached_data = [] ; cached_attributes = {} ; then append the new element (no double flush, no loss)",
           node=fl[0] if fl else lp, func=f)
    # tail
    par = parent(lp)
    body = getattr(par, "body", [])
    tail = [st for st in body[body.index(lp) + 1:] if isinstance(st, ast.If) and norm(st.test) in ("cached_data", "len(cached_data) > 0", "len(cached_data)")]
    okt = bool(tail) and any(calls_in(s, "_save_and_return") for s in tail[0].body) and any(norm(c.func) == "results.put" for c in calls_in(tail[0]))
    ctx.ob("Collocator._process_caller.tail", okt, "%s" % (norm(tail[0])[:100] if tail else "no flush after the loop"), "`if cached_data:` flush and put after the loop (the last bundle)",
           node=tail[0] if tail else lp, func=f)


def rule_crash(ctx):
    ctx.rule("C05.crash", "T1", "on an exception ProcessCrashed goes on the result queue and the error on the error queue before the re-raise")
    f = ctx.func(COL, "Collocator._process_caller")
    tr = [st for st in f.body if isinstance(st, ast.Try)]
    ok = False
    fact = None
    if tr and tr[0].handlers:
        h = tr[0].handlers[0]
        seq = []
        for s in h.body:
            if isinstance(s, ast.Expr) and isinstance(s.value, ast.Call):
                seq.append(norm(s.value.func) + ("[ProcessCrashed]" if "ProcessCrashed" in norm(s.value) else ""))
            elif isinstance(s, ast.Raise):
                seq.append("raise")
        fact = seq
        ok = "results.put[ProcessCrashed]" in seq and "errors.put" in seq and "raise" in seq \
            and seq.index("results.put[ProcessCrashed]") < seq.index("raise") and seq.index("errors.put") < seq.index("raise") \
            and (h.type is None or "Exception" in norm(h.type))
    ctx.ob("Collocator._process_caller.crash", ok, "handler: %s" % fact, "results.put([.., ProcessCrashed]) and errors.put(...) before `raise`", node=tr[0] if tr else f.node, func=f)


def rule_unique_name(ctx):
    """Every result written in one run needs a file of its own.  The name is a function of the time span of the collocations (and of the
    fill attributes): two results with the same span - two secondaries matched by one short primary file under bundle=None - collide
    unless equal names are merged, numbered, or appended to."""
    ctx.rule("C05.unique_name", "T2", "two results of one run are never written under the same file name")
    f = ctx.func(COL, "Collocator._save_and_return")
    gf = calls_in(f.node, "get_filename")
    wr = calls_in(f.node, "write")
    if not gf or not wr:
        raise AnalysisError("_save_and_return: get_filename / write not found")
    txt = ast.unparse(f.node)
    guarded = any(k_ in txt for k_ in ("isfile(", "exists(", "glob(")) or "mode=" in ast.unparse(wr[0]) and "'a'" in ast.unparse(wr[0])
    pc = ctx.func(COL, "Collocator._process_caller")
    per_match = len(calls_in(pc.node, "_save_and_return")) >= 2          # one call per match (no bundle) besides the bundle flushes
    merged = "_merge_same_name" in ast.unparse(pc.node) or "same_name" in ast.unparse(pc.node)
    ok = guarded or merged or not per_match
    ctx.ob("Collocator._save_and_return.unique_name", ok, "name = %s; existing file checked / merged: %s" % (str(norm(gf[0]))[:90], guarded or merged),
           "results that map to one file name are merged (or the name is made unique) before output.write: with bundle=None every (primary file, secondary file) match is "
           "written on its own, and two matches of one primary file with the same time span overwrite each other", node=wr[0], func=f,
           witness=None if ok else {"primary file": "one point at 01:00:00", "secondary files": "00:00-00:59 and 01:00-01:59, two partners each",
                                   "memory output": "4 collocations in 2 datasets", "file output": "1 file with 2 collocations"})


def rule_split(ctx):
    ctx.rule("C05.split", "T6", "all matches are distributed: array_split of the full list into min(processes, len(matches)) chunks, one process per chunk")
    f = ctx.func(COL, "Collocator.collocate_filesets")
    flow = Flow(f)
    A = {}
    for st in flow.stmts:
        if isinstance(st, ast.Assign) and isinstance(st.targets[0], ast.Name):
            A.setdefault(st.targets[0].id, []).append(st)
    m = A.get("matches", [None])[0]
    okm = m is not None and norm(m.value).replace(" ", "") == "list(filesets[0].match(filesets[1],start=start,end=end,max_interval=max_interval))"
    ctx.ob("Collocator.collocate_filesets.match", okm, "%s" % (norm(m.value) if m else None), "matches = primary.match(secondary, start, end, max_interval) over the requested period",
           node=m or f.node, func=f)
    splits = calls_in(f.node, "array_split")
    if not splits:
        # recognised-wrong: chunks cut as equal slices of length len(matches) // n - the remainder len(matches) % n goes to no worker
        mname0 = m.targets[0].id if m is not None else "matches"
        for st_ in flow.stmts:
            if isinstance(st_, ast.Assign) and isinstance(st_.value, (ast.ListComp, ast.GeneratorExp)) and len(st_.value.generators) == 1 \
                    and isinstance(st_.value.elt, ast.Subscript) and isinstance(st_.value.elt.slice, ast.Slice) and str(norm(st_.value.elt.value)) == mname0:
                step = flow.resolve(st_.value.elt.slice.upper, at=st_, depth=3, stop=(mname0, "processes")) if st_.value.elt.slice.upper is not None else None
                if step is not None and any(isinstance(n_, ast.BinOp) and isinstance(n_.op, ast.FloorDiv) and "len(%s)" % mname0 in str(norm(n_.left)) for n_ in ast.walk(step)):
                    ctx.ob("Collocator.collocate_filesets.chunks", False, "%s" % str(norm(st_))[:160],
                           "np.array_split(all matches, n): slices of the floored length len(matches) // n leave the last len(matches) %% n matches to no worker",
                           node=st_, func=f, witness={"matches": 5, "processes": 2, "distributed": 4})
                    return
    if len(splits) != 1 or len(splits[0].args) < 2:
        raise AnalysisError("collocate_filesets: the array_split of the matches was not found")
    sp_ = splits[0]
    ch = enclosing_stmt(sp_)
    pparam = [p_ for p_ in f.params if p_ == "processes"]
    if not pparam:
        raise AnalysisError("collocate_filesets: parameter `processes` not found")
    mname = m.targets[0].id if m is not None else "matches"
    pr = []
    for asm, wantp in (({"processes is None": True, "processes is not None": False}, ("min(1, len(%s))" % mname, "min(len(%s), 1)" % mname)),
                       ({"processes is None": False, "processes is not None": True}, ("min(processes, len(%s))" % mname, "min(len(%s), processes)" % mname))):
        got = norm(flow.resolve_under(sp_.args[1], asm, at=sp_, stop=(mname,)))
        pr.append(str(got))
    okc = str(norm(flow.resolve(sp_.args[0], at=sp_, stop=(mname,)))).replace(" ", "") in ("np.array(%s,dtype=object)" % mname,) \
        and pr[0].replace(" ", "") in ("min(1,len(%s))" % mname, "min(len(%s),1)" % mname) \
        and pr[1].replace(" ", "") in ("min(processes,len(%s))" % mname, "min(len(%s),processes)" % mname)
    if not okc and not any("len(%s)" % mname in x for x in pr) and any("min" in x for x in pr):
        raise AnalysisError("collocate_filesets: number of chunks %s not understood" % pr)
    chv = sp_
    pr = {"processes is None": pr[0], "processes given": pr[1]}
    # no match at all: the number of processes becomes min(.., 0) = 0 and array_split into 0 sections raises - answer with nothing before
    eg = [st_ for st_ in flow.stmts if isinstance(st_, ast.If) and str(norm(st_.test)) in ("not %s" % mname, "len(%s) == 0" % mname, "not len(%s)" % mname)
          and any(isinstance(x, ast.Return) for x in st_.body)
          and all(flow.cfg.dominated_by(n_, set(flow.cfg.nodes(st_))) for n_ in flow.cfg.nodes(ch))]
    ctx.ob("Collocator.collocate_filesets.no_matches", bool(eg), "guards before the split: %s" % ([str(norm(g_.test)) for g_ in eg] or "none"),
           "`if not matches: return` before np.array_split(matches, min(processes, len(matches))): filesets without files close in time yield nothing "
           "(ValueError: number sections must be larger than 0)", node=eg[0] if eg else ch, func=f,
           witness=None if eg else {"filesets": "A files 00:00-02:00, B files 04:00-06:00, max_interval=600", "raises": "ValueError"})
    ctx.ob("Collocator.collocate_filesets.chunks", okc, "%s; processes: %s" % (norm(chv), pr), "np.array_split(all matches, min(processes, len(matches)))", node=ch or f.node, func=f)
    pl = A.get("process_list", [None])[0]
    okp = False
    if pl is not None and isinstance(pl.value, ast.ListComp):
        c = pl.value
        g = c.generators[0]
        kw = {k.arg: norm(k.value) for k in c.elt.keywords} if isinstance(c.elt, ast.Call) else {}
        okp = norm(g.iter) == "enumerate(matches_chunks)" and not g.ifs and kw.get("target") == "Collocator._process_caller" \
            and "'matches': %s" % norm(g.target.elts[1]) in kw.get("kwargs", "")
    starts = [st for st in f.body if isinstance(st, ast.For) and norm(st.iter) == "process_list" and any(norm(c.func).endswith(".start") for c in calls_in(st))]
    ctx.ob("Collocator.collocate_filesets.processes", okp and bool(starts), "%s" % (norm(pl.value)[:140] if pl else None), "one Process per chunk, each receiving its own chunk; all are started",
           node=pl or f.node, func=f)


def rule_pairing(ctx):
    ctx.rule("C05.pairing", "T6", "the flat bookkeeping list enumerates (primary, secondary) in the nesting order in which align yields them")
    f = ctx.func(COL, "Collocator._process_caller")
    ms = [st for st in f.body if isinstance(st, ast.Assign) and norm(st.targets[0]) == "matches" and isinstance(st.value, ast.ListComp)]
    ok = False
    if ms:
        c = ms[0].value
        ok = len(c.generators) == 2 and norm(c.generators[0].iter).replace('"', "'") == "kwargs['matches']" and norm(c.generators[1].iter) == "%s[1]" % norm(c.generators[0].target) \
            and norm(c.elt).replace(" ", "") == "[%s[0],%s]" % (norm(c.generators[0].target), norm(c.generators[1].target))
    ctx.ob("Collocator._process_caller.flat", ok, "%s" % (norm(ms[0].value) if ms else None), "[[match[0], secondary] for match in matches for secondary in match[1]] (primary-major)", node=ms[0] if ms else f.node, func=f)
    # which two files a result belongs to: align(skip_errors=True) yields NOTHING for a pair with an unreadable file, so the k-th result is not
    # the k-th entry of the flat list - the files must travel with the result
    flow_pc = Flow(f)
    def from_cm(it_):
        if calls_in(it_, "_collocate_matches"):
            return True
        for n_ in ast.walk(it_):
            if isinstance(n_, ast.Name):
                sd_ = flow_pc.single_def_value(n_.id, it_)
                if sd_ and calls_in(sd_[0], "_collocate_matches"):
                    return True
        return False
    lp_pc = [st for st in flow_pc.stmts if isinstance(st, ast.For) and from_cm(st.iter)]
    if len(lp_pc) != 1:
        raise AnalysisError("_process_caller: the loop over _collocate_matches(...) was not found")
    tnames = [n_.id for n_ in ast.walk(lp_pc[0].target) if isinstance(n_, ast.Name)]
    n_result = len(tnames) - (1 if calls_in(lp_pc[0].iter, "enumerate") else 0)
    # the file pair: what is handed to _should_save_cache as `match`
    ssc = ctx.func(COL, "Collocator._should_save_cache")
    from ..calls import bind_args
    pair_args = []
    for c_ in calls_in(lp_pc[0], "_should_save_cache"):
        b_ = bind_args(c_, ssc)
        if b_.get("match") is not None:
            pair_args.append((b_["match"], c_))
    if not pair_args:
        raise AnalysisError("_process_caller: the file pair handed to _should_save_cache was not found")
    from_result, indexed = True, []
    for e_, at_ in pair_args:
        r_ = flow_pc.resolve(e_, at=at_, depth=3, stop=tuple(tnames) + ("matches",))
        if isinstance(r_, ast.Name) and r_.id in tnames:
            continue
        from_result = False
        if isinstance(r_, ast.Subscript) and str(norm(r_.value)) == "matches":
            indexed.append(str(norm(r_)))
        else:
            raise AnalysisError("_process_caller: where the file pair %s of a result comes from was not understood" % str(norm(r_))[:60])
    mnames = {str(norm(e_)) for e_, _ in pair_args}
    g_cm = ctx.func(COL, "Collocator._collocate_matches")
    ys_cm = [n_ for n_ in walk_no_nested(g_cm.node) if isinstance(n_, ast.Yield) and isinstance(n_.value, ast.Tuple)]
    three = bool(ys_cm) and all(len(y_.value.elts) == n_result for y_ in ys_cm) and len({str(norm(y_.value.elts[-1])) for y_ in ys_cm}) == 1
    ctx.ob("Collocator._process_caller.match_of_result", from_result and three, "file pair of a result: %s; _collocate_matches yields %s" % (
        ("loop variable %s" % sorted(mnames)) if from_result else indexed, sorted({str(norm(y_.value)) for y_ in ys_cm})),
        "the two files are yielded WITH each result (also with a None result): `matches[processed]` drifts as soon as align skips a pair with an unreadable file - "
        "the bundle tag then comes from another pair, one primary is flushed as two bundles of the same name and the second overwrites the first",
        node=lp_pc[0], func=f, witness=None if (from_result and three) else {"skip_file_errors": True, "bundle": "primary", "unreadable": "the first primary file",
                                                                          "written": "2 of the 4 collocations of the second primary"})
    a = ctx.func(FILESET, "FileSet.align")
    outer = [st for st in walk_no_nested(a.node) if isinstance(st, ast.For) and calls_in(st.iter, "enumerate")]
    if not outer:
        raise AnalysisError("align: loop over enumerate(primary_loader) not found")
    oka = False
    if outer:
        op = outer[0]
        inner = [st for st in op.body if isinstance(st, ast.For)]
        mid = norm(op.target.elts[0])
        # primaries, secondaries = zip(*matches): secondaries[k] is matches[k][1]
        zp = [st for st in walk_no_nested(a.node) if isinstance(st, ast.Assign) and isinstance(st.targets[0], ast.Tuple) and len(st.targets[0].elts) == 2
              and norm(st.value).replace(" ", "") == "zip(*matches)"]
        inner_ok = ["matches[%s][1]" % mid] + (["%s[%s]" % (norm(zp[0].targets[0].elts[1]), mid)] if len(zp) == 1 else [])
        oka = bool(inner) and str(norm(inner[0].iter)).replace(" ", "") in inner_ok and norm(op.iter) == "enumerate(primary_loader)"
        prim = [st for st in walk_no_nested(op) if isinstance(st, ast.Assign) and norm(st.targets[0]) == "primary" and ("primaries[%s]" % mid in norm(st.value) or "matches[%s][0]" % mid in norm(st.value))]
        oka = oka and bool(prim)
    ctx.ob("FileSet.align.order", oka, "outer: %s; inner: %s" % (norm(outer[0].iter) if outer else None, norm(inner[0].iter) if outer and inner else None),
           "primary k of the loader is paired with primaries[k] and walks matches[k][1] in order (primary-major, like the bookkeeping)", node=outer[0] if outer else a.node, func=a)


def rule_naming(ctx):
    ctx.rule("C05.naming", "T6", "output files are named by the time span of the collocations they hold")
    f = ctx.func(COL, "Collocator._save_and_return")
    gf = calls_in(f.node, "get_filename")
    ok = False
    if gf:
        t = norm(gf[0]).replace(" ", "").replace('"', "'")
        ok = t == "output.get_filename([to_datetime(collocations.attrs['start_time']),to_datetime(collocations.attrs['end_time'])],fill=attributes)"
    ctx.ob("Collocator._save_and_return.name", ok, "%s" % (norm(gf[0]) if gf else None), "get_filename([start_time, end_time of the collocations' attrs], fill=attributes)", node=gf[0] if gf else f.node, func=f)
    wr = calls_in(f.node, "write")
    okw = bool(wr) and norm(wr[0]) == "output.write(collocations, filename)"
    lst = [st for st in f.body if isinstance(st, ast.If) and norm(st.test) == "isinstance(collocations, list)" and norm(st.body[0]) == "collocations = concat_collocations(collocations)"]
    ctx.ob("Collocator._save_and_return.write", okw and bool(lst), "write: %s; bundles concatenated first: %s" % (norm(wr[0]) if wr else None, bool(lst)),
           "a bundle is concatenated with concat_collocations and written under that name", node=wr[0] if wr else f.node, func=f)
    from ..flow import const_str

    def span(fl, e, at, pname, depth=0):
        """(aggregate, container text, key string) of pd.Timestamp(<container>[..][<primary>/time][.values].min|max().item(0)), names looked through"""
        def peel(x):
            n_ = 0
            while isinstance(x, ast.Name) and n_ < 4:
                r_ = fl.single_def_value(x.id, at)
                if r_ is None:
                    break
                x, n_ = r_[0], n_ + 1
            return x
        e = peel(e)
        while isinstance(e, ast.Call) and dotted(e.func) == "str" and len(e.args) == 1:
            e = peel(e.args[0])
        if isinstance(e, ast.Subscript) and isinstance(e.value, ast.Attribute) and e.value.attr == "attrs" and norm(e.value.value) != "self":
            return "copied", str(norm(e)), None
        if not (isinstance(e, ast.Call) and (dotted(e.func) or "").endswith("Timestamp") and len(e.args) == 1):
            return None
        it = peel(e.args[0])
        if isinstance(it, ast.Subscript) and isinstance(it.value, ast.Attribute) and it.value.attr == "attrs" and norm(it.value.value) != "self":
            # recognised wrong form: the span is copied from the attributes of one of the parts instead of the times held
            return "copied", str(norm(it)), None
        if not (isinstance(it, ast.Call) and isinstance(it.func, ast.Attribute) and it.func.attr == "item" and [norm(a_) for a_ in it.args] == ["0"]):
            return None
        ag = peel(it.func.value)
        if not (isinstance(ag, ast.Call) and isinstance(ag.func, ast.Attribute) and ag.func.attr in ("min", "max") and not ag.args and not ag.keywords):
            return None
        base = peel(ag.func.value)
        if isinstance(base, ast.Attribute) and base.attr == "values":
            base = peel(base.value)
        if not isinstance(base, ast.Subscript):
            return None
        key = const_str(peel(base.slice), {pname: "<P>"})
        cont = base.value
        return ag.func.attr, str(norm(cont)), key
    g = ctx.func(COL, "Collocator._create_return")
    gflow = Flow(g)
    asg = {}
    for st in walk_no_nested(g.node):
        if isinstance(st, ast.Assign) and isinstance(st.targets[0], ast.Name) and st.targets[0].id in ("start", "end"):
            asg[st.targets[0].id] = span(gflow, st.value, st, "primary_name")
    if set(asg) != {"start", "end"} or None in asg.values():
        raise AnalysisError("_create_return: start / end of the time span not of the form pd.Timestamp(<times>.min()/max().item(0)): %s" % asg)
    okt = asg["start"][0] == "min" and asg["end"][0] == "max" and asg["start"][1:] == asg["end"][1:] == ("output", "<P>/time")
    h = ctx.func(COL, "concat_collocations")
    hflow = Flow(h)
    asg2 = {}
    for st in hflow.stmts:
        if isinstance(st, ast.Assign) and isinstance(st.targets[0], ast.Attribute) and st.targets[0].attr == "attrs" and isinstance(st.value, ast.Dict):
            for k_, v_ in zip(st.value.keys, st.value.values):
                if isinstance(k_, ast.Constant) and k_.value in ("start_time", "end_time"):
                    asg2[{"start_time": "start", "end_time": "end"}[k_.value]] = span(hflow, v_, st, "primary")
    if set(asg2) != {"start", "end"} or None in asg2.values():
        raise AnalysisError("concat_collocations: start_time / end_time attributes of the merged dataset not of the form pd.Timestamp(<times>.min()/max().item(0)): %s" % asg2)
    okt2 = asg2["start"][0] == "min" and asg2["end"][0] == "max" and asg2["start"][1:] == asg2["end"][1:] and asg2["start"][2] == "<P>/time" \
        and asg2["start"][1].endswith("[primary]")
    ctx.ob("collocations.time_span", okt and okt2, "_create_return: %s; concat: %s" % (asg, asg2), "start_time / end_time = min / max of the primary times of the collocations held", node=g.node, func=g)


def run(ctx):
    for r in (rule_drain, rule_flush, rule_crash, rule_split, rule_pairing, rule_naming, rule_unique_name):
        ctx.attempt(r, ctx)
    from .C03 import rule_match
    from .C10 import rule_align
    from .C13 import rule_concat
    ctx.attempt(rule_match, ctx)
    ctx.attempt(rule_align, ctx)
    ctx.attempt(rule_concat, ctx)
    # everything collocate_filesets reaches: per-pair collocate() (C04), the file search behind match() (C01: period,
    # directory pruning, exclusion, path state) and the interval tree it queries (C03)
    from . import C04, C01
    from .C03 import tree_rules
    for r in (C04.rule_empty, C04.rule_temporal, C04.rule_window, C04.rule_nan, C04.rule_swap, C04.rule_offsets, C04.rule_cache, C04.rule_reuse, C04.rule_grid, C04.rule_interval, C04.rule_thresholds,
              C01.rule_semiopen, C01.rule_prune, C01.rule_exclude, C01.rule_pathstate, C01.rule_trunc_table):
        ctx.attempt(r, ctx)
    tree_rules(ctx, which=("pred", "partition", "descent_q", "scan_q", "early_q", "rows", "empty", "extent", "api"))
