"""C15 - the file-info cache survives restarts and interrupted saves.

Decided clauses: save_cache never opens the target for writing, writes one sibling file, closes
it, and only then renames it over the target - and the rename is unreachable from any
exception raised while writing (T1+T2: at every crash point the target is the old or the new
complete document); load_cache parses inside a catch-all that warns and never re-raises, and
updates the in-memory cache only with the completely built dictionary (T1); the exit hook is
registered only when loading did not raise (T1); writer and reader of the time stamps use
matching formats with microseconds and a width-stable year (T3); get_info consults the cache
first and fills it last, and changing time_coverage resets it (T1).
"""
import ast
from ..core import AnalysisError, norm, dotted, calls_in, walk_no_nested, parent, enclosing_stmt, const_value
from ..cfg import EXIT, RAISE, ENTRY
from ..flow import Flow, lexically_inside

FILESET = "typhon/files/fileset.py"
HCOMMON = "typhon/files/handlers/common.py"
EXPECT = {"C15.filesystem": 1, "C15.order": 8, "C15.load": 3, "C15.register": 1, "C15.format": 7, "C15.answer": 1, "C15.lookup": 3, "C15.entries": 2}


def _write_mode(call):
    mode = call.args[1] if len(call.args) > 1 else None
    for k in call.keywords:
        if k.arg == "mode":
            mode = k.value
    if mode is None:
        return False
    if isinstance(mode, ast.Constant) and isinstance(mode.value, str):
        return any(ch in mode.value for ch in "wax+")
    return True


def _cache_writers(ctx):
    """methods of FileSet that (directly, or through another method of self) store into self.info_cache -> {name: how}"""
    mod = ctx.repo.mod(FILESET)
    direct, calls = {}, {}
    for q, fn in mod.funcs.items():
        if fn.cls is None or fn.cls.name != "FileSet":
            continue
        nm = q.split(".", 1)[1]
        for n_ in ast.walk(fn.node):
            if isinstance(n_, ast.Call) and isinstance(n_.func, ast.Attribute):
                if norm(n_.func.value) == "self.info_cache" and n_.func.attr in ("update", "pop", "clear", "setdefault", "popitem"):
                    direct.setdefault(nm, "self.info_cache.%s" % n_.func.attr)
                if norm(n_.func.value) == "self":
                    calls.setdefault(nm, set()).add(n_.func.attr)
            elif isinstance(n_, (ast.Assign, ast.AugAssign, ast.Delete)):
                for t_ in (n_.targets if isinstance(n_, (ast.Assign, ast.Delete)) else [n_.target]):
                    if norm(t_).startswith("self.info_cache"):
                        direct.setdefault(nm, "stores %s" % norm(t_)[:40])
    out = dict(direct)
    for _ in range(4):
        for nm, cs in calls.items():
            if nm not in out:
                hit = sorted(c for c in cs if c in out)
                if hit:
                    out[nm] = "calls self.%s" % hit[0]
    return out


def rule_order(ctx):
    ctx.rule("C15.order", "T1+T2", "save_cache: write a sibling file completely, close it, then rename it over the target")
    f = ctx.func(FILESET, "FileSet.save_cache")
    flow = Flow(f)
    cfg = flow.cfg
    target = f.params[1]
    opens = [c for c in calls_in(f.node, "open") if _write_mode(c)]
    if not opens:
        raise AnalysisError("save_cache: no write-mode open found")
    # 1. no write-mode open of the target itself
    direct = [c for c in opens if norm(flow.resolve(c.args[0], at=c)) == target]
    ctx.ob("FileSet.save_cache.open", not direct and len(opens) == 1,
           "write-mode opens: %s" % [norm(c) for c in opens],
           "exactly one, of a sibling path (never the target: a crash would leave it truncated)",
           node=opens[0], func=f)
    w = opens[0]
    wpath = flow.resolve(w.args[0], at=w)
    sibling = isinstance(wpath, ast.BinOp) and isinstance(wpath.op, ast.Add) and norm(wpath.left) == target \
        and isinstance(wpath.right, ast.Constant) and isinstance(wpath.right.value, str) and wpath.right.value
    sibling = sibling or (isinstance(wpath, ast.JoinedStr) and any(
        isinstance(v, ast.FormattedValue) and norm(v.value) == target for v in wpath.values) and len(wpath.values) > 1)
    ctx.ob("FileSet.save_cache.sibling", bool(sibling), "written path = %s" % norm(wpath),
           "target name plus a constant suffix (same directory, so the rename is atomic)", node=w, func=f)
    # 2. the rename
    movers = [c for c in calls_in(f.node) if (dotted(c.func) or "") in (
        "shutil.move", "os.replace", "os.rename", "os.renames")]
    good = [c for c in movers if len(c.args) == 2 and norm(flow.resolve(c.args[0], at=c)) == norm(wpath)
            and norm(flow.resolve(c.args[1], at=c)) == target]
    ctx.ob("FileSet.save_cache.rename", len(movers) == 1 and len(good) == 1,
           "rename/move calls: %s" % [norm(c) for c in movers],
           "exactly one, from the written sibling path to the target", node=movers[0] if movers else f.node, func=f)
    # 2b. nothing else touches the target: a remove/truncate of the old cache before the rename leaves a window without any cache file
    destructive = ("os.remove", "os.unlink", "os.rmdir", "shutil.rmtree", "os.truncate", "shutil.copy", "shutil.copyfile", "shutil.copy2")
    touch = []
    for c in calls_in(f.node):
        d = dotted(c.func) or ""
        if c in movers or c in opens:
            continue
        if d in destructive and any(norm(flow.resolve(a, at=c)) == target for a in c.args):
            touch.append(norm(c))
        elif isinstance(c.func, ast.Attribute) and c.func.attr in ("unlink", "write_text", "write_bytes", "touch") \
                and isinstance(c.func.value, ast.Call) and (dotted(c.func.value.func) or "").split(".")[-1] == "Path" \
                and any(norm(flow.resolve(a_, at=c)) == target for a_ in c.func.value.args):
            touch.append(norm(c))
    ctx.ob("FileSet.save_cache.untouched", not touch, "other calls that remove, truncate or overwrite the target: %s" % touch,
           "none - until the rename the old cache file stays in place (remove-then-move is not atomic)",
           node=movers[0] if movers else f.node, func=f)
    # 2c. what is saved is the cache as it is: save_cache itself does not change self.info_cache - neither directly nor through a method of
    # the fileset that does (load_cache before writing would bring back entries that reset_cache / a changed time_coverage dropped)
    writers_ = _cache_writers(ctx)
    changed_ = []
    for n_ in ast.walk(f.node):
        if isinstance(n_, ast.Call) and isinstance(n_.func, ast.Attribute) and norm(n_.func.value) == "self" and n_.func.attr in writers_:
            changed_.append("self.%s(...) [%s]" % (n_.func.attr, writers_[n_.func.attr]))
        elif isinstance(n_, ast.Call) and norm(n_.func).startswith("self.info_cache.") and n_.func.attr in ("update", "pop", "clear", "setdefault", "popitem"):
            changed_.append(norm(n_)[:60])
        elif isinstance(n_, (ast.Assign, ast.AugAssign, ast.Delete)):
            for t_ in (n_.targets if isinstance(n_, (ast.Assign, ast.Delete)) else [n_.target]):
                if norm(t_).startswith("self.info_cache"):
                    changed_.append(norm(n_)[:60])
    ctx.ob("FileSet.save_cache.as_it_is", not changed_, "changes of self.info_cache inside save_cache: %s" % (changed_ or "none"),
           "none: the file holds exactly the entries of the cache at the time of the call (entries dropped by reset_cache are not brought back from the old file)",
           node=f.node, func=f, witness=None if not changed_ else {"history": "save; reset_cache(); find() over a part; save", "file": "old entries of the untouched part are back"})
    if len(good) != 1:
        return
    m = good[0]
    mst = enclosing_stmt(m)
    # 3. the file is closed before the rename: the open is a with-item and the rename is outside that with
    wst, fld = lexically_inside(w, (ast.With,))
    in_with = wst is not None and fld == "items"
    m_inside = wst is not None and any(n is m for s in wst.body for n in ast.walk(s))
    ctx.ob("FileSet.save_cache.closed", in_with and not m_inside,
           "open is a with-item: %s; rename inside that with-block: %s" % (in_with, m_inside),
           "the written file is closed (with-block left) before it is renamed", node=m, func=f)
    # 4. rename unreachable from an exception raised while writing; every dump precedes it
    if in_with:
        inner = [n for s in wst.body for st2 in _stmts_in(s) for n in cfg.nodes(st2)] + cfg.nodes(wst)
        edges = [(n, lab) for n in inner for lab in ("exc", "gen")]
        reach = cfg.reach_from_edges(edges)
        hit = [n for n in cfg.nodes(mst) if n in reach]
        ctx.ob("FileSet.save_cache.commit", not hit,
               "rename reachable from an exception raised inside the write block: %s" % bool(hit),
               "unreachable (not in a finally/except): a failed or interrupted write must not replace the old cache",
               node=m, func=f)
        # no write to either path after the rename
        after = cfg.reach([n for n in cfg.nodes(mst)])
        late = []
        for n in after:
            if n in (EXIT, RAISE):
                continue
            st = cfg.stmt_of.get(n)
            if st is None or isinstance(st, ast.ExceptHandler):
                continue
            for c in calls_in(st) if not isinstance(st, (ast.Try,)) else []:
                if (dotted(c.func) or "") == "open" and _write_mode(c):
                    late.append(norm(c))
                if (dotted(c.func) or "").endswith("json.dump"):
                    late.append(norm(c))
        ctx.ob("FileSet.save_cache.final", not late, "writes after the rename: %s" % late,
               "none - the rename is the last effect", node=m, func=f)
    # 4b. the save is performed whenever a file name is given: no other condition skips it
    from ..flow import facts_at
    fa = facts_at(enclosing_stmt(w))
    guards = [("" if tr_ else "not ") + str(norm(e_)) for e_, tr_ in fa]
    only_name = all((norm(e_) == "%s is not None" % target and tr_) or (norm(e_) == "%s is None" % target and not tr_) for e_, tr_ in fa) and bool(fa)
    ctx.ob("FileSet.save_cache.unconditional", only_name,
           "write reached under: %s" % guards,
           "`if filename is not None:` only - the cache in memory is saved whatever it contains (an 'unchanged size' short cut keeps a stale document)",
           node=enclosing_stmt(w), func=f)
    # 5. complete document: one json.dump of the list of all cached infos
    dumps = calls_in(f.node, "json.dump") + [c for c in calls_in(f.node, "dump") if dotted(c.func) != "json.dump"]
    okd = False
    fact = "json.dump calls: %d" % len(dumps)
    if len(dumps) == 1 and dumps[0].args:
        v = flow.resolve(dumps[0].args[0], at=dumps[0])
        fact = "json.dump(%s)" % norm(v)
        if isinstance(v, ast.ListComp) and len(v.generators) == 1 and not v.generators[0].ifs:
            g = v.generators[0]
            okd = norm(g.iter) in ("self.info_cache.values()",) and norm(v.elt) == "%s.to_json_dict()" % norm(g.target)
        elif isinstance(dumps[0].args[0], ast.Name):
            # an accumulator: acc = []; for info in self.info_cache.values(): acc.append(info.to_json_dict())
            from ..flow import iteration_constructs
            acc = dumps[0].args[0].id
            init = [d_ for d_ in flow.defs(acc, dumps[0]) if d_ != "param"]
            loops_ = [ic for ic in iteration_constructs(f.node) if ic["kind"] == "for" and any(
                isinstance(n_, ast.Call) and isinstance(n_.func, ast.Attribute) and n_.func.attr == "append" and norm(n_.func.value) == acc for n_ in ast.walk(ic["node"]))]
            if len(init) == 1 and isinstance(init[0], ast.Assign) and norm(init[0].value) in ("[]", "list()") and len(loops_) == 1:
                ic = loops_[0]
                fact = "json.dump(%s) with %s filled by: for %s in %s: append(%s)%s" % (acc, acc, norm(ic["target"]), norm(ic["iter"]), [norm(e_) for e_ in ic["elts"]],
                                                                                      (" if %s" % [norm(i_) for i_ in ic["ifs"]]) if ic["ifs"] else "")
                okd = norm(ic["iter"]) == "self.info_cache.values()" and not ic["ifs"] and [norm(e_) for e_ in ic["elts"]] == ["%s.to_json_dict()" % norm(ic["target"])]
            else:
                raise AnalysisError("save_cache: the dumped document %s is neither a comprehension nor a recognised accumulator" % acc)
        else:
            raise AnalysisError("save_cache: the dumped document %s is not understood" % norm(v)[:60])
    ctx.ob("FileSet.save_cache.document", okd, fact,
           "one dump of [info.to_json_dict() for info in self.info_cache.values()] - every cached file, unfiltered",
           node=dumps[0] if dumps else f.node, func=f)


def _stmts_in(st):
    out = [st]
    for fld in ("body", "orelse", "finalbody"):
        for s in getattr(st, fld, []) or []:
            if isinstance(s, ast.stmt):
                out.extend(_stmts_in(s))
    for h in getattr(st, "handlers", []) or []:
        out.append(h)
        for s in h.body:
            out.extend(_stmts_in(s))
    return out


def rule_load(ctx):
    ctx.rule("C15.load", "T1", "load_cache: the whole parse lies inside a catch-all handler that warns and does not re-raise")
    f = ctx.func(FILESET, "FileSet.load_cache")
    risky = []
    for c in calls_in(f.node):
        d = dotted(c.func) or ""
        if d == "open" or d.endswith("json.load") or d.endswith("from_json_dict") or d.endswith("json.loads"):
            risky.append(c)
    for n in walk_no_nested(f.node):
        if isinstance(n, (ast.DictComp, ast.ListComp)):
            risky.append(n)
    if len(risky) < 3:
        raise AnalysisError("load_cache: open / json.load / FileInfo construction not found")
    bad = []
    handler = None
    for r in risky:
        t, fld = lexically_inside(r, (ast.Try,))
        while t is not None and fld != "body":
            t, fld = lexically_inside(t, (ast.Try,))
        if t is None:
            bad.append("%s is outside any try" % norm(r)[:40])
            continue
        ok = False
        for h in t.handlers:
            names = set()
            if h.type is None:
                names.add("BaseException")
            else:
                for e in (h.type.elts if isinstance(h.type, ast.Tuple) else [h.type]):
                    names.add((dotted(e) or "?").split(".")[-1])
            if names & {"Exception", "BaseException"}:
                ok = True
                handler = h
                break   # first matching handler wins
            # an earlier, narrower handler that re-raises would pre-empt the catch-all for its types
            if any(isinstance(x, ast.Raise) for s in h.body for x in ast.walk(s)):
                bad.append("handler for %s re-raises" % sorted(names))
        if not ok:
            bad.append("%s is only protected by handlers for %s" % (
                norm(r)[:30], [norm(h.type) if h.type is not None else "bare" for h in t.handlers]))
    ctx.ob("FileSet.load_cache.catchall", not bad, "unprotected parse steps: %s" % (sorted(set(bad)) or "none"),
           "open, json.load and the construction of every FileInfo are inside `except Exception` (or broader)",
           node=f.node, func=f)
    if handler is not None:
        warns = [c for s in handler.body for c in calls_in(s, ("warn", "warning"))]
        raises = [x for s in handler.body for x in walk_no_nested(s) if isinstance(x, ast.Raise)]
        ctx.ob("FileSet.load_cache.handler", bool(warns) and not raises,
               "handler: warnings=%d raises=%d" % (len(warns), len(raises)),
               "warns and does not re-raise (malformed cache -> warning and empty cache)", node=handler, func=f)
    else:
        ctx.ob("FileSet.load_cache.handler", False, "no catch-all handler", "warns and does not re-raise", node=f.node, func=f)
    # in-memory cache only updated with the complete dictionary
    stores = []
    for n in walk_no_nested(f.node):
        if isinstance(n, ast.Call) and norm(n.func) == "self.info_cache.update":
            stores.append(n)
        if isinstance(n, (ast.Assign, ast.AugAssign)):
            for t in (n.targets if isinstance(n, ast.Assign) else [n.target]):
                if norm(t).startswith("self.info_cache"):
                    stores.append(n)
    in_loop = [s for s in stores if lexically_inside(s, (ast.For, ast.While))[0] is not None]
    flow = Flow(f)
    complete = False
    if len(stores) == 1 and isinstance(stores[0], ast.Call) and stores[0].args:
        v = flow.resolve(stores[0].args[0], at=stores[0])
        complete = isinstance(v, ast.DictComp)
        a0 = stores[0].args[0]
        if not complete and isinstance(a0, ast.Name):
            # a local dictionary filled before the update: independent of the cache unless it aliases it
            ds_ = [d_ for d_ in flow.defs(a0.id, stores[0]) if d_ != "param"]
            complete = bool(ds_) and all(isinstance(d_, ast.Assign) and "info_cache" not in norm(d_.value) for d_ in ds_) \
                and all(isinstance(d_.value, (ast.Dict, ast.DictComp)) or norm(d_.value) == "dict()" for d_ in ds_)
    ctx.ob("FileSet.load_cache.atomic", complete and not in_loop,
           "stores into self.info_cache: %s" % [norm(s)[:60] for s in stores],
           "a single update with the completely constructed dictionary (a failure half-way leaves the cache untouched)",
           node=stores[0] if stores else f.node, func=f)


def rule_register(ctx):
    ctx.rule("C15.register", "T1", "the save-at-exit hook is registered only on the path where loading did not raise")
    f = ctx.func(FILESET, "FileSet.__init__")
    flow = Flow(f)
    cfg = flow.cfg
    regs = [c for c in calls_in(f.node, "atexit.register") if any("save_cache" in norm(a) for a in c.args)]
    loads = calls_in(f.node, "load_cache")
    if not regs or not loads:
        raise AnalysisError("__init__: atexit.register(save_cache) / load_cache not found")
    lnodes = cfg.nodes(enclosing_stmt(loads[0]))
    reach = cfg.reach_from_edges([(n, "exc") for n in lnodes])
    rn = [n for c in regs for n in cfg.nodes(enclosing_stmt(c))]
    hit = [n for n in rn if n in reach]
    # and registration is dominated by the load
    dom = all(cfg.dominated_by(n, set(lnodes)) for n in rn)
    ctx.ob("FileSet.__init__.atexit", not hit and dom,
           "register reachable after load_cache raised: %s; load dominates register: %s" % (bool(hit), dom),
           "registered only after a load that did not raise", node=regs[0], func=f)


# time formats ---------------------------------------------------------------------
_CLASS_CONSTS = {}


def _const_arg(a):
    """a constant, or a class-level constant `cls.NAME` / `self.NAME` / `FileInfo.NAME` (a format string moved into a named constant)"""
    if isinstance(a, ast.Constant):
        return a
    if isinstance(a, ast.Attribute) and isinstance(a.value, ast.Name) and a.value.id in ("cls", "self", "FileInfo") and a.attr in _CLASS_CONSTS:
        return _CLASS_CONSTS[a.attr]
    if isinstance(a, ast.Name) and a.id in _CLASS_CONSTS:
        return _CLASS_CONSTS[a.id]
    return a


def _time_writer(call):
    """classify a <time>.strftime(F) / <time>.isoformat(...) call -> (kind, detail)"""
    if not isinstance(call.func, ast.Attribute):
        return None
    if call.func.attr == "strftime" and call.args and isinstance(_const_arg(call.args[0]), ast.Constant):
        return ("strftime", _const_arg(call.args[0]).value)
    if call.func.attr == "isoformat":
        ts = "auto"
        sep = "T"
        for i, a in enumerate(call.args):
            if i == 0 and isinstance(a, ast.Constant):
                sep = a.value
            if i == 1 and isinstance(a, ast.Constant):
                ts = a.value
        for k in call.keywords:
            if k.arg == "timespec" and isinstance(k.value, ast.Constant):
                ts = k.value.value
            if k.arg == "sep" and isinstance(k.value, ast.Constant):
                sep = k.value.value
        return ("isoformat", (sep, ts))
    return None


def rule_format(ctx):
    ctx.rule("C15.format", "T3", "to_json_dict and from_json_dict agree on a time format with microseconds and a width-stable year")
    w = ctx.func(HCOMMON, "FileInfo.to_json_dict")
    r = ctx.func(HCOMMON, "FileInfo.from_json_dict")
    from ..normalize import helper_closure
    _CLASS_CONSTS.clear()
    for cd in [n_ for n_ in w.module.tree.body if isinstance(n_, ast.ClassDef) and n_.name == "FileInfo"]:
        for st_ in cd.body:
            if isinstance(st_, ast.Assign) and len(st_.targets) == 1 and isinstance(st_.targets[0], ast.Name) and isinstance(st_.value, ast.Constant):
                _CLASS_CONSTS[st_.targets[0].id] = st_.value
    for st_ in w.module.tree.body:
        # (module-level string constants: the format hoisted out of the class)
        if isinstance(st_, ast.Assign) and len(st_.targets) == 1 and isinstance(st_.targets[0], ast.Name) and isinstance(st_.value, ast.Constant) \
                and isinstance(st_.value.value, str):
            _CLASS_CONSTS.setdefault(st_.targets[0].id, st_.value)
    writers = []
    wnodes = helper_closure(w)
    for c in [c_ for n_ in wnodes for c_ in calls_in(n_)]:
        k = _time_writer(c)
        if k:
            writers.append((c, k))
    readers = []
    rnodes = helper_closure(r)
    for c in [c_ for n_ in rnodes for c_ in calls_in(n_)]:
        d = dotted(c.func) or ""
        if d.endswith("strptime") and len(c.args) == 2 and isinstance(_const_arg(c.args[1]), ast.Constant):
            readers.append((c, ("strptime", _const_arg(c.args[1]).value)))
        elif d.endswith("fromisoformat"):
            readers.append((c, ("fromisoformat", None)))
    if len(writers) == 1:
        # one writer applied to both times by a comprehension / loop over the two positions (or over self.times)
        from ..flow import iteration_constructs
        c1 = writers[0][0]
        for ic in [ic_ for n_ in wnodes for ic_ in iteration_constructs(n_)]:
            if any(c1 is x for e_ in ic["elts"] for x in ast.walk(e_)) and not ic["ifs"]:
                it_ = str(norm(ic["iter"])).replace(" ", "")
                tgt = norm(ic["target"])
                recv = norm(c1.func.value) if isinstance(c1.func, ast.Attribute) else ""
                over_times = it_ == "self.times" and recv == tgt
                over_index = it_ in ("range(2)", "(0,1)", "[0,1]") and str(recv).replace(" ", "") in ("self.times[%s]" % tgt, "times[%s]" % tgt)
                if over_times or over_index:
                    writers = [writers[0], writers[0]]
    if len(writers) < 2 or not readers:
        raise AnalysisError("time writer/reader calls not found in FileInfo.to_json_dict/from_json_dict")
    kinds = set(k for _, k in writers)
    ctx.ob("FileInfo.to_json_dict.both", len(kinds) == 1 and len(writers) == 2,
           "start/end written as: %s" % sorted(map(str, kinds)), "both times written the same way", node=writers[0][0], func=w)
    rk = readers[0][1]
    for c, wk in writers[:1]:
        ok, why = _compatible(wk, rk)
        ctx.ob("FileInfo.json_time_format", ok, "writer %s / reader %s: %s" % (wk, rk, why),
               "reader parses exactly what the writer emits for every datetime from datetime.min (year 1, reached via "
               "non-temporal files) to datetime.max, to the microsecond", node=c, func=w)
    # reader used for both times and the indices 0/1 are read
    fact = [norm(c) for c, _ in readers]
    # what is parsed is json_dict['times'][i] - directly, or as the argument a helper receives
    def parses_times(c):
        if "times" in norm(c):
            return True
        own = [n_ for n_ in rnodes[1:] if any(c is x for x in ast.walk(n_))]
        if own and c.args and isinstance(c.args[0], ast.Name):
            return any("times" in norm(k) for k in calls_in(rnodes[0], own[0].name))
        return False
    ctx.ob("FileInfo.from_json_dict.fields", len(readers) >= 1 and all(parses_times(c) for c, _ in readers),
           "reader calls: %s" % fact, "parses json_dict['times'][i]", node=readers[0][0], func=r)


def _entries_of(w, wflow, ret):
    """key -> value expression of the dictionary a function returns: a display, dict(k=v, ...), or a local that starts as one of these and is
    filled by `name[<constant>] = value` statements (straight line, every one of them before the return)"""
    def start(v):
        if isinstance(v, ast.Dict) and all(k is not None and isinstance(k, ast.Constant) for k in v.keys):
            return {k.value: x for k, x in zip(v.keys, v.values)}
        if isinstance(v, ast.Call) and norm(v.func) == "dict" and not v.args and all(k.arg for k in v.keywords):
            return {k.arg: k.value for k in v.keywords}
        return None
    v = ret.value
    got = start(v) or start(wflow.resolve(v, at=ret, depth=3))
    if got is not None and not isinstance(v, ast.Name):
        return got
    if not isinstance(v, ast.Name):
        raise AnalysisError("to_json_dict: the returned value is not a dictionary display with constant keys")
    name = v.id
    defs = [d for d in wflow.defs(name, ret) if d != "param"]
    if len(defs) != 1 or not isinstance(defs[0], ast.Assign):
        raise AnalysisError("to_json_dict: the returned dictionary %s has not one definition" % name)
    got = start(defs[0].value)
    if got is None:
        raise AnalysisError("to_json_dict: %s does not start as a dictionary display" % name)
    for st in w.body:
        if isinstance(st, ast.Assign) and len(st.targets) == 1 and isinstance(st.targets[0], ast.Subscript) and norm(st.targets[0].value) == name:
            if not isinstance(st.targets[0].slice, ast.Constant):
                raise AnalysisError("to_json_dict: a key of %s is not a constant" % name)
            got[st.targets[0].slice.value] = st.value
    for n_ in walk_no_nested(w.node):
        if isinstance(n_, ast.Subscript) and isinstance(n_.ctx, ast.Store) and norm(n_.value) == name and not any(
                isinstance(st, ast.Assign) and st.targets[0] is n_ for st in w.body):
            raise AnalysisError("to_json_dict: %s is filled inside a compound statement" % name)
        if isinstance(n_, ast.Call) and isinstance(n_.func, ast.Attribute) and norm(n_.func.value) == name and n_.func.attr in ("update", "pop", "setdefault", "clear"):
            raise AnalysisError("to_json_dict: %s.%s(...) not read" % (name, n_.func.attr))
    return got


def rule_attr(ctx):
    """the attributes go into the file and come back as they are"""
    ctx.rule("C15.format", "T3", "to_json_dict stores path and attributes as they are, from_json_dict hands them to the constructor as they are")
    w = ctx.func(HCOMMON, "FileInfo.to_json_dict")
    r = ctx.func(HCOMMON, "FileInfo.from_json_dict")
    wflow, rflow = Flow(w), Flow(r)
    rets = [x for x in walk_no_nested(w.node) if isinstance(x, ast.Return) and x.value is not None]
    if len(rets) != 1:
        raise AnalysisError("to_json_dict: not one return")
    by = _entries_of(w, wflow, rets[0])
    same = lambda e, what: str(norm(e)).replace(" ", "") in (what, "dict(%s)" % what, "%s.copy()" % what, "{**%s}" % what, "str(%s)" % what if what == "self.path" else what)
    for key, what in (("attr", "self.attr"), ("path", "self.path")):
        if key not in by:
            ctx.ob("FileInfo.to_json_dict.%s" % key, False, "no key %r" % key, "%r: %s" % (key, what), node=rets[0], func=w)
            continue
        v = wflow.resolve(by[key], at=rets[0], depth=3)
        if not same(v, what):
            if any(isinstance(n_, (ast.DictComp, ast.ListComp, ast.Call, ast.GeneratorExp)) for n_ in ast.walk(v)):
                raise AnalysisError("to_json_dict: %r is written as %s - the values are transformed on their way into the file; whether every value the "
                                    "file format can hold (None, numbers, strings, lists, dictionaries) comes back as itself is not visible to the rules" % (key, str(norm(v))[:80]))
            ctx.ob("FileInfo.to_json_dict.%s" % key, False, "%r: %s" % (key, norm(v)), "%r: %s" % (key, what), node=rets[0], func=w)
        else:
            ctx.ob("FileInfo.to_json_dict.%s" % key, True, "%r: %s" % (key, norm(v)), "%r: %s" % (key, what), node=rets[0], func=w)
    # the reader: cls(json_dict['path'], times, json_dict['attr'])
    jd = r.params[1] if len(r.params) > 1 else r.params[0]
    rr = [x for x in walk_no_nested(r.node) if isinstance(x, ast.Return) and x.value is not None]
    if len(rr) != 1:
        raise AnalysisError("from_json_dict: not one return")
    c = rflow.resolve(rr[0].value, at=rr[0], depth=2)
    if not (isinstance(c, ast.Call) and norm(c.func) in ("cls", "FileInfo")):
        raise AnalysisError("from_json_dict: the returned value is not a call of the constructor")
    from ..calls import bind_args
    init = ctx.func(HCOMMON, "FileInfo.__init__")
    names = init.params[1:]
    bound = {}
    for i_, a_ in enumerate(c.args):
        if i_ < len(names):
            bound[names[i_]] = a_
    for k_ in c.keywords:
        if k_.arg:
            bound[k_.arg] = k_.value
    for pname, key in ((names[0], "path"), (names[2] if len(names) > 2 else "attr", "attr")):
        got = bound.get(pname)
        gv = rflow.resolve(got, at=rr[0], depth=2) if got is not None else None
        txt = str(norm(gv)).replace('"', "'") if gv is not None else None
        ok = txt in ("%s['%s']" % (jd, key), "dict(%s['%s'])" % (jd, key))
        if not ok and gv is not None and "%s['%s']" % (jd, key) not in txt:
            ctx.ob("FileInfo.from_json_dict.%s" % key, False, "%s = %s" % (pname, txt), "%s = %s['%s']" % (pname, jd, key), node=rr[0], func=r)
        elif not ok:
            raise AnalysisError("from_json_dict: %s = %s - a transformation of the stored value the rules cannot judge" % (pname, txt))
        else:
            ctx.ob("FileInfo.from_json_dict.%s" % key, True, "%s = %s" % (pname, txt), "%s = %s['%s']" % (pname, jd, key), node=rr[0], func=r)


def _compatible(wk, rk):
    iso_fmt = "%Y-%m-%d{sep}%H:%M:%S.%f"
    if wk[0] == "strftime":
        fmt = wk[1]
        if "%f" not in fmt:
            return False, "writer drops the microseconds"
        if "%Y" in fmt:
            return False, ("strftime('%Y') does not zero-pad years below 1000 (platform libc): datetime.min is written as "
                           "'1-01-01T...' which strptime('%Y') rejects - the whole cache is then discarded on load")
        if rk[0] == "strptime":
            return fmt == rk[1], "formats %s" % ("equal" if fmt == rk[1] else "differ")
        return False, "strftime writer with fromisoformat reader"
    sep, ts = wk[1]
    if ts != "microseconds":
        if ts == "auto":
            if rk[0] == "fromisoformat":
                return True, "isoformat()/fromisoformat round-trip"
            return False, "isoformat() omits '.ffffff' when microsecond == 0; strptime('.%f') then fails"
        return False, "timespec=%r truncates below the microsecond" % ts
    if rk[0] == "fromisoformat":
        return True, "isoformat(microseconds)/fromisoformat"
    want = iso_fmt.format(sep=sep)
    return rk[1] == want, "isoformat(sep=%r, microseconds) is read by %r (expected %r)" % (sep, rk[1], want)


def rule_lookup(ctx):
    ctx.rule("C15.lookup", "T1", "get_info consults the cache first and fills it last; time_coverage resets the cache")
    f = ctx.func(FILESET, "FileSet.get_info")
    body = f.body
    first = body[0] if body else None

    def not_logging(st_):
        return not (isinstance(st_, ast.Expr) and isinstance(st_.value, ast.Call) and (dotted(st_.value.func) or "").split(".")[0] in ("logger", "logging", "warnings"))
    fb = [s_ for s_ in first.body if not_logging(s_)] if isinstance(first, ast.If) else []
    ok = isinstance(first, ast.If) and "in self.info_cache" in norm(first.test) and len(fb) == 1 \
        and isinstance(fb[0], ast.Return) and norm(fb[0].value).startswith("self.info_cache[")
    key = None
    if ok:
        key = norm(first.test.left)
        ok = norm(fb[0].value) == "self.info_cache[%s]" % key
    ctx.ob("FileSet.get_info.lookup", ok, "first statement: %s" % (norm(first)[:80] if first is not None else None),
           "cache lookup by path before any parsing; returns the cached object", node=first or f.node, func=f)
    flow = Flow(f)
    cfg = flow.cfg
    stores = [st for st in flow.stmts if isinstance(st, ast.Assign) and norm(st.targets[0]).startswith("self.info_cache[")]
    rets = [st for st in flow.stmts if isinstance(st, ast.Return) and st is not (fb[0] if ok else None)]
    good = False
    if len(stores) == 1 and rets:
        sn = set(cfg.nodes(stores[0]))
        good = all(cfg.dominated_by(n, sn) for r_ in rets for n in cfg.nodes(r_)) \
            and all(norm(r_.value) == norm(stores[0].value) for r_ in rets) \
            and norm(stores[0].targets[0]) == "self.info_cache[%s.path]" % norm(stores[0].value)
    ctx.ob("FileSet.get_info.store", good, "stores: %s; other returns: %s" % ([norm(s) for s in stores], [norm(r_) for r_ in rets]),
           "the finished info is stored under its own path on every path that returns it", node=stores[0] if stores else f.node, func=f)
    rule_reset(ctx)


def rule_reset(ctx, rule=None):
    """time_coverage setter resets the info cache on every path (shared with C01)."""
    g = ctx.func(FILESET, "FileSet.time_coverage.setter")
    gflow = Flow(g)
    cfg = gflow.cfg

    def direct_resets(flow_):
        r_ = [st for st in flow_.stmts if isinstance(st, ast.Assign) and norm(st.targets[0]) == "self.info_cache"
              and isinstance(st.value, (ast.Dict, ast.Call)) and norm(st.value) in ("{}", "dict()")]
        r_ += [st for st in flow_.stmts if isinstance(st, ast.Expr) and norm(st.value) == "self.info_cache.clear()"]
        return r_
    resets = direct_resets(gflow)
    # a call of a method of the class that resets the cache on every one of its own normal paths counts as a reset (wrapper summary)
    for st in gflow.stmts:
        if isinstance(st, ast.Expr) and isinstance(st.value, ast.Call) and isinstance(st.value.func, ast.Attribute) \
                and isinstance(st.value.func.value, ast.Name) and st.value.func.value.id == "self":
            try:
                h = ctx.func(FILESET, "FileSet." + st.value.func.attr)
            except AnalysisError:
                continue
            hflow = Flow(h)
            hr = set(n for x in direct_resets(hflow) for n in hflow.cfg.nodes(x))
            if hr and EXIT not in hflow.cfg.reach([ENTRY], avoid=hr):
                resets.append(st)
    rn = set(n for st in resets for n in cfg.nodes(st))
    leaks = EXIT in cfg.reach([ENTRY], avoid=rn)
    ctx.ob("FileSet.time_coverage.setter.reset", bool(rn) and not leaks,
           "normal exit reachable without resetting self.info_cache: %s" % (leaks or not rn),
           "every normal path through the setter resets the cache (cached end times depend on time_coverage)",
           node=resets[0] if resets else g.node, func=g, rule=rule)


def rule_entries(ctx):
    """from_json_dict turns a cached entry into a FileInfo only when it is usable: both times become datetimes, path is a string and
    the attributes a dict - anything else raises (load_cache then warns and starts with an empty cache)."""
    ctx.rule("C15.entries", "T1", "from_json_dict: every time becomes a datetime or the entry is rejected; path / attr are type-checked before the FileInfo is built")
    from ..flow import Flow, guard_chain
    r = ctx.func(HCOMMON, "FileInfo.from_json_dict")
    flow = Flow(r)
    jd = r.params[1] if len(r.params) > 1 else r.params[0]
    # values that end up in the list of times
    produced = []
    for c in calls_in(r.node, "append"):
        if c.args:
            produced.append((c.args[0], c))
    for st in flow.stmts:
        if isinstance(st, ast.Assign) and isinstance(st.value, (ast.List, ast.ListComp)) and "times" in norm(st.targets[0]):
            for e in (st.value.elts if isinstance(st.value, ast.List) else [st.value.elt]):
                produced.append((e, st))
    if not produced:
        raise AnalysisError("from_json_dict: construction of the two times not found")
    PARSE = ("strptime", "fromisoformat", "to_datetime")

    def is_dt(e, depth=0):
        """e is a parsed datetime: a parse call, a conditional of such, or a call of a helper all of whose returns are (it may raise otherwise)"""
        if depth > 3:
            return False
        if isinstance(e, ast.IfExp):
            return is_dt(e.body, depth) and is_dt(e.orelse, depth)
        if not isinstance(e, ast.Call):
            return False
        last = (dotted(e.func) or "").split(".")[-1]
        if last in PARSE:
            return True
        for qual in ("FileInfo." + last, last):
            try:
                h = ctx.func(HCOMMON, qual, raw=True)
            except AnalysisError:
                continue
            rets_ = [r_ for r_ in walk_no_nested(h.node) if isinstance(r_, ast.Return)]
            return bool(rets_) and all(r_.value is not None and is_dt(r_.value, depth + 1) for r_ in rets_)
        return False
    bad = []
    for e, at in produced:
        if not is_dt(e):
            bad.append(str(norm(e))[:40])
    ctx.ob("FileInfo.from_json_dict.times", not bad, "values stored as times: %s" % ([str(norm(e))[:50] for e, _ in produced]),
           "only parsed datetimes (a missing time raises: find() cannot compare None or a list with a datetime)", node=produced[0][1], func=r)
    # type checks on path and attr
    checked = set()
    for st in flow.stmts:
        if isinstance(st, ast.If) and any(isinstance(x, ast.Raise) for x in st.body):
            for c in calls_in(st.test, "isinstance"):
                if len(c.args) == 2:
                    a0 = str(norm(c.args[0])).replace('"', "'")
                    for key, typ in (("path", ("str", "(str, os.PathLike)", "(str, bytes)")), ("attr", ("dict", "Mapping", "(dict,)"))):
                        if a0 == "%s['%s']" % (jd, key) and str(norm(c.args[1])) in typ:
                            checked.add(key)
    ctx.ob("FileInfo.from_json_dict.types", checked == {"path", "attr"}, "type-checked before use: %s" % (sorted(checked) or "nothing"),
           "path must be a string and attr a dict, otherwise ValueError (a cached attr of another JSON type made find() raise AttributeError)",
           node=r.node, func=r, witness=None if checked == {"path", "attr"} else {"cache entry": {"path": "<file>", "times": ["...", "..."], "attr": "s"}})


def rule_filesystem(ctx):
    """The JSON document holds path, times and attributes; the file system a FileInfo lives on is not part of it.  FileInfo(...) defaults
    to a new LocalFileSystem: an entry restored from the cache must be put on the file system of its fileset, else find() after a restart
    yields files that cannot be read (a fileset on a zip archive)."""
    ctx.rule("C15.filesystem", "T1", "load_cache puts every restored FileInfo on the file system of the fileset")
    f = ctx.func(FILESET, "FileSet.load_cache")
    flow = Flow(f)
    upd = [c for c in calls_in(f.node, "update") if str(norm(c.func)) == "self.info_cache.update" and c.args]
    sto = [st for st in flow.stmts if isinstance(st, ast.Assign) and str(norm(st.targets[0])) == "self.info_cache"]
    if len(upd) + len(sto) != 1:
        raise AnalysisError("load_cache: the hand-over of the loaded entries to self.info_cache was not found")
    hand = enclosing_stmt(upd[0]) if upd else sto[0]
    src = upd[0].args[0] if upd else sto[0].value
    made = calls_in(f.node, "from_json_dict")
    if len(made) != 1:
        raise AnalysisError("load_cache: FileInfo.from_json_dict call not found")
    # (a) the file system handed to the constructor, or (b) set on every entry before the hand-over
    kw = {k.arg: str(norm(k.value)) for k in made[0].keywords}
    direct = any(v_ == "self.file_system" for v_ in kw.values()) or any(str(norm(a_)) == "self.file_system" for a_ in made[0].args[1:])
    later = False
    for lp in [st for st in flow.stmts if isinstance(st, ast.For)]:
        if not isinstance(src, ast.Name) or src.id not in str(norm(lp.iter)) or not flow._order(lp) < flow._order(hand):
            continue
        for st in lp.body:
            if isinstance(st, ast.Assign) and isinstance(st.targets[0], ast.Attribute) and st.targets[0].attr == "file_system" and str(norm(st.value)) == "self.file_system" \
                    and isinstance(st.targets[0].value, ast.Name) and st.targets[0].value.id in {n_.id for n_ in ast.walk(lp.target) if isinstance(n_, ast.Name)}:
                later = True
    # (c) set on each object right where it is made: X = from_json_dict(..); X.file_system = self.file_system
    mst = enclosing_stmt(made[0])
    if isinstance(mst, ast.Assign) and len(mst.targets) == 1 and isinstance(mst.targets[0], ast.Name) and mst.value is made[0]:
        x_ = mst.targets[0].id
        blk = parent(mst)
        sibs = next((getattr(blk, fl_) for fl_ in ("body", "orelse", "finalbody") if any(z is mst for z in getattr(blk, fl_, []) or [])), [])
        k_ = [i for i, z in enumerate(sibs) if z is mst]
        for st in (sibs[k_[0] + 1:] if k_ else []):
            if isinstance(st, ast.Assign) and isinstance(st.targets[0], ast.Attribute) and st.targets[0].attr == "file_system" and str(norm(st.targets[0].value)) == x_ \
                    and str(norm(st.value)) == "self.file_system":
                later = True
    ok = direct or later
    ctx.ob("FileSet.load_cache.file_system", ok, "from_json_dict(%s); file system set on the loaded entries: %s" % (", ".join(str(norm(a_))[:30] for a_ in made[0].args), later or direct),
           "info.file_system = self.file_system for every loaded entry (or handed to the constructor): find() gives the same FileInfo with or without the cache",
           node=made[0], func=f, witness=None if ok else {"fileset": "FileSet(..., fs=ZipFileSystem('archive.zip'), info_cache=cache)", "after restart": "f.file_system is a LocalFileSystem; read raises FileNotFoundError"})


def run(ctx):
    from ..calendar_rule import rule_leap
    ctx.attempt(rule_leap, ctx, "C15.calendar", ['typhon/files/fileset.py', 'typhon/files/handlers/common.py'])
    for r in (rule_order, rule_load, rule_register, rule_format, rule_attr, rule_lookup, rule_entries, rule_filesystem):
        ctx.attempt(r, ctx)
    from ..early import rule_early_table
    rule_early_table(ctx, "C15.answer", [(FILESET, "FileSet.load_cache", ("load", "loads"), "reading the cache file", ())])
